"""Contracts on python.BasicBlock (_compile, execute) and python.Model.__init__ / python.compile  (C01, C08 python half).

Dependency contracts (ASSUMED, spot-checked per program on the corpus by checks/C01.py):
  D-cse   cse(exprs, symbols=...) returns (repl, reduced): repl a list of (t_i, rhs_i), i < p, reduced a list with len(reduced) = len(exprs);
          the temporaries t_i are symbols with pairwise distinct names, distinct from every name of the block's arglist; and for every
          environment E of the arglist there is an extension E* (equal to E on the arglist symbols) with
              lookup(E*, t_i) = ev(rhs_i, E*)   for all i < p          (each temporary is its definition, in terms of earlier ones)
              ev(reduced_j, E*) = ev(exprs_j, E) for all j              (back-substitution gives the original expression)
  D-simp  ev(simplify(e), E) = ev(e, E)
  D-lam   f = lambdify(params, e, ...):  f(*pos, **kw) = ev(e, E') for ANY E' such that lookup(E', params[i]) = pos[i] (i < len(pos)) and
          lookup(E', params[i]) = kw[str(params[i])] (i >= len(pos)); TypeError unless every parameter is bound exactly once and kw has no other key.
"""
from __future__ import annotations

import z3

from contracts import common
from contracts.pyekf import BasicBlockInit, UiModelShape, make_block
from pvc.contract import Call, Contract, LoopInv
from pvc.interp import Builtin, GenV, PyDict, PyList, Splat, as_seq2
from pvc.sym import Mat, PyRaise, SInt, SMat, SObj, SReal, SSeq, SV, Unsupported, subst, to_int, to_real, wrap
from pvc.symtheory import Env, Expr, ExprV, Str, StrV, Sym, SymV, ev_f, lookup_f, name_f

simp_f = z3.Function("simplify", Expr, Expr)
# an expression without ComplexInfinity (zoo): the premise under which D-lam / D-ccode (printing) are assumed.  sympy's simplify() does NOT
# preserve it (defect D15: sign(x) next to a pole at x becomes a Piecewise whose x == 0 branch is zoo).
finite_f = z3.Function("no_complex_infinity", Expr, z3.BoolSort())


class LamV(SV):
    """A lambdified callable: parameter list (symbolic length) and expression."""

    def __init__(self, params, expr_z, params_at=None):
        self.params = params  # SSeq of SymV
        self.expr = expr_z

    def pvc_subst(self, pairs):
        return LamV(self.params.subst(pairs), z3.substitute(self.expr, *pairs))

    def pvc_call(self, I, args, kwargs):
        """D-lam, with the environment supplied as ghost state (path.ghost['env_star'])."""
        from pvc.np_model import scalar_of

        P = I.path
        site = P.ghost.get("site", "call")
        pos = I.pack_varargs(list(args))
        if isinstance(pos, tuple):
            pos = SSeq.from_list(list(pos))
        kws = [k for k in kwargs.get("**", []) if not (isinstance(k, PyDict) and not k.d)]
        named = {k: v for k, v in kwargs.items() if k != "**"}
        if named or len(kws) > 1:
            raise Unsupported("lambdified call with explicit keywords")
        kw = kws[0] if kws else None
        Es = P.ghost.get("env_star")
        if Es is None:
            raise Unsupported("lambdified callable called without a ghost environment")
        npar, npos = self.params.len_z(), pos.len_z()
        i = P.fresh_int("pi")
        s = z3.Const(P.names.fresh("ps"), Str)
        par = lambda t: self.params.at(t).z
        if kw is None:
            P.oblige(f"{site}.lambdified_call.binds_every_parameter_once", npos == npar)
        else:
            if not isinstance(kw, TempDict):
                raise Unsupported("** of a general dict into a lambdified callable")
            # every non-positional parameter is supplied by keyword, and no other keyword is passed
            P.oblige(f"{site}.lambdified_call.binds_every_parameter_once", z3.And(npos <= npar, z3.Implies(z3.And(i >= npos, i < npar), kw.has(name_f(par(i))))))
            P.oblige(f"{site}.lambdified_call.no_unexpected_keyword", z3.Implies(kw.has(s), kw.is_param_beyond(s, self, npos)))
            P.oblige(f"{site}.lambdified_call.keyword_values_are_env", z3.Implies(z3.And(i >= npos, i < npar), kw.get(name_f(par(i))) == lookup_f(Es, par(i))))
        P.oblige(f"{site}.lambdified_call.positional_values_are_env", z3.Implies(z3.And(i >= 0, i < npos, i < npar), to_real(scalar_of(pos.at(i))) == lookup_f(Es, par(i))))
        return SReal(ev_f(self.expr, Es))


class TempDict(SV):
    """`temporary_values`: dict from temporary NAME to value, in functional form (has/get closures)."""

    pvc_type = "dict"

    def __init__(self, has, get, world):
        self.has, self.get, self.world = has, get, world

    def pvc_setitem(self, I, k, v):
        raise Unsupported("in-place update of a havocked dict (handled by TempDict.store)")

    def store(self, kz, vz):
        h, g = self.has, self.get
        return TempDict(lambda s: z3.Or(h(s), s == kz), lambda s: z3.If(s == kz, vz, g(s)), self.world)

    def is_param_beyond(self, s, lam, npos):
        """s is the name of one of lam's parameters at an index >= npos (decided through the block's name index)."""
        w = self.world
        return w.name_is_param_beyond(s, lam, npos)


class BlockWorld:
    """A compiled BasicBlock: arglist, original expressions, CSE program; ghost environments E and E*."""

    def __init__(self, I, cse=True):
        P = I.path
        self.I = I
        self.cse = cse
        self.a = P.fresh_int("n_args")
        self.q = P.fresh_int("n_exprs")
        self.p = P.fresh_int("n_temporaries") if cse else z3.IntVal(0)
        P.assume(z3.And(self.a >= 0, self.q >= 0, self.p >= 0))
        self.arg_f = z3.Function("arg", z3.IntSort(), Sym)
        self.expr_f = z3.Function("expr", z3.IntSort(), Expr)  # original statements
        self.t_f = z3.Function("tmp", z3.IntSort(), Sym)  # temporaries t_i
        self.rhs_f = z3.Function("rhs", z3.IntSort(), Expr)  # replacement right-hand sides
        self.red_f = z3.Function("red", z3.IntSort(), Expr)  # reduced expressions
        self.tpos = z3.Function("tmp_index_of_name", Str, z3.IntSort())
        self.E = z3.Const("E", Env)
        self.Es = z3.Const("E_star", Env) if cse else self.E
        self.arglist = SSeq(SInt(self.a), lambda i: SymV(self.arg_f(i)), "arglist")
        self.arglist.pvc_type = "list"
        self.exprs = SSeq(SInt(self.q), lambda i: ExprV(self.expr_f(i)), "exprs")
        self.exprs.pvc_type = "list"
        self.temps = SSeq(wrap(self.p), lambda i: SymV(self.t_f(i)), "temporaries")
        self.temps.pvc_type = "list"
        P.ghost["env"] = self.E
        P.ghost["env_star"] = self.Es
        # accepted definitions contain no ComplexInfinity, and cse() (which only regroups sub-expressions) introduces none
        fi = z3.Int(P.names.fresh("fi"))
        for fn, bound in ((self.expr_f, self.q), (self.red_f, self.q), (self.rhs_f, self.p)):
            P.facts.append(z3.ForAll([fi], z3.Implies(z3.And(fi >= 0, fi < bound), finite_f(fn(fi))), patterns=[fn(fi)]))

    def dcse_facts(self, P):
        """D-cse in environment form + distinct-name facts (instantiable, patterns on the function symbols)."""
        i, j = z3.Int(P.names.fresh("ci")), z3.Int(P.names.fresh("cj"))
        p, a = self.p, self.a
        # names of temporaries index them; they differ from all argument names
        P.facts.append(z3.ForAll([i], z3.Implies(z3.And(i >= 0, i < p), self.tpos(name_f(self.t_f(i))) == i), patterns=[self.t_f(i)]))
        P.facts.append(z3.ForAll([i, j], z3.Implies(z3.And(i >= 0, i < p, j >= 0, j < a), name_f(self.t_f(i)) != name_f(self.arg_f(j))), patterns=[z3.MultiPattern(self.t_f(i), self.arg_f(j))]))
        if self.cse:
            P.facts.append(z3.ForAll([j], z3.Implies(z3.And(j >= 0, j < a), lookup_f(self.Es, self.arg_f(j)) == lookup_f(self.E, self.arg_f(j))), patterns=[lookup_f(self.Es, self.arg_f(j))]))
            P.facts.append(z3.ForAll([i], z3.Implies(z3.And(i >= 0, i < p), lookup_f(self.Es, self.t_f(i)) == ev_f(self.rhs_f(i), self.Es)), patterns=[self.t_f(i)]))
            P.facts.append(z3.ForAll([j], z3.Implies(z3.And(j >= 0, j < self.q), ev_f(self.red_f(j), self.Es) == ev_f(self.expr_f(j), self.E)), patterns=[self.red_f(j)]))
        e = z3.Const(P.names.fresh("se"), Expr)
        en = z3.Const(P.names.fresh("sen"), Env)
        P.facts.append(z3.ForAll([e, en], ev_f(simp_f(e), en) == ev_f(e, en), patterns=[ev_f(simp_f(e), en)]))  # D-simp

    def params_prefix(self, i):
        """arglist + temporaries[:i]"""
        iz = to_int(i)
        s = self.arglist.concat(self.temps.slice(0, wrap(iz)))
        return s

    def compiled_fields(self):
        """Representation invariant established by _compile."""
        if self.cse:
            prefix = SSeq(wrap(self.p), lambda i: (SymV(self.t_f(i)), LamV(self.params_prefix(i), simp_f(self.rhs_f(i)))), "_prefix")
            body = SSeq(SInt(self.q), lambda j: LamV(self.arglist.concat(self.temps), simp_f(self.red_f(j))), "_body")
        else:
            prefix = PyList([])
            body = SSeq(SInt(self.q), lambda j: LamV(self.arglist, self.expr_f(j)), "_body")
        return prefix, body

    def temp_dict(self, j):
        """{str(t_i): lookup(E*, t_i) for i < j} in closed form through the name index."""
        jz = to_int(j)
        tp, tf, Es = self.tpos, self.t_f, self.Es
        has = lambda s: z3.And(tp(s) >= 0, tp(s) < jz, name_f(tf(tp(s))) == s)
        get = lambda s: lookup_f(Es, tf(tp(s)))
        return TempDict(has, get, self)

    def name_is_param_beyond(self, s, lam, npos):
        """Is the string s the name of a parameter of `lam` at an index >= npos?  Parameters beyond the arglist are temporaries,
        identified through the name index (sound because temporary names are pairwise distinct and differ from argument names)."""
        tp = self.tpos
        npar = lam.params.len_z()
        k = tp(s) + self.a
        return z3.And(k >= npos, k < npar, name_f(lam.params.at(k).z) == s)


class Execute(Contract):
    """BasicBlock.execute(*args, **kwargs)                                                   [C01.3, C08 python half]
    requires the block is compiled (representation invariant of _compile), kwargs empty, and for the ghost environment E:
             len(args) = len(_arglist), args[i] = lookup(E, _arglist[i]).
    ensures  never raises; yields len(_exprs) values; value j = ev(_exprs[j], E) - the SAME term with common_subexpression_elimination on and off."""

    assignable = ()  # frame: attributes of self the method may write

    key = "formak.python:BasicBlock.execute"

    def __init__(self, cse=True):
        self.cse = cse
        self.prefix = f"C01.py.BasicBlock.execute[cse_{'on' if cse else 'off'}]"

        def inv(I, k, env, call):
            W = call.W
            kz = to_int(k)
            tv = env["temporary_values"]
            s = z3.Const("s_any", Str)
            want = W.temp_dict(kz)
            if isinstance(tv, PyDict):
                if tv.d:
                    raise Unsupported("concrete temporaries")
                has, get = (lambda x: z3.BoolVal(False)), (lambda x: z3.RealVal(0))
            elif isinstance(tv, TempDict):
                has, get = tv.has, tv.get
            else:
                raise Unsupported("temporary_values is not a dict")
            return [("temporaries_domain", has(s) == want.has(s)), ("temporaries_values", z3.Implies(has(s), get(s) == want.get(s)))]

        self.loops = {0: LoopInv(carried={"temporary_values": lambda I, tag, k=None: I.path.ghost["world"].temp_dict(k)}, inv=inv, name="prefix_loop", pass_k=True)}

    def setup(self, I):
        P = I.path
        W = BlockWorld(I, self.cse)
        P.ghost["world"] = W
        P.ghost["site"] = self.prefix
        W.dcse_facts(P)
        mod = I.load_module("formak.python")
        cls = I.module_attr(mod, "BasicBlock")
        prefix, body = W.compiled_fields()
        blk = SObj(cls, {"_arglist": W.arglist, "_exprs": W.exprs, "_config": SObj("Config", {"common_subexpression_elimination": self.cse}, "config"), "_prefix": prefix, "_body": body}, "block")
        args = SSeq(SInt(W.a), lambda i: SReal(lookup_f(W.E, W.arg_f(i))), "args")
        return Call([blk, Splat(args)], {}, W=W, blk=blk, old=dict(blk.fields))

    def post(self, I, call, outcome):
        P = I.path
        W, pre = call.W, self.prefix
        if outcome[0] == "raise":
            P.oblige(f"{pre}.no_exception", z3.BoolVal(False), note=f"raises {outcome[1]}")
            return
        rv = outcome[1]
        seq = rv.seq if isinstance(rv, GenV) else rv
        ok = isinstance(seq, (SSeq, PyList))
        P.oblige(f"{pre}.yields_a_sequence", z3.BoolVal(ok))
        if ok:
            seq = as_seq2(seq)
            j = z3.Int("j_any")
            P.oblige(f"{pre}.one_value_per_statement", seq.len_z() == W.q)
            v = seq.at(j)
            P.oblige(f"{pre}.value_is_original_expression", z3.Implies(z3.And(j >= 0, j < W.q), to_real(v) == ev_f(W.expr_f(j), W.E)))
        for f, v0 in call.old.items():
            P.oblige(f"{pre}.frame.self.{f}", z3.BoolVal(call.blk.fields.get(f) is v0))


# setitem on TempDict inside the invariant-rule body: functional update of the local variable


def _tempdict_setitem(self, I, k, v):
    if I.merge_depth:
        raise Unsupported("temporary store in summarised loop")
    if not isinstance(k, StrV):
        raise Unsupported("temporary key is not a string")
    new = self.store(k.z, to_real(v))
    # rebind every local that refers to this dict object (python mutates in place)
    for fr in I.frames:
        for name, val in list(fr.locals.items()):
            if val is self:
                fr.locals[name] = new


TempDict.pvc_setitem = _tempdict_setitem


class Compile(Contract):
    """BasicBlock._compile()                                                             [C01.2, C08 python half]
    ensures  with CSE: _prefix has one entry per cse replacement, entry i = (t_i, lambdify(_arglist + temporaries[:i], simplify(rhs_i)));
             _body has one entry per statement, entry j = lambdify(_arglist + temporaries, simplify(reduced_j));
             without CSE: _prefix = [], _body[j] = lambdify(_arglist, _exprs[j])."""

    key = "formak.python:BasicBlock._compile"

    def __init__(self, cse=True):
        self.cse = cse
        self.prefix = f"C01.py.BasicBlock._compile[cse_{'on' if cse else 'off'}]"

    def setup(self, I):
        P = I.path
        W = BlockWorld(I, self.cse)
        P.ghost["world"] = W
        P.ghost["site"] = self.prefix
        mod = I.load_module("formak.python")
        cls = I.module_attr(mod, "BasicBlock")
        blk = SObj(cls, {"_arglist": W.arglist, "_exprs": W.exprs, "_config": SObj("Config", {"common_subexpression_elimination": self.cse, "python_modules": SObj("PythonModules", {}, "config.python_modules")}, "config")}, "block")
        install_sympy_models(I, W)

        def temporaries_must_avoid(I2, site, tmpl):
            """the names the temporaries generator skips are exactly the names of the block's arguments"""
            av = tmpl.avoid
            goal = z3.BoolVal(False)
            note = "cse temporaries are not kept apart from the block's argument names: a model symbol called _t0 that does not occur in the block's expressions is shadowed (SyntaxError: duplicate argument / wrong binding)"
            if isinstance(av, (SSeq, PyList)) and tmpl.avoid_prefix == "":
                avs = as_seq2(av)
                i = z3.Int("i_any")
                el = avs.at(i)
                if isinstance(el, StrV):
                    goal = z3.And(avs.len_z() == W.a, z3.Implies(z3.And(i >= 0, i < W.a), el.z == name_f(W.arg_f(i))))
                    note = "the skipped names must be the names of the block's arguments, position by position"
            I2.path.oblige(f"{site}.cse_temporaries_avoid_the_blocks_argument_names", goal, note=note)

        P.ghost["temporaries_must_avoid"] = temporaries_must_avoid
        return Call([blk], {}, W=W, blk=blk)

    def post(self, I, call, outcome):
        P = I.path
        W, pre, blk = call.W, self.prefix, call.blk
        if outcome[0] == "raise":
            P.oblige(f"{pre}.no_exception", z3.BoolVal(False), note=f"raises {outcome[1]}")
            return
        pf, bd = blk.fields.get("_prefix"), blk.fields.get("_body")
        i, j, t = z3.Int("i_any"), z3.Int("j_any"), z3.Int("t_any")
        okp = isinstance(pf, (SSeq, PyList))
        okb = isinstance(bd, (SSeq, PyList))
        P.oblige(f"{pre}.prefix_is_list", z3.BoolVal(okp))
        P.oblige(f"{pre}.body_is_list", z3.BoolVal(okb))
        if okp:
            pfs = as_seq2(pf)
            P.oblige(f"{pre}.prefix_length", pfs.len_z() == W.p)
            if not (isinstance(pf, PyList) and not pf.items):
                ent = pfs.at(i)
                good = isinstance(ent, tuple) and len(ent) == 2 and isinstance(ent[0], SymV) and isinstance(ent[1], LamV)
                P.oblige(f"{pre}.prefix_entry_shape", z3.BoolVal(good))
                if good:
                    in_i = z3.And(i >= 0, i < W.p)
                    lam = ent[1]
                    P.oblige(f"{pre}.prefix_entry_temporary", z3.Implies(in_i, ent[0].z == W.t_f(i)))
                    P.oblige(f"{pre}.prefix_entry_expression", z3.Implies(in_i, lam.expr == (simp_f(W.rhs_f(i)) if self.cse else W.rhs_f(i))))
                    want = W.params_prefix(i)
                    P.oblige(f"{pre}.prefix_scope.length", z3.Implies(in_i, lam.params.len_z() == W.a + i))
                    P.oblige(f"{pre}.prefix_scope.parameters", z3.Implies(z3.And(in_i, t >= 0, t < W.a + i), lam.params.at(t).z == want.at(t).z))
        if okb:
            bds = as_seq2(bd)
            P.oblige(f"{pre}.body_length", bds.len_z() == W.q)
            ent = bds.at(j)
            good = isinstance(ent, LamV)
            P.oblige(f"{pre}.body_entry_shape", z3.BoolVal(good))
            if good:
                in_j = z3.And(j >= 0, j < W.q)
                want_e = simp_f(W.red_f(j)) if self.cse else W.expr_f(j)
                P.oblige(f"{pre}.body_entry_expression", z3.Implies(in_j, ent.expr == want_e))
                wantp = W.arglist.concat(W.temps) if self.cse else W.arglist
                P.oblige(f"{pre}.body_scope.length", z3.Implies(in_j, ent.params.len_z() == wantp.len_z()))
                P.oblige(f"{pre}.body_scope.parameters", z3.Implies(z3.And(in_j, t >= 0, t < wantp.len_z()), ent.params.at(t).z == wantp.at(t).z))


class GuardedSimplify(Contract):
    """python._simplify(expr) / cpp._simplify(expr)
    requires expr has no ComplexInfinity.
    ensures  the result has the value of expr under every environment (D-simp) and has no ComplexInfinity (so it can be printed)."""

    def __init__(self, module="formak.python"):
        self.key = f"{module}:_simplify"
        self.prefix = ("C08.py" if module.endswith("python") else "C08.cxxgen") + "._simplify"

    def setup(self, I):
        P = I.path
        P.ghost["site"] = self.prefix
        install_sympy_models(I, None)
        e = z3.Const("given_expr", Expr)
        P.facts.append(finite_f(e))
        x, en = z3.Const("sx", Expr), z3.Const("sen", Env)
        P.facts.append(z3.ForAll([x, en], ev_f(simp_f(x), en) == ev_f(x, en), patterns=[ev_f(simp_f(x), en)]))  # D-simp
        return Call([ExprV(e)], {}, e=e)

    def post(self, I, call, outcome):
        P, pre = I.path, self.prefix
        if outcome[0] == "raise":
            P.oblige(f"{pre}.no_exception", z3.BoolVal(False), note=f"raises {outcome[1]}")
            return
        r = outcome[1]
        ok = isinstance(r, ExprV)
        P.oblige(f"{pre}.returns_expression", z3.BoolVal(ok))
        if ok:
            en = z3.Const("any_env", Env)
            P.oblige(f"{pre}.value_preserving", ev_f(r.z, en) == ev_f(call.e, en), theory="euf")
            P.oblige(f"{pre}.result_has_no_complex_infinity", finite_f(r.z), theory="euf")

    def apply(self, I, args, kwargs):
        e = args[0]
        if not isinstance(e, ExprV):
            raise Unsupported("_simplify of a non-expression")
        I.path.oblige(f"{I.path.ghost.get('site', '_simplify')}.pre._simplify.expression_has_no_complex_infinity", finite_f(e.z), theory="euf")
        r = simp_f(e.z)  # "the library's simplification step": value-preserving (D-simp axiom on simp_f) and printable
        I.path.facts.append(finite_f(r))
        return ExprV(r)


def install_sympy_models(I, W):
    """D-cse / D-simp / D-lam structural models for the verification of _compile."""
    M = I.models
    from pvc.models import TypeV as _TypeV

    M.froms[("sympy", "zoo")] = _TypeV("zoo", lambda I2, v: False)

    def expr_getattr(I2, obj, name):
        if isinstance(obj, ExprV) and name == "has":

            def m_has(I3, a, kw):
                if len(a) == 1 and isinstance(a[0], _TypeV) and a[0].name == "zoo":
                    from pvc.sym import SBool

                    return SBool(z3.Not(finite_f(obj.z)))
                raise Unsupported("Expr.has of something else than zoo")

            return Builtin("Expr.has", m_has)
        return NotImplemented

    prev = getattr(M, "opaque_getattr_hook", None)

    def hook(I2, obj, name):
        r = expr_getattr(I2, obj, name)
        if r is NotImplemented and prev is not None:
            return prev(I2, obj, name)
        return r

    M.opaque_getattr_hook = hook

    def m_cse(I2, args, kw):
        body = args[0]
        if body is not W.exprs:
            raise Unsupported("cse on something else than the block's statements")
        # premise of D-cse: the temporaries handed to cse are plain, assumption-free symbols named _t<i>
        # (sympy rewrites sign-sensitive functions of symbols that carry assumptions such as positive=True)
        extra = sorted(set(kw) - {"symbols"})
        I2.path.oblige(f"{I2.path.ghost.get('site', 'cse')}.dependency_call_shape.cse_default_options", z3.BoolVal(len(args) == 1 and not extra), note=f"cse called with extra arguments {extra}: outside the assumed contract D-cse")
        tmpl = kw.get("symbols")
        if isinstance(tmpl, GenV):
            tmpl = tmpl._seq
        ok = isinstance(tmpl, PlainTemporaries)
        site = I2.path.ghost.get('site', 'cse')
        I2.path.oblige(f"{site}.cse_temporaries_are_plain_symbols", z3.BoolVal(ok), note="cse(symbols=...) must be (Symbol(f'_t{i}') for i in count() [if ... not in <names in use>]) without assumptions")
        # premise of D-cse that sympy does NOT provide by itself: a temporary is never one of the block's own names (sympy only
        # skips symbols occurring in the expressions; an argument / target that does not occur in them would be shadowed)
        check = I2.path.ghost.get("temporaries_must_avoid")
        if ok and check is not None:
            check(I2, site, tmpl)
        repl = SSeq(wrap(W.p), lambda i: (SymV(W.t_f(i)), ExprV(W.rhs_f(i))), "cse_replacements")
        repl.pvc_type = "list"
        red = SSeq(SInt(W.q), lambda j: ExprV(W.red_f(j)), "cse_reduced")
        red.pvc_type = "list"
        return (repl, red)

    def m_simplify(I2, args, kw):
        e = args[0]
        if not isinstance(e, ExprV):
            raise Unsupported("simplify of a non-expression")
        # D-simp (value preservation) is assumed for the DEFAULT call only: options such as inverse=True / force-style flags
        # are documented by sympy as not value-preserving
        I2.path.oblige(f"{I2.path.ghost.get('site', 'simplify')}.dependency_call_shape.simplify_default_options", z3.BoolVal(len(args) == 1 and not kw), note=f"simplify called with extra arguments {sorted(kw)}: outside the assumed contract D-simp")
        return ExprV(simp_f(e.z))

    def m_lambdify(I2, args, kw):
        params, e = args[0], args[1]
        if kw.get("cse", False) is not False:
            raise Unsupported("lambdify(cse=True)")
        ps = as_seq2(params) if not isinstance(params, SSeq) else params
        if not isinstance(e, ExprV):
            raise Unsupported("lambdify of a non-expression")
        # D-lam is assumed for the modules the block was CONFIGURED with (Config.python_modules may name the user's own functions or
        # override known ones): every expression of the block, temporaries included, is compiled against that very object
        mods = kw.get("modules")
        I2.path.oblige(f"{I2.path.ghost.get('site', 'lambdify')}.dependency_call_shape.compiled_against_the_configured_modules", z3.BoolVal(isinstance(mods, SObj) and mods.cls == "PythonModules"), note="lambdify called with modules other than Config.python_modules")
        # premise of D-lam: the expression can be printed (no ComplexInfinity)
        I2.path.oblige(f"{I2.path.ghost.get('site', 'lambdify')}.compiled_expression_has_no_complex_infinity", finite_f(e.z), theory="euf")
        return LamV(ps, e.z)

    M.froms[("sympy", "cse")] = Builtin("sympy.cse", m_cse)
    M.froms[("sympy", "simplify")] = Builtin("sympy.simplify", m_simplify)
    M.froms[("sympy.utilities.lambdify", "lambdify")] = Builtin("lambdify", m_lambdify)
    M.froms[("itertools", "count")] = Builtin("count", lambda I2, a, k: CountV())

    from pvc.models import TypeV

    class SymbolType(TypeV):
        def pvc_call(self, I2, args, kw):
            return SymbolCall(args, kw)

    M.froms[("sympy", "Symbol")] = SymbolType("Symbol", lambda I2, v: isinstance(v, SymV))


class CountV:
    """itertools.count(): only as the source of the temporaries generator."""

    def pvc_comprehension(self, I, gen, elt_thunk):
        import ast as _ast

        idx = SInt(I.path.fresh_int("tmp_i"))
        from pvc.interp import Frame

        fr = Frame(None, {}, I.frame)
        fr.is_comp = True
        fr.module = None
        I.frames.append(fr)
        try:
            I.assign(gen.target, idx)
            v = elt_thunk()
        finally:
            I.frames.pop()
        plain = isinstance(v, SymbolCall) and not v.kw and len(v.args) == 1 and getattr(v.args[0], "parts", None) is not None and tuple(p for p in v.args[0].parts if isinstance(p, str)) == ("_t",) and any(p is idx for p in v.args[0].parts)
        if not plain:
            return OtherTemporaries()
        if not gen.ifs:
            return PlainTemporaries()
        # one filter of the form  `<text built from the same index> not in <names already in use>`: it only SKIPS names
        if len(gen.ifs) == 1 and isinstance(gen.ifs[0], _ast.Compare) and len(gen.ifs[0].ops) == 1 and isinstance(gen.ifs[0].ops[0], _ast.NotIn):
            fr2 = Frame(None, {}, I.frame)
            fr2.is_comp = True
            fr2.module = None
            I.frames.append(fr2)
            try:
                I.assign(gen.target, idx)
                probe = I.eval(gen.ifs[0].left)
            finally:
                I.frames.pop()
            avoid = I.eval(gen.ifs[0].comparators[0])
            pparts = getattr(probe, "parts", None)
            if pparts is not None and any(p is idx for p in pparts):
                prefix_text = "".join(p for p in pparts if isinstance(p, str))
                return PlainTemporaries(avoid=avoid, avoid_prefix=prefix_text[: -len("_t")] if prefix_text.endswith("_t") else None)
        return OtherTemporaries()


class SymbolCall:
    def __init__(self, args, kw):
        self.args, self.kw = list(args), dict(kw)

    def pvc_subst(self, pairs):
        from pvc.sym import subst

        return SymbolCall(subst(self.args, pairs), {k: subst(v, pairs) for k, v in self.kw.items()})


class PlainTemporaries:
    """(Symbol(f"_t{i}") for i in count() [if f"<prefix>_t{i}" not in <avoid>]): plain, assumption-free symbols _t0, _t1, ...;
    `avoid` is the collection of names the generator skips (None: nothing is skipped)."""

    def __init__(self, avoid=None, avoid_prefix=None):
        self.avoid, self.avoid_prefix = avoid, avoid_prefix


class OtherTemporaries:
    pass


class ModelInit(Contract):
    """python.Model.__init__(symbolic_model, config, calibration_map=None)                       [C01.1]
    ensures  raises ModelConstructionError <=> c > 0 and (calibration_map is empty or len(calibration_map) != c);
             raises KeyError <=> otherwise some calibration symbol has no entry in calibration_map;
             else: arglist_state/_calibration/_control are the declared symbols sorted by name; arglist = [dt] + AS + ACal + AU;
             State/Control/Calibration are vector classes over those lists; calibration_vector is (c,1) with entry i = calibration_map[ACal[i]];
             _impl is a block over arglist whose statement i is state_model[AS[i]]."""

    key = "formak.python:Model.__init__"
    prefix = "C01.py.Model.__init__"
    inline = ("formak.common:named_vector", "formak.common:named_covariance")

    def __init__(self, container="set"):
        self.container = container
        self.prefix = f"C01.py.Model.__init__[{container}]"

    def setup(self, I):
        from pvc.symtheory import SDictV, real_wrap

        P = I.path
        P.ghost["site"] = self.prefix
        ui = UiModelShape(I, self.container)
        cm = SDictV(P, "calibration_map", Sym, z3.RealSort(), SymV, real_wrap)
        mod = I.load_module("formak.python")
        cls = I.module_attr(mod, "Model")
        obj = SObj(cls, {}, "model")
        return Call([obj, ui.obj, SObj("Config", {"common_subexpression_elimination": True}, "config"), cm], {}, obj=obj, ui=ui, cm=cm)

    def post(self, I, call, outcome):
        from pvc.symtheory import card_f, srt_f

        P = I.path
        pre, ui, cm, o = self.prefix, call.ui, call.cm, call.obj
        c, n, k = card_f(ui.Cal.term), card_f(ui.S.term), card_f(ui.U.term)
        x = z3.Const("x_any", Sym)
        bad_arity = z3.And(c > 0, z3.Or(cm.n == 0, cm.n != c))
        missing = z3.Exists([x], z3.And(ui.Cal.has(x), z3.Not(cm.has(x))))
        if outcome[0] == "raise":
            e = outcome[1]
            if e == "ModelConstructionError":
                P.oblige(f"{pre}.calibration_arity.raises_only_if", bad_arity)
            elif e == "KeyError":
                P.oblige(f"{pre}.calibration_missing.raises_only_if", z3.And(z3.Not(bad_arity), missing))
            else:
                P.oblige(f"{pre}.no_other_exception", z3.BoolVal(False), note=f"raises {e}")
            return
        P.oblige(f"{pre}.calibration_arity.raises_if", z3.Not(bad_arity))
        P.oblige(f"{pre}.calibration_missing.raises_if", z3.Not(missing))
        f = o.fields
        i = z3.Int("i_any")
        for fld, st in (("arglist_state", ui.S), ("arglist_calibration", ui.Cal), ("arglist_control", ui.U)):
            a = f.get(fld)
            ok = isinstance(a, SSeq)
            P.oblige(f"{pre}.{fld}_sorted_by_name", z3.And(a.len_z() == card_f(st.term), z3.Implies(z3.And(i >= 0, i < card_f(st.term)), a.at(i).z == srt_f(st.term, i))) if ok else z3.BoolVal(False))
        al = f.get("arglist")
        okal = isinstance(al, SSeq)
        P.oblige(f"{pre}.arglist_is_list", z3.BoolVal(okal))
        if okal:
            want = z3.If(i == 0, ui.dt.z, z3.If(i < 1 + n, srt_f(ui.S.term, i - 1), z3.If(i < 1 + n + c, srt_f(ui.Cal.term, i - 1 - n), srt_f(ui.U.term, i - 1 - n - c))))
            P.oblige(f"{pre}.arglist_layout", z3.And(al.len_z() == 1 + n + c + k, z3.Implies(z3.And(i >= 0, i < 1 + n + c + k), al.at(i).z == want)))
        for fld, src in (("State", "arglist_state"), ("Control", "arglist_control"), ("Calibration", "arglist_calibration")):
            cl = f.get(fld)
            try:
                which, _, arglist = common.class_closure_vars(cl)
            except Exception:
                which, arglist = None, None
            P.oblige(f"{pre}.{fld}_is_vector_over_{src}", z3.BoolVal(which == "vector" and arglist is f.get(src)))
        for fld, want in (("state_size", n), ("calibration_size", c), ("control_size", k)):
            P.oblige(f"{pre}.{fld}", to_int(f.get(fld)) == want if f.get(fld) is not None else z3.BoolVal(False))
        cv = f.get("calibration_vector")
        okc = isinstance(cv, SMat)
        P.oblige(f"{pre}.calibration_vector_is_array", z3.BoolVal(okc))
        if okc:
            P.oblige(f"{pre}.calibration_vector_by_name", z3.And(to_int(cv.rows()) == c, to_int(cv.cols()) == 1, z3.Implies(z3.And(i >= 0, i < c), cv.el(i, 0) == cm.get(srt_f(ui.Cal.term, i)))))
        blk = f.get("_impl")
        okb = isinstance(blk, SObj) and isinstance(blk.fields.get("_exprs"), SSeq)
        P.oblige(f"{pre}.impl_block", z3.BoolVal(okb))
        if okb:
            ex = blk.fields["_exprs"]
            P.oblige(f"{pre}.impl_statements_by_state_name", z3.And(ex.len_z() == n, z3.Implies(z3.And(i >= 0, i < n), ex.at(i).z == ui.sm.get(srt_f(ui.S.term, i)))))
            P.oblige(f"{pre}.impl_arglist", z3.BoolVal(blk.fields.get("_arglist") is al))


def compile_callees(module="formak.python"):
    """callee contracts for BasicBlock._compile / cpp.BasicBlock.compile"""
    out = {f"{module}:_simplify": GuardedSimplify(module)}
    if module == "formak.cpp":
        from contracts.cppgen import CCode

        out[CCode.key] = CCode()
    return out


def has_guarded_simplify(repo, module="formak.python"):
    import ast as _ast
    import os as _os

    path = _os.path.join(repo, "py", *module.split(".")) + ".py"
    tree = _ast.parse(open(path).read())
    return any(isinstance(nd, _ast.FunctionDef) and nd.name == "_simplify" for nd in tree.body)


def model_init_callees():
    c = dict(common.COMMON_APPLY)
    c[BasicBlockInit.key] = BasicBlockInit()
    return c
