"""Which properties are claimed, at which level. MANIFEST.json is generated from this."""
NOT_YET = "check not built yet in this round (machinery under construction; see DESIGN.md section 8) - not a statement that the technique cannot apply"
NOTES = "Contract-based deductive verification with a self-built VC generator (pvc); see DESIGN.md."
TB = "pvc (own VC generator), z3 5.1 with cvc5 1.0 / z3 4.8 / ring-normaliser fallbacks, python ast, clang 14 AST dump; dependency contracts listed in the evidence"
CHECKS = {
    "C10": {
        "level": "proof",
        "level_text": "VCs generated from the current source of ManagedFilter._process_model (python) are discharged for all times and all max_dt_sec > 0 and any iteration count (inductive invariant on a ghost monitor of the wrapped filter's process_model calls); a refuted VC is replayed natively with a recording filter.",
        "level_note": "floats as reals (A-REAL); wrapped filter opaque and pure; floor axiomatised; " + TB,
        "technique": "contract-based deductive verification: own VC generator over the real AST + z3",
        "design_ref": "DESIGN.md section 4 / C10",
    },
    "C11": {
        "level": "proof",
        "level_text": "ManagedFilter.tick is verified against a recursive fold spec for reading lists of any length and any timestamps (loop invariant held = fold(readings[:k])), using _process_model's contract at call sites; includes the control-required refusal and the nothing-held frame for reading-less ticks.",
        "level_note": "wrapped filter's process_model/sensor_model/make_reading opaque pure functions; floats as reals; " + TB,
        "technique": "contract-based deductive verification: own VC generator over the real AST + z3",
        "design_ref": "DESIGN.md section 4 / C11",
    },
    "C01": {
        "level": "proof",
        "level_text": "Model.__init__, BasicBlock._compile, BasicBlock.execute and Model.model are verified with symbolic symbol sets, expressions and CSE program (any sizes, both CSE settings): layout, per-entry parameter scopes, the temporaries-threading loop invariant and by-name storage give value(state s) = ev(state_model[s], named inputs), the same term with CSE on and off.",
        "level_note": "sympy cse/simplify/lambdify are assumed contracts (D-cse, D-simp, D-lam) discharged per program on a seeded corpus (bounded over programs, not counted as proved); floats as reals; " + TB,
        "technique": "contract-based deductive verification: own VC generator over the real AST (invariant + map rules) + z3",
        "design_ref": "DESIGN.md section 4 / C01",
    },
    "C08": {
        "level": "proof",
        "level_text": "Python: _compile/execute verified against one spec term for both CSE settings (on/off equality is a corollary). C++: cpp.BasicBlock.compile verified to emit every temporary exactly once, in cse order, before the targets in statement order, for any program.",
        "level_note": "D-cse/D-simp/D-ccode assumed (per-program checks bounded over the corpus); floats as reals; " + TB,
        "technique": "contract-based deductive verification: own VC generator over the real AST + z3",
        "design_ref": "DESIGN.md section 4 / C08",
    },
    "C03": {
        "level": "proof",
        "level_text": "process/control/sensor_jacobian are verified for symbolic numbers of states, calibrations, controls and readings: every cell of the result equals, by name, ev(diff(output r, variable s)) under the environment of the named inputs; the flattened-program layout they rely on is proved to be established by _construct_process (C04) / stated as representation invariant for sensors.",
        "level_note": "D-diff (sympy jacobian/iteration order), D-lam (execute evaluates under its positional environment), numpy model; " + TB,
        "technique": "contract-based deductive verification: own VC generator over the real AST (loop summarisation to closed-form cells) + z3",
        "design_ref": "DESIGN.md section 4 / C03",
    },
    "C04": {
        "level": "proof",
        "level_text": "process_model is verified against x' = f(x,u) by name and P' = G P G^T + V M V^T as a term over uninterpreted matrix algebra, with a frame on all inputs; _construct_process's noise assembly (symmetric double-store loop) is proved to give diag(noise by sorted control) for any number of controls, plus the Jacobian program layout.",
        "level_note": "matrix algebra uninterpreted (matmul, inv) with shape laws; exact-arithmetic PSD facts assumed from Lean/Mathlib lemmas so that the internal gates pass; floats as reals; " + TB,
        "technique": "contract-based deductive verification: own VC generator over the real AST + z3 (EUF for matrix algebra)",
        "design_ref": "DESIGN.md section 4 / C04",
    },
    "C05": {
        "level": "proof",
        "level_text": "sensor_model, SensorModel.model and SensorModel.__init__ are verified for symbolic sizes: recorded innovation and S, gain, posterior state and covariance equal the textbook terms; S additionally element-wise (broadcasting visible); the noise container must be an m x m covariance class over the sorted reading names.",
        "level_note": "matrix algebra uninterpreted; S invertible assumed; symmetry / P+ <= P are mathematics (Schur complement), not a discharged obligation; " + TB,
        "technique": "contract-based deductive verification: own VC generator over the real AST + z3 (EUF for matrix algebra)",
        "design_ref": "DESIGN.md section 4 / C05",
    },
    "C06": {
        "level": "proof",
        "level_text": "remove_innovation and sensor_model's early return are proved equal to the single spec term 'enabled and nu^T S^-1 nu > k*sqrt(2m)+m' (strict) for symbolic m, k; a discard returns the same estimate objects after recording the innovation; disabled never discards. (C++ helper/template: added when the clang front end is built.)",
        "level_note": "NIS compared in real arithmetic (ulp-level differences between numpy and Eigen summation order assumed away); sqrt axiomatised; " + TB,
        "technique": "contract-based deductive verification: own VC generator over the real AST + z3",
        "design_ref": "DESIGN.md section 4 / C06",
    },
    "C09": {
        "level": "other",
        "level_text": "Deduction decides the gate (assert_valid_covariance accepts every symmetric matrix with lam_min >= -64 n u ||C|| and rejects clearly invalid ones, all n and spectra) and, in the thorough tier, the exact-arithmetic PSD preservation lemmas (Lean/Mathlib). The floating-point behaviour along histories is outside contract-based deduction and is covered only by a bounded native stand-in (labelled, not counted as proved).",
        "level_note": "D-eig (numpy eig of a symmetric matrix), acceptance constants chosen in contracts/gate.py; float histories bounded: mass/z/v/a model x 2-4 dt x 300-2000 steps + generic models; " + TB,
        "technique": "contract on the validity gate discharged by z3; Lean 4 + Mathlib lemmas; bounded native float histories as stand-in",
        "design_ref": "DESIGN.md section 4 / C09",
    },
    "C13": {
        "level": "proof",
        "level_text": "Keyword constructors of named vectors/covariances, from_data, from_dict and make_reading are verified for argument lists and keyword dicts of symbolic size: unknown names refused, wrong shapes refused, every value in the slot of its own name, defaults elsewhere; renaming invariance is an SMT lemma over those clauses.",
        "level_note": "named outputs of model/filter operations are the by-name postconditions of C01/C03/C04/C05; C++ accessors by C02; thorough tier adds a metamorphic native renaming run (bounded); " + TB,
        "technique": "contract-based deductive verification: own VC generator over the real AST (early-exit and map rules) + z3 with quantified dict axioms",
        "design_ref": "DESIGN.md section 4 / C13",
    },
    "C14": {
        "level": "proof",
        "level_text": "Fault predicates over a fully symbolic definition; ui_model.Model.__init__, model_validation, python.Model.__init__, _construct_process, cpp.ExtendedKalmanFilter.__init__ proved to raise exactly under their fault conditions, and the four compile entry points proved (with those callee contracts) to raise iff the definition is invalid - all faults, positions and combinations at once.",
        "level_note": "finite-set cardinality axiom; negative noise through the covariance gate (relative tolerance band); python _construct_sensors' refusing direction by native fault injection only (bounded); " + TB,
        "technique": "contract-based deductive verification: own VC generator over the real AST (early-exit rule over symbolic dicts/sets) + z3 quantified set theory; native fault injection as replay",
        "design_ref": "DESIGN.md section 4 / C14",
    },
    "C17": {
        "level": "proof",
        "level_text": "Adapter parameter plumbing verified per function: the six parameters stored/returned; set_params executed for every key sequence of length <= 2 over parameters, Config fields and an unknown name; flatten / inverse flatten / nearest_positive_definite for any sizes (two generic sensors); fit against the assumed scipy contract: objective restores parameters after every call, only MinimizationFailure escapes, only the noise parameters are rebound.",
        "level_note": "D-opt (scipy minimize), D-skl (clone) assumed; finiteness of the optimiser's result is scipy's; two generic sensors by exact unrolling; native fits bounded; " + TB,
        "technique": "contract-based deductive verification: own VC generator / interpreter over the real AST + z3; exhaustive small-scope execution for set_params",
        "design_ref": "DESIGN.md section 4 / C17",
    },
    "C18": {
        "level": "proof",
        "level_text": "The workflow graph is extracted from the source and the real search / constructor / transition code is executed by exact unrolling for every (start, target) pair, non-id targets and every branching transition sequence of length 3 (complete enumeration), against an independent BFS and the visited-id sequence; _fit_model_impl verified for a symbolic number of samples (refusal below 3 before any estimator; grid and adapter handed to GridSearchCV unchanged).",
        "level_note": "D-skl: GridSearchCV picks a point of the supplied grid and refits a clone with it (assumed; native 2x2 grid in the thorough tier, bounded); C17 carries the selected parameters into the exported config; " + TB,
        "technique": "exhaustive symbolic execution of the real code on the extracted finite graph (pvc interpreter) + contract on _fit_model_impl discharged by z3",
        "design_ref": "DESIGN.md section 4 / C18",
    },
    "C19": {
        "level": "proof",
        "level_text": "Every state_model expression of the real strapdown_imu module (obtained by importing it = symbolic execution of straight-line sympy code) is proved equal to a hand-written rigid-body spec for all real inputs with |q|^2 != 0 (z3; ring normal form for the degree-6 position identities); declared symbol sets checked exactly.",
        "level_note": "real arithmetic; sympy -> z3 translation trusted; compiled-model link is C01's contract plus a bounded native sample (not counted as proved); " + TB,
        "technique": "contract-based deductive verification: postconditions on the module's symbolic outputs discharged by z3 / ring normalisation",
        "design_ref": "DESIGN.md section 4 / C19",
    },
}
