"""Which properties are claimed, at which level. MANIFEST.json is generated from this."""
NOT_YET = "check not built yet in this round (machinery under construction; see DESIGN.md section 8) - not a statement that the technique cannot apply"
NOTES = "Contract-based deductive verification with a self-built VC generator (pvc); see DESIGN.md."
CHECKS = {}
