"""Which properties are claimed, at which level. MANIFEST.json is generated from this."""
NOT_YET = "check not built yet in this round (machinery under construction; see DESIGN.md section 8) - not a statement that the technique cannot apply"
NOTES = "Contract-based deductive verification with a self-built VC generator (pvc); see DESIGN.md."
TB = "pvc (own VC generator), z3 5.1 with cvc5 1.0 / z3 4.8 / ring-normaliser fallbacks, python ast, clang 14 AST dump; dependency contracts listed in the evidence"
CHECKS = {
    "C10": {
        "level": "proof",
        "level_text": "VCs generated from the current source of ManagedFilter._process_model (python) are discharged for all times and all max_dt_sec > 0 and any iteration count (inductive invariant on a ghost monitor of the wrapped filter's process_model calls); a refuted VC is replayed natively with a recording filter.",
        "level_note": "floats as reals (A-REAL); wrapped filter opaque and pure; floor axiomatised; " + TB,
        "technique": "contract-based deductive verification: own VC generator over the real AST + z3",
        "design_ref": "DESIGN.md section 4 / C10",
    },
    "C11": {
        "level": "proof",
        "level_text": "ManagedFilter.tick is verified against a recursive fold spec for reading lists of any length and any timestamps (loop invariant held = fold(readings[:k])), using _process_model's contract at call sites; includes the control-required refusal and the nothing-held frame for reading-less ticks.",
        "level_note": "wrapped filter's process_model/sensor_model/make_reading opaque pure functions; floats as reals; " + TB,
        "technique": "contract-based deductive verification: own VC generator over the real AST + z3",
        "design_ref": "DESIGN.md section 4 / C11",
    },
    "C19": {
        "level": "proof",
        "level_text": "Every state_model expression of the real strapdown_imu module (obtained by importing it = symbolic execution of straight-line sympy code) is proved equal to a hand-written rigid-body spec for all real inputs with |q|^2 != 0 (z3; ring normal form for the degree-6 position identities); declared symbol sets checked exactly.",
        "level_note": "real arithmetic; sympy -> z3 translation trusted; compiled-model link is C01's contract plus a bounded native sample (not counted as proved); " + TB,
        "technique": "contract-based deductive verification: postconditions on the module's symbolic outputs discharged by z3 / ring normalisation",
        "design_ref": "DESIGN.md section 4 / C19",
    },
}
