"""Contracts on py/formak/runtime.py (ManagedFilter) - shared by C10 and C11.

Spec vocabulary (DESIGN.md appendix B):
  the wrapped filter is opaque and pure:  PM(dt, st, cov, ctl) -> (st', cov'),
  SM(key, reading, st, cov) -> (st', cov'), MR(key, kwargs) -> reading.
  PMpow(k, dt, st, cov, ctl): k-fold application of PM with the same dt.
  MOVE(t0, t1, max, st, cov, ctl): the canonical move (n full steps of signed max, then the
  remainder if it is >= 1e-9 in modulus), defined by its unfolding below.
"""
from __future__ import annotations

import z3

from pvc.contract import Call, Contract, LoopInv
from pvc.interp import NTInst, PyDict, PyList
from pvc.models import floor_f
from pvc.sym import PyRaise, SInt, SNum, SObj, SOpaque, SReal, SSeq, Unsupported, to_int, to_real, wrap

R = z3.RealSort()
St = z3.DeclareSort("St")
Cov = z3.DeclareSort("Cov")
Ctl = z3.DeclareSort("Ctl")
Key = z3.DeclareSort("SensorKey")
Rd = z3.DeclareSort("ReadingData")
Kw = z3.DeclareSort("ReadingKwargs")

pm_s = z3.Function("PM_state", R, St, Cov, Ctl, St)
pm_c = z3.Function("PM_cov", R, St, Cov, Ctl, Cov)
pow_s = z3.Function("PMpow_state", z3.IntSort(), R, St, Cov, Ctl, St)
pow_c = z3.Function("PMpow_cov", z3.IntSort(), R, St, Cov, Ctl, Cov)
sm_s = z3.Function("SM_state", Key, Rd, St, Cov, St)
sm_c = z3.Function("SM_cov", Key, Rd, St, Cov, Cov)
mr = z3.Function("MR", Key, Kw, Rd)
ctl_none = z3.Const("ctl_None", Ctl)
EPS = z3.RealVal("1/1000000000")


def ctl_z(control):
    if control is None:
        return ctl_none
    if isinstance(control, SOpaque):
        return control.z
    raise Unsupported(f"control value {control!r}")


def pow_unfold(k, dt, s0, c0, ctl):
    """Defining equations of PMpow instantiated at k (k >= 0): sound as a recursive definition."""
    kz = to_int(k)
    return z3.And(
        pow_s(0, dt, s0, c0, ctl) == s0,
        pow_c(0, dt, s0, c0, ctl) == c0,
        pow_s(kz + 1, dt, s0, c0, ctl) == pm_s(dt, pow_s(kz, dt, s0, c0, ctl), pow_c(kz, dt, s0, c0, ctl), ctl),
        pow_c(kz + 1, dt, s0, c0, ctl) == pm_c(dt, pow_s(kz, dt, s0, c0, ctl), pow_c(kz, dt, s0, c0, ctl), ctl),
    )


def canonical_move(t0, t1, mx, s0, c0, ctl):
    """Spec of a move from t0 to t1 (returns z3 terms (st, cov, n, signed_step, remainder))."""
    d = t1 - t0
    step = z3.If(t0 > t1, -mx, mx)
    n = floor_f(d / step)
    rem = d - z3.ToReal(n) * step
    sn = pow_s(n, step, s0, c0, ctl)
    cn = pow_c(n, step, s0, c0, ctl)
    take = z3.If(rem >= 0, rem, -rem) >= EPS
    st = z3.If(take, pm_s(rem, sn, cn, ctl), sn)
    cv = z3.If(take, pm_c(rem, sn, cn, ctl), cn)
    floor_ax = z3.And(z3.ToReal(n) <= d / step, d / step < z3.ToReal(n) + 1)
    return st, cv, n, step, rem, floor_ax


# ------------------------------------------------------------------------------
# ghost monitor of the calls received by the wrapped filter


class Trace:
    """Ghost state: what the wrapped filter has been asked to do so far."""

    def __init__(self, count, total, ok, events=None):
        self.count = count  # z3 Int: number of process_model calls
        self.total = total  # z3 Real: sum of dt
        self.ok = ok  # z3 Bool: every dt so far satisfied the monitor
        self.events = events or []  # concrete list of (kind, ...) when finite; informational


def fresh_trace(I, tag):
    P = I.path
    return Trace(P.fresh_int(f"cnt_{tag}"), P.fresh_real(f"sum_{tag}"), P.fresh_bool(f"ok_{tag}"))


class ImplProcessModel(Contract):
    """ASSUMED: the wrapped filter's process_model is a pure function PM of its arguments."""

    key = "Impl.process_model"
    kind = "assumed"

    def apply(self, I, args, kwargs):
        impl, dt, state, cov = args[0], args[1], args[2], args[3]
        control = args[4] if len(args) > 4 else kwargs.get("control")
        dtz = to_real(dt)
        tr = I.path.ghost.get("trace")
        if tr is not None:
            mon = I.path.ghost["monitor"]
            I.path.ghost["trace"] = Trace(tr.count + 1, tr.total + dtz, z3.And(tr.ok, mon(dtz)), tr.events + [("pm", dtz)])
        c = ctl_z(control)
        return (SOpaque(pm_s(dtz, state.z, cov.z, c), "St"), SOpaque(pm_c(dtz, state.z, cov.z, c), "Cov"))


def refuses_key(key_z):
    """The wrapped filter refuses readings of some sensors (an unknown key: KeyError) - which ones is a property of the key alone."""
    return z3.Function("impl_refuses_sensor", key_z.sort(), z3.BoolSort())(key_z)


def note_time(I, term, t):
    """ghost: the time the estimate denoted by `term` is an estimate AT (bookkeeping for the exceptional-exit clause of tick)."""
    I.path.ghost.setdefault("time_of", {})[term.get_id()] = t


def time_of(I, term):
    return I.path.ghost.get("time_of", {}).get(term.get_id())


class ImplSensorModel(Contract):
    """ASSUMED: the wrapped filter's sensor_model is a pure function SM of its arguments, or refuses the sensor key (KeyError)."""

    key = "Impl.sensor_model"
    kind = "assumed"

    def apply(self, I, args, kwargs):
        st, cov, key, rd = kwargs["state"], kwargs["covariance"], kwargs["sensor_key"], kwargs["sensor_reading"]
        if I.path.ghost.get("refusals") and I.path.branch(refuses_key(key.z)):
            I.path.ghost["refused"] = True
            raise PyRaise("KeyError", "the wrapped filter has no such sensor")
        tr = I.path.ghost.get("calls")
        if tr is not None:
            tr.append(("sm", key.z, rd.z, st.z, cov.z))
        out_s, out_c = sm_s(key.z, rd.z, st.z, cov.z), sm_c(key.z, rd.z, st.z, cov.z)
        for a, b in ((st.z, out_s), (cov.z, out_c)):
            if time_of(I, a) is not None:
                note_time(I, b, time_of(I, a))  # an update does not move the estimate in time
        return (SOpaque(out_s, "St"), SOpaque(out_c, "Cov"))


class ImplMakeReading(Contract):
    """ASSUMED: make_reading(key, **kwargs) is a pure function MR."""

    key = "Impl.make_reading"
    kind = "assumed"

    def apply(self, I, args, kwargs):
        key = args[1]
        kw = kwargs.get("**", [None])[0] if "**" in kwargs else None
        if kw is None:
            raise Unsupported("make_reading without symbolic kwargs")
        if I.path.ghost.get("refusals") and I.path.branch(refuses_key(key.z)):
            I.path.ghost["refused"] = True
            raise PyRaise("KeyError", "the wrapped filter has no such sensor")
        return SOpaque(mr(key.z, kw.z), "ReadingData")


IMPL_CONTRACTS = {c.key: c for c in (ImplProcessModel(), ImplSensorModel(), ImplMakeReading())}


def make_filter(I, tag="mf", control_size=None):
    """Symbolic ManagedFilter instance wrapping an opaque filter."""
    P = I.path
    mod = I.load_module("formak.runtime")
    cls = I.module_attr(mod, "ManagedFilter")
    max_dt = P.fresh_real("max_dt_sec")
    config = SObj("Config", {"max_dt_sec": SNum(max_dt)}, "config")
    cs = control_size if control_size is not None else SInt(P.fresh_int("control_size"))
    impl = SObj("Impl", {"config": config, "control_size": cs}, "impl")
    obj = SObj(
        cls,
        {
            "_impl": impl,
            "current_time": SNum(P.fresh_real("t0")),
            "state": SOpaque(P.fresh_const("st0", St), "St"),
            "covariance": SOpaque(P.fresh_const("cov0", Cov), "Cov"),
            "calibration_map": None,
        },
        tag,
    )
    return obj, max_dt


class KwargsV:
    """Opaque **kwargs of a StampedReading (only forwarded to make_reading)."""

    pvc_type = "dict"

    def __init__(self, z):
        self.z = z

    def pvc_subst(self, pairs):
        return KwargsV(z3.substitute(self.z, *pairs))

    def pvc_merge(self, c, other):
        if isinstance(other, KwargsV):
            return KwargsV(z3.If(c, self.z, other.z))
        return NotImplemented


# ------------------------------------------------------------------------------
# ManagedFilter._process_model  (C10, python)


class ProcessModelSteps(Contract):
    """requires max_dt_sec > 0.
    ensures  (property C10) every process_model call made has dt pointing from current_time to
             output_time with |dt| <= max_dt_sec; the dts sum to output_time - current_time within 1e-9;
             no call when the times coincide; returned time is output_time;
             (helper) the returned estimate is the canonical MOVE of the held estimate;
    frame    self.* unchanged."""

    assignable = ()  # frame: attributes of self the method may write

    key = "formak.runtime:ManagedFilter._process_model"
    prefix = "C10.py._process_model"

    def __init__(self):
        def inv(I, k, env, call):
            kz = to_int(k)
            loc = I.frame.locals
            max_dt = to_real(loc["max_dt"])
            tr = I.path.ghost["trace"]
            tr0 = call.trace0
            mon = I.path.ghost["monitor"]
            s0, c0, ctl = call.s0, call.c0, call.ctl
            out = [
                ("count", tr.count == tr0.count + kz),
                ("sum", tr.total == tr0.total + z3.ToReal(kz) * max_dt),
                ("monitor", tr.ok == z3.And(tr0.ok, z3.Or(kz == 0, mon(max_dt)))),
            ]
            st, cv = env["state"], env["covariance"]
            if not (isinstance(st, SOpaque) and isinstance(cv, SOpaque)):
                raise Unsupported("loop-carried state is not an estimate")
            I.path.define(z3.Implies(kz >= 0, pow_unfold(kz, max_dt, s0, c0, ctl)), "PMpow unfolding (recursive spec function)")
            out.append(("chain_state", st.z == pow_s(kz, max_dt, s0, c0, ctl)))
            out.append(("chain_cov", cv.z == pow_c(kz, max_dt, s0, c0, ctl)))
            return out

        def havoc_ghost(I, tag):
            I.path.ghost["trace"] = fresh_trace(I, tag)

        self.loops = {
            0: LoopInv(
                carried={
                    "state": lambda I, tag: SOpaque(I.path.fresh_const(tag, St), "St"),
                    "covariance": lambda I, tag: SOpaque(I.path.fresh_const(tag, Cov), "Cov"),
                },
                inv=inv,
                extra_havoc=havoc_ghost,
                name="loop0",
            )
        }

    def setup(self, I):
        P = I.path
        obj, max_dt = make_filter(I)
        P.assume(max_dt > 0)
        t1 = P.fresh_real("t1")
        ctl = SOpaque(P.fresh_const("ctl", Ctl), "Ctl")
        t0 = obj.fields["current_time"].z
        tr0 = Trace(z3.IntVal(0), z3.RealVal(0), z3.BoolVal(True))
        P.ghost["trace"] = tr0

        def monitor(dt):
            d = t1 - t0
            absdt = z3.If(dt >= 0, dt, -dt)
            return z3.And(z3.Implies(d > 0, dt > 0), z3.Implies(d < 0, dt < 0), absdt <= max_dt)

        P.ghost["monitor"] = monitor
        old = dict(obj.fields)
        return Call([obj, SNum(t1), ctl], {}, obj=obj, old=old, t0=t0, t1=t1, max_dt=max_dt, trace0=tr0, s0=obj.fields["state"].z, c0=obj.fields["covariance"].z, ctl=ctl.z)

    def post(self, I, call, outcome):
        P = I.path
        pre = self.prefix
        if outcome[0] == "raise":
            P.oblige(f"{pre}.no_exception", z3.BoolVal(False), note=f"raises {outcome[1]}")
            return
        rv = outcome[1]
        tr = P.ghost["trace"]
        d = call.t1 - call.t0
        err = tr.total - d
        P.oblige(f"{pre}.direction_and_bound", tr.ok)
        P.oblige(f"{pre}.sum", z3.And(err < EPS, -err < EPS))
        P.oblige(f"{pre}.no_step_when_equal", z3.Implies(d == 0, tr.count == 0))
        ok_shape = isinstance(rv, tuple) and len(rv) == 2 and isinstance(rv[1], tuple) and len(rv[1]) == 2
        P.oblige(f"{pre}.result_shape", z3.BoolVal(ok_shape))
        if ok_shape:
            P.oblige(f"{pre}.result_time", to_real(rv[0]) == call.t1)
            st, cv, n, step, rem, fax = canonical_move(call.t0, call.t1, call.max_dt, call.s0, call.c0, call.ctl)
            est_s, est_c = rv[1]
            if isinstance(est_s, SOpaque) and isinstance(est_c, SOpaque):
                P.oblige(f"{pre}.helper.canonical_state", z3.Implies(fax, est_s.z == st), theory="euf")
                P.oblige(f"{pre}.helper.canonical_cov", z3.Implies(fax, est_c.z == cv), theory="euf")
            else:
                P.oblige(f"{pre}.helper.canonical_state", z3.BoolVal(False))
        for f, v in call.old.items():
            P.oblige(f"{pre}.frame.{f}", z3.BoolVal(call.obj.fields.get(f) is v))

    def apply(self, I, args, kwargs):
        """Caller side (tick): precondition max_dt_sec > 0 is an invariant of the filter object
        (set up by the caller's own setup); result = canonical MOVE; ghost trace advanced abstractly."""
        obj, t1 = args[0], args[1]
        control = args[2] if len(args) > 2 else kwargs.get("control")
        mx = to_real(obj.fields["_impl"].fields["config"].fields["max_dt_sec"])
        I.path.oblige("C11.py.tick.pre._process_model.max_dt_positive", mx > 0)
        t0 = to_real(obj.fields["current_time"])
        s0, c0 = obj.fields["state"].z, obj.fields["covariance"].z
        st, cv, n, step, rem, fax = canonical_move(t0, to_real(t1), mx, s0, c0, ctl_z(control))
        I.path.assume(fax)
        calls = I.path.ghost.get("calls")
        if calls is not None:
            calls.append(("move", t0, to_real(t1), s0, c0, ctl_z(control)))
        NT = I.module_attr(I.load_module("formak.runtime"), "StateAndVariance")
        note_time(I, st, to_real(t1))
        note_time(I, cv, to_real(t1))
        return (t1, NT.make([SOpaque(st, "St"), SOpaque(cv, "Cov")]))


# ------------------------------------------------------------------------------
# ManagedFilter.tick  (C11, python)


class SOptionalData:
    """StampedReading._data: None or reading data, decided by a symbolic flag."""

    def __init__(self, is_none, value):
        self.is_none = is_none  # z3 Bool
        self.value = value  # SOpaque(Rd)

    def pvc_is_none(self, I):
        return wrap(self.is_none)

    @property
    def z(self):
        return self.value.z

    def pvc_subst(self, pairs):
        return SOptionalData(z3.substitute(self.is_none, *pairs), SOpaque(z3.substitute(self.value.z, *pairs), "ReadingData"))


class FoldSpec:
    """Recursive spec `fold(held, readings[:i])` as three functions of i with on-demand unfolding."""

    def __init__(self, P, t0, s0, c0, mx, ctl, ts, key, eff):
        self.ft = z3.Function(P.names.fresh("fold_time"), z3.IntSort(), R)
        self.fs = z3.Function(P.names.fresh("fold_state"), z3.IntSort(), St)
        self.fc = z3.Function(P.names.fresh("fold_cov"), z3.IntSort(), Cov)
        self.t0, self.s0, self.c0, self.mx, self.ctl = t0, s0, c0, mx, ctl
        self.ts, self.key, self.eff = ts, key, eff

    def base(self):
        return z3.And(self.ft(0) == self.t0, self.fs(0) == self.s0, self.fc(0) == self.c0)

    def step(self, i):
        """fold at i+1 from fold at i (i >= 0)."""
        st, cv, n, stp, rem, fax = canonical_move(self.ft(i), self.ts(i), self.mx, self.fs(i), self.fc(i), self.ctl)
        k, e = self.key(i), self.eff(i)
        return fax, z3.And(self.ft(i + 1) == self.ts(i), self.fs(i + 1) == sm_s(k, e, st, cv), self.fc(i + 1) == sm_c(k, e, st, cv))


class TickFold(Contract):
    """requires every reading is a StampedReading; max_dt_sec > 0.
    ensures  raises TypeError (before any filter call) iff control is None and control_size > 0; otherwise
             held' = fold(held, readings)  [for each reading in order: MOVE to its timestamp, SM update, hold at
             that timestamp], result = MOVE(held', output_time) as (state, covariance), and that last move is
             not stored; readings None/[] leave every field untouched.
    frame    only current_time/state/covariance, and only through the fold."""

    assignable = ('current_time', 'state', 'covariance')  # frame: attributes of self the method may write

    key = "formak.runtime:ManagedFilter.tick"
    prefix = "C11.py.tick"

    def __init__(self, control_none=False, readings_mode="seq"):
        self.control_none = control_none
        self.readings_mode = readings_mode  # seq | none
        self.variant = f"control_{'none' if control_none else 'given'}.readings_{readings_mode}"

        def inv(I, k, env, call):
            kz = to_int(k)
            f = call.fold
            obj = call.obj
            fax, stepeq = f.step(kz)
            I.path.define(z3.And(f.base(), z3.Implies(kz >= 0, z3.And(fax, stepeq))), "fold unfolding (recursive spec function) + floor law")
            return [
                ("held_time", to_real(obj.fields["current_time"]) == f.ft(kz)),
                ("held_state", obj.fields["state"].z == f.fs(kz)),
                ("held_cov", obj.fields["covariance"].z == f.fc(kz)),
            ]

        def havoc(I, tag):
            obj = self._obj
            obj.fields["current_time"] = SNum(I.path.fresh_real(f"time_{tag}"))
            obj.fields["state"] = SOpaque(I.path.fresh_const(f"state_{tag}", St), "St")
            obj.fields["covariance"] = SOpaque(I.path.fresh_const(f"cov_{tag}", Cov), "Cov")
            # (invariant held_time/held_state/held_cov: the held estimate is fold(k), an estimate at fold_time(k) = the held time)
            note_time(I, obj.fields["state"].z, to_real(obj.fields["current_time"]))
            note_time(I, obj.fields["covariance"].z, to_real(obj.fields["current_time"]))

        self.loops = {0: LoopInv(carried={}, inv=inv, extra_havoc=havoc, name="loop0")}

    def setup(self, I):
        P = I.path
        obj, max_dt = make_filter(I)
        self._obj = obj
        P.assume(max_dt > 0)
        t_out = P.fresh_real("t_out")
        control = None if self.control_none else SOpaque(P.fresh_const("ctl", Ctl), "Ctl")
        mod = I.load_module("formak.runtime")
        SR = I.module_attr(mod, "StampedReading")
        n = P.fresh_int("n_readings")
        P.assume(n >= 0)
        ts = z3.Function("rd_ts", z3.IntSort(), R)
        keyf = z3.Function("rd_key", z3.IntSort(), Key)
        dataf = z3.Function("rd_data", z3.IntSort(), Rd)
        nodata = z3.Function("rd_data_is_none", z3.IntSort(), z3.BoolSort())
        kwf = z3.Function("rd_kwargs", z3.IntSort(), Kw)

        def reading(i):
            return SObj(
                SR,
                {
                    "timestamp": SNum(ts(i)),
                    "sensor_key": SOpaque(keyf(i), "SensorKey"),
                    "_data": SOptionalData(nodata(i), SOpaque(dataf(i), "ReadingData")),
                    "kwargs": KwargsV(kwf(i)),
                },
                "reading",
            )

        readings = SSeq(SInt(n), reading, "readings") if self.readings_mode == "seq" else None
        eff = lambda i: z3.If(nodata(i), mr(keyf(i), kwf(i)), dataf(i))
        s0, c0 = obj.fields["state"].z, obj.fields["covariance"].z
        t0 = obj.fields["current_time"].z
        fold = FoldSpec(P, t0, s0, c0, max_dt, ctl_z(control), ts, keyf, eff)
        P.ghost["refusals"] = True
        note_time(I, s0, to_real(obj.fields["current_time"]))
        note_time(I, c0, to_real(obj.fields["current_time"]))
        old = dict(obj.fields)
        return Call([obj, SNum(t_out)], {"control": control, "readings": readings}, obj=obj, old=old, fold=fold, n=n, t_out=t_out, max_dt=max_dt, control=control)

    def post(self, I, call, outcome):
        P = I.path
        pre = f"{self.prefix}[{self.variant}]"
        obj = call.obj
        cs = to_int(obj.fields["_impl"].fields["control_size"])
        must_refuse = z3.And(z3.BoolVal(self.control_none), cs > 0)
        if outcome[0] == "raise" and outcome[1] == "KeyError" and P.ghost.get("refused"):
            # the wrapped filter refused a reading and its exception passes through.  Whatever tick keeps (the estimate moved up to
            # the refused reading, or the estimate from before), it stays CONSISTENT: the held estimate is an estimate AT the held
            # time - otherwise the next move (C10) covers the wrong interval
            st, cv = obj.fields.get("state"), obj.fields.get("covariance")
            for nm, v in (("state", st), ("covariance", cv)):
                tv = time_of(I, v.z) if isinstance(v, SOpaque) else None
                if tv is not None:
                    P.oblige(f"{pre}.refused_reading.held_time_is_the_time_of_the_held_{nm}", to_real(obj.fields["current_time"]) == tv)
            for fld in ("_impl", "calibration_map"):
                P.oblige(f"{pre}.refused_reading.frame.{fld}", z3.BoolVal(obj.fields.get(fld) is call.old[fld]))
            return
        if outcome[0] == "raise":
            P.oblige(f"{pre}.control_required.only_typeerror", z3.BoolVal(outcome[1] == "TypeError"), note=f"raises {outcome[1]}")
            P.oblige(f"{pre}.control_required.raises_only_if", must_refuse)
            for f, v in call.old.items():
                P.oblige(f"{pre}.control_required.nothing_touched.{f}", z3.BoolVal(obj.fields.get(f) is v))
            return
        P.oblige(f"{pre}.control_required.raises_if", z3.Not(must_refuse))
        rv = outcome[1]
        f = call.fold
        n = call.n if self.readings_mode == "seq" else z3.IntVal(0)
        P.define(f.base(), "fold unfolding (recursive spec function) + floor law")
        P.oblige(f"{pre}.fold.held_time", to_real(obj.fields["current_time"]) == f.ft(n))
        P.oblige(f"{pre}.fold.held_state", z3.BoolVal(isinstance(obj.fields["state"], SOpaque)) if not isinstance(obj.fields["state"], SOpaque) else obj.fields["state"].z == f.fs(n), theory="euf")
        P.oblige(f"{pre}.fold.held_cov", z3.BoolVal(isinstance(obj.fields["covariance"], SOpaque)) if not isinstance(obj.fields["covariance"], SOpaque) else obj.fields["covariance"].z == f.fc(n), theory="euf")
        st, cv, _, _, _, fax = canonical_move(f.ft(n), call.t_out, call.max_dt, f.fs(n), f.fc(n), ctl_z(call.control))
        shape_ok = isinstance(rv, tuple) and len(rv) == 2 and all(isinstance(x, SOpaque) for x in rv)
        P.oblige(f"{pre}.result.shape", z3.BoolVal(shape_ok))
        if shape_ok:
            P.oblige(f"{pre}.result.state_at_output_time", z3.Implies(fax, rv[0].z == st), theory="euf")
            P.oblige(f"{pre}.result.cov_at_output_time", z3.Implies(fax, rv[1].z == cv), theory="euf")
        for fld in ("_impl", "calibration_map"):
            P.oblige(f"{pre}.frame.{fld}", z3.BoolVal(obj.fields.get(fld) is call.old[fld]))
        if self.readings_mode == "none":
            for fld, v in call.old.items():
                P.oblige(f"{pre}.no_readings.nothing_held.{fld}", z3.BoolVal(obj.fields.get(fld) is v))


class ManagedFilterInit(Contract):
    """runtime.ManagedFilter.__init__(ekf, start_time, state, covariance, calibration_map=None)
    ensures  establishes what `held` means before the first tick: current_time = start_time, state / covariance are the given objects,
             _impl is the given filter; nothing else is stored."""

    key = "formak.runtime:ManagedFilter.__init__"
    prefix = "C11.py.ManagedFilter.__init__"

    def setup(self, I):
        P = I.path
        mod = I.load_module("formak.runtime")
        cls = I.module_attr(mod, "ManagedFilter")
        obj = SObj(cls, {}, "mf")
        impl = SObj("Impl", {}, "impl")
        t0 = SNum(P.fresh_real("start_time"))
        st, cov, cm = SOpaque(z3.Const("state0", z3.DeclareSort("PyEst")), "PyEst"), SOpaque(z3.Const("cov0", z3.DeclareSort("PyEst")), "PyEst"), SObj("Cal", {}, "calibration_map")
        return Call([obj, impl, t0, st, cov], {"calibration_map": cm}, obj=obj, impl=impl, t0=t0, st=st, cov=cov, cm=cm)

    def post(self, I, call, outcome):
        P, pre = I.path, self.prefix
        if outcome[0] == "raise":
            P.oblige(f"{pre}.no_exception", z3.BoolVal(False), note=f"raises {outcome[1]}")
            return
        f = call.obj.fields
        P.oblige(f"{pre}.held_time_is_the_start_time", to_real(f["current_time"]) == call.t0.z if "current_time" in f else z3.BoolVal(False))
        P.oblige(f"{pre}.held_estimate_is_the_given_one", z3.BoolVal(f.get("state") is call.st and f.get("covariance") is call.cov))
        P.oblige(f"{pre}.wraps_the_given_filter", z3.BoolVal(f.get("_impl") is call.impl))
        P.oblige(f"{pre}.keeps_the_calibration_map", z3.BoolVal(f.get("calibration_map") is call.cm))
        P.oblige(f"{pre}.stores_nothing_else", z3.BoolVal(set(f) == {"_impl", "current_time", "state", "covariance", "calibration_map"}), note=f"fields {sorted(f)}")


class StampedReadingInit(Contract):
    """runtime.StampedReading.__init__(timestamp, sensor_key, *, _data=None, **kwargs): stores exactly what it is given."""

    key = "formak.runtime:StampedReading.__init__"
    prefix = "C11.py.StampedReading.__init__"

    def __init__(self, with_data):
        self.with_data = with_data
        self.prefix = f"C11.py.StampedReading.__init__[{'data' if with_data else 'named_values'}]"

    def setup(self, I):
        P = I.path
        mod = I.load_module("formak.runtime")
        cls = I.module_attr(mod, "StampedReading")
        obj = SObj(cls, {}, "reading")
        ts = SNum(P.fresh_real("timestamp"))
        data = SObj("Data", {}, "data") if self.with_data else None
        val = SReal(P.fresh_real("v"))
        kw = {"_data": data} if self.with_data else {"v": val}
        return Call([obj, ts, "sensor_a"], kw, obj=obj, ts=ts, data=data, val=val)

    def post(self, I, call, outcome):
        P, pre = I.path, self.prefix
        if outcome[0] == "raise":
            P.oblige(f"{pre}.no_exception", z3.BoolVal(False), note=f"raises {outcome[1]}")
            return
        f = call.obj.fields
        P.oblige(f"{pre}.timestamp", to_real(f["timestamp"]) == call.ts.z if "timestamp" in f else z3.BoolVal(False))
        P.oblige(f"{pre}.sensor_key", z3.BoolVal(f.get("sensor_key") == "sensor_a"))
        P.oblige(f"{pre}.data", z3.BoolVal(f.get("_data") is call.data))
        kw = f.get("kwargs")
        items = kw.d if isinstance(kw, PyDict) else (kw if isinstance(kw, dict) else None)
        want = {} if self.with_data else {"v": call.val}
        P.oblige(f"{pre}.named_values", z3.BoolVal(items is not None and set(items) == set(want) and all(items[k] is want[k] for k in want)), note=f"kwargs {items}")


def init_contracts():
    return [ManagedFilterInit(), StampedReadingInit(True), StampedReadingInit(False)]


def tick_contracts():
    return [TickFold(cn, rm) for cn in (False, True) for rm in ("seq", "none")]
