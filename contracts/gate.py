"""Contract on python.assert_valid_covariance (the covariance validity gate) - C09.1.

Acceptance region demanded by the property (deliberately the smallest defensible one), both clauses RELATIVE to the
magnitude of the matrix ("valid up to rounding relative to their magnitude"):
    max|C - C^T| <= P * n * u * max|C|   and   lam_min(C) >= -P * n * u * norm2(C),      u = 2^-53, P = 64
(the usual p(n)*u*||C|| backward-error scale).  Rejection is demanded only far outside: lam_min(C) < -1e-6 * norm2(C) with
norm2(C) > 0 (needed by C14: negative noise is refused); no property demands the refusal of an asymmetric matrix.
Until defect D13 the symmetry clause was stated through the code's own test (np.allclose with numpy's absolute default
tolerance), which made it vacuous and hid that the verdict depended on the units of the state.
"""
from __future__ import annotations

import z3

from pvc.contract import Call, Contract
from pvc.np_model import asym, eig_axioms, entry_axioms, lam_min, max_abs, norm2
from pvc.sym import Mat, SInt, SMat, Unsupported, to_int

U = z3.RealVal(1) / z3.RealVal(2**53)
P_CONST = z3.RealVal(64)
FAR = z3.RealVal("1/1000000")

gate_ok = z3.Function("gate_ok", Mat, z3.BoolSort())  # caller-side abstraction: the gate accepts this matrix
psd = z3.Function("psd_exact", Mat, z3.BoolSort())  # symmetric positive semidefinite in exact arithmetic


SYM_FAR = z3.RealVal("1/1000")


def must_accept(t, n):
    return z3.And(asym(t) <= P_CONST * z3.ToReal(n) * U * max_abs(t), lam_min(t) >= -(P_CONST * z3.ToReal(n) * U * norm2(t)))


def must_reject(t, n):
    # (an empty 0x0 matrix has no spectrum: the eigenvalue clause needs n >= 1)
    # (no listed property demands that an asymmetric matrix is refused: only the spectral disjunct - C14, negative noise)
    return z3.And(n >= 1, norm2(t) > 0, lam_min(t) < -(FAR * norm2(t)))


class AssertValidCovariance(Contract):
    """assert_valid_covariance(C, *, name, negative_tol):
    ensures  returns normally if max|C - C^T| <= 64 n u max|C| and lam_min(C) >= -64 n u ||C||_2 ;
             raises AssertionError if lam_min(C) < -1e-6 ||C||_2 ;
             raises nothing but AssertionError."""

    key = "formak.python:assert_valid_covariance"
    prefix = "C09.py.assert_valid_covariance"

    def setup(self, I):
        P = I.path
        n = P.fresh_int("n")
        P.assume(z3.And(n >= 0, n <= 1000000))
        C = SMat(z3.Const("C", Mat), shape=(SInt(n), SInt(n)), ident=object())
        P.define(eig_axioms(C.term), "D-eig: spectrum bounds (|lam_min| <= norm2, norm2 >= 0)")
        P.define(entry_axioms(C.term), "D-entry: 0 <= max|C - C^T| <= 2 max|C|")
        return Call([C], {}, C=C, n=n)

    def post(self, I, call, outcome):
        P = I.path
        t, n = call.C.term, call.n
        if outcome[0] == "raise":
            P.oblige(f"{self.prefix}.only_assertionerror", z3.BoolVal(outcome[1] == "AssertionError"), note=f"raises {outcome[1]}")
            P.oblige(f"{self.prefix}.accepts_relatively_psd", z3.Not(must_accept(t, n)))
        else:
            P.oblige(f"{self.prefix}.rejects_clearly_invalid", z3.Not(must_reject(t, n)))

    def apply(self, I, args, kwargs):
        C = args[0]
        if hasattr(C, "pvc_type") and C.pvc_type == "dict":
            raise Unsupported("assert_valid_covariance on a dict")
        if not isinstance(C, SMat):
            raise Unsupported(f"assert_valid_covariance({C!r})")
        I.raise_if(z3.Not(gate_ok(C.term)), "AssertionError")
        return None
