"""Contracts on the named-layout fragments of the C++ generator (py/formak/ast_fragments.py)          [C13 C++ half, C02, C07]

For ALL programs: the generator object's argument lists are symbolic sequences; the fragment functions are executed by the
interpreter and their output (a tree of formak.ast_tools nodes, modelled as free constructors) is compared position by position:
  * <X>Options has exactly one `double <name> = 0.0` member per symbol of the layout, in layout order;
  * struct <X> has, per symbol i, the accessor pair `double& <name>()` / `double <name>() const`, both returning `data(i, 0)`
    (Covariance: `data(i, i)`), its `rows` is the layout's size;
  * the Options constructor initialises `data` with `options.<name>` joined in layout order.
Together: the value given as options.<name> lands in the slot that <name>() reads - for every layout, hence for every renaming
or declaration order (the C++ half of 'values are bound by name').  How the nodes are PRINTED is per-program (C02(b)).
"""
from __future__ import annotations

import z3

from contracts.cppgen import AstNode, install_ast_models
from pvc.contract import Call, Contract
from pvc.interp import Flat2Seq, PyList, as_seq2
from pvc.models import FmtV
from pvc.sym import SInt, SObj, SSeq, to_int
from pvc.symtheory import Str, StrV, Sym, SymV, SDictV, Expr, ExprV

KINDS = {
    "State": ("arglist_state", "state_size", "StateOptions", "State", "StateOptionsConstructor"),
    "Control": ("arglist_control", "control_size", "ControlOptions", "Control", "ControlConstructor"),
    "Calibration": ("arglist_calibration", "calibration_size", "CalibrationOptions", "Calibration", "CalibrationConstructor"),
}


class LayoutWorld:
    def __init__(self, I):
        P = I.path
        self.size = {k: P.fresh_int(f"n_{k.lower()}") for k in KINDS}
        for v in self.size.values():
            P.assume(v >= 0)
        self.enum = {k: z3.Function(f"A_{k}", z3.IntSort(), Sym) for k in KINDS}
        fields = {}
        for k, (al, sz, *_rest) in KINDS.items():
            s = SSeq(SInt(self.size[k]), lambda i, f=self.enum[k]: SymV(f(to_int(i))), al)
            s.pvc_type = "list"
            fields[al] = s
            fields[sz] = SInt(self.size[k])
        self.gen = SObj("Generator", fields, "generator")
        install_ast_models(I)


def node(v, cls):
    return isinstance(v, AstNode) and v.cls == cls


def accessor_ok(P, pre, tag, fd, ret_type, modifier, name_term, idx, diag):
    """fd is FunctionDef(ret_type, <name>, args=[], modifier=modifier, body=[Return(f"data({idx}, {0|idx})")])."""
    ok = node(fd, "FunctionDef") and len(fd.args) == 2 and fd.args[0] == ret_type and fd.kwargs.get("modifier") == modifier
    body = fd.kwargs.get("body") if ok else None
    items = body.items if isinstance(body, PyList) else (body if isinstance(body, list) else None)
    ok = ok and items is not None and len(items) == 1 and node(items[0], "Return") and len(items[0].args) == 1 and isinstance(items[0].args[0], FmtV)
    args_kw = fd.kwargs.get("args") if ok else None
    ok = ok and (isinstance(args_kw, PyList) and not args_kw.items or args_kw == [])
    if not ok:
        P.oblige(f"{pre}.{tag}_shape", z3.BoolVal(False), note=f"not `{ret_type} <name>() {modifier} {{ return data(i, j); }}`")
        return
    parts = items[0].args[0].parts
    skeleton = "".join(p if isinstance(p, str) else "{}" for p in parts)
    holes = [p for p in parts if not isinstance(p, str)]
    shape = skeleton == ("data({}, {})" if diag else "data({}, 0)") and all(isinstance(h, (SInt, int)) for h in holes)
    nm = fd.args[1]
    nmz = nm.z if isinstance(nm, (SymV, StrV)) else None
    goal = z3.BoolVal(False)
    if shape and nmz is not None:
        goal = z3.And(nmz == name_term, *[to_int(h) == idx for h in holes])
    P.oblige(f"{pre}.{tag}_is_named_after_its_symbol_and_reads_its_slot", goal, note=f"return text parts {parts}")


class OptionsStruct(Contract):
    """ast_fragments.<X>Options(generator): one `double <name> = 0.0` member per layout symbol, in layout order."""

    def __init__(self, kind):
        self.kind = kind
        self.fn = KINDS[kind][2]
        self.key = f"formak.ast_fragments:{self.fn}"
        self.prefix = f"C13.cxxgen.{self.fn}"

    def setup(self, I):
        W = LayoutWorld(I)
        return Call([W.gen], {}, W=W)

    def post(self, I, call, outcome):
        P, pre, W = I.path, self.prefix, call.W
        if outcome[0] == "raise":
            P.oblige(f"{pre}.no_exception", z3.BoolVal(False), note=f"raises {outcome[1]}")
            return
        rv = outcome[1]
        n, A = W.size[self.kind], W.enum[self.kind]
        ok = node(rv, "ClassDef") and rv.args[:2] == ("struct", self.fn) and isinstance(rv.kwargs.get("body"), (SSeq, PyList))
        P.oblige(f"{pre}.is_the_options_struct", z3.BoolVal(ok))
        if not ok:
            return
        body = as_seq2(rv.kwargs["body"])
        P.oblige(f"{pre}.one_member_per_symbol", body.len_z() == n)
        i = z3.Int("i_any")
        el = body.at(i)
        okm = node(el, "MemberDeclaration") and len(el.args) == 3 and el.args[0] == "double" and isinstance(el.args[1], (SymV, StrV)) and el.args[2] == 0.0
        P.oblige(f"{pre}.member_i_is_the_ith_symbol_defaulting_to_zero", z3.Implies(z3.And(i >= 0, i < n), el.args[1].z == A(i)) if okm else z3.BoolVal(False))


class NamedStruct(Contract):
    """ast_fragments.State / Control / Calibration / Covariance(generator): accessor pairs by layout position."""

    def __init__(self, kind, covariance=False):
        self.kind, self.cov = kind, covariance
        self.fn = "Covariance" if covariance else KINDS[kind][3]
        self.key = f"formak.ast_fragments:{self.fn}"
        self.prefix = f"C13.cxxgen.{self.fn}"

    def setup(self, I):
        W = LayoutWorld(I)
        return Call([W.gen], {}, W=W)

    def post(self, I, call, outcome):
        P, pre, W = I.path, self.prefix, call.W
        if outcome[0] == "raise":
            P.oblige(f"{pre}.no_exception", z3.BoolVal(False), note=f"raises {outcome[1]}")
            return
        rv = outcome[1]
        n, A = W.size[self.kind], W.enum[self.kind]
        ok = node(rv, "ClassDef") and rv.args[:2] == ("struct", self.fn) and isinstance(rv.kwargs.get("body"), SSeq)
        P.oblige(f"{pre}.is_the_struct", z3.BoolVal(ok))
        if not ok:
            return
        parts = list(getattr(rv.kwargs["body"], "parts", [rv.kwargs["body"]]))
        flats = [p for p in parts if isinstance(p, Flat2Seq)]
        P.oblige(f"{pre}.has_one_block_of_accessor_pairs", z3.BoolVal(len(flats) == 1))
        if len(flats) != 1:
            return
        fl = flats[0]
        P.oblige(f"{pre}.one_accessor_pair_per_symbol", z3.And(to_int(fl.rows) == n, to_int(fl.cols) == 2))
        i = z3.Int("i_any")
        rng = z3.And(i >= 0, i < n)
        P.assume(rng)
        accessor_ok(P, pre, "mutable_accessor", fl.cell(i, 0), "double&", "", A(i), i, self.cov)
        accessor_ok(P, pre, "const_accessor", fl.cell(i, 1), "double", "const", A(i), i, self.cov)
        # rows member = layout size; no other accessor-like members outside the block
        heads = [x for p in parts if not isinstance(p, Flat2Seq) for x in (as_seq2(p).at(z3.IntVal(k)) for k in range(as_seq2(p).length if isinstance(as_seq2(p).length, int) else 0))]
        rows = [x for x in heads if node(x, "MemberDeclaration") and len(x.args) == 3 and x.args[1] == "rows"]
        P.oblige(f"{pre}.rows_is_the_layout_size", z3.BoolVal(len(rows) == 1) if not rows else to_int(rows[0].args[2]) == n)
        P.oblige(f"{pre}.no_stray_accessors", z3.BoolVal(not any(node(x, "FunctionDef") for x in heads)))


class OptionsConstructor(Contract):
    """ast_fragments.StateOptionsConstructor / ControlConstructor / CalibrationConstructor(generator):
    `<X>::<X>(const <X>Options& options) : data(options.<name_0>, options.<name_1>, ...)` in layout order."""

    def __init__(self, kind):
        self.kind = kind
        self.fn = KINDS[kind][4]
        self.key = f"formak.ast_fragments:{self.fn}"
        self.prefix = f"C13.cxxgen.{self.fn}"

    def setup(self, I):
        W = LayoutWorld(I)
        return Call([W.gen], {}, W=W)

    def post(self, I, call, outcome):
        P, pre, W = I.path, self.prefix, call.W
        if outcome[0] == "raise":
            P.oblige(f"{pre}.no_exception", z3.BoolVal(False), note=f"raises {outcome[1]}")
            return
        rv = outcome[1]
        n, A = W.size[self.kind], W.enum[self.kind]
        il = rv.kwargs.get("initializer_list") if node(rv, "ConstructorDefinition") else None
        items = il.items if isinstance(il, PyList) else il
        ok = node(rv, "ConstructorDefinition") and rv.args[:1] == (KINDS[self.kind][3],) and isinstance(items, list) and len(items) == 1 and isinstance(items[0], tuple) and items[0][0] == "data" and isinstance(items[0][1], FmtV)
        P.oblige(f"{pre}.initialises_data_from_the_options", z3.BoolVal(ok))
        if not ok:
            return
        joined = items[0][1]
        seq = getattr(joined, "joined_seq", None)
        okj = joined.parts[:2] == ("join", ", ") and isinstance(seq, SSeq)
        P.oblige(f"{pre}.coefficients_are_a_comma_separated_list", z3.BoolVal(okj))
        if not okj:
            return
        P.oblige(f"{pre}.one_coefficient_per_symbol", seq.len_z() == n)
        i = z3.Int("i_any")
        el = seq.at(i)
        oke = isinstance(el, FmtV) and len(el.parts) == 2 and el.parts[0] == "options." and isinstance(el.parts[1], (SymV, StrV))
        P.oblige(f"{pre}.coefficient_i_is_the_option_named_after_the_ith_symbol", z3.Implies(z3.And(i >= 0, i < n), el.parts[1].z == A(i)) if oke else z3.BoolVal(False), note=f"coefficient text {getattr(el, 'parts', el)}")


class ReadingWorld(LayoutWorld):
    def __init__(self, I):
        super().__init__(I)
        P = I.path
        self.mp = SDictV(P, "sensor_model_mapping", Str, Expr, StrV, ExprV)
        self.sk = self.mp.sorted_key_fn(P)
        self.rt = SObj("ReadingT", {"typename": "Gps", "size": SInt(self.mp.n), "identifier": "SensorId::GPS", "sensor_model_mapping": self.mp}, "reading_type")
        self.gen.fields["enable_calibration"] = None  # replaced below
        from pvc.interp import Builtin

        self.gen.fields["enable_calibration"] = Builtin("enable_calibration", lambda I2, a, k: True)
        self.gen.fields["enable_control"] = Builtin("enable_control", lambda I2, a, k: True)


class ReadingOptionsStruct(Contract):
    """ast_fragments.ReadingOptions(reading_type): one `double <reading> = 0.0` member per reading, in SORTED name order."""

    key = "formak.ast_fragments:ReadingOptions"
    prefix = "C13.cxxgen.ReadingOptions"

    def setup(self, I):
        W = ReadingWorld(I)
        return Call([W.rt], {}, W=W)

    def post(self, I, call, outcome):
        P, pre, W = I.path, self.prefix, call.W
        if outcome[0] == "raise":
            P.oblige(f"{pre}.no_exception", z3.BoolVal(False), note=f"raises {outcome[1]}")
            return
        rv = outcome[1]
        ok = node(rv, "ClassDef") and rv.args[0] == "struct" and isinstance(rv.kwargs.get("body"), (SSeq, PyList))
        P.oblige(f"{pre}.is_the_options_struct", z3.BoolVal(ok))
        if not ok:
            return
        body = as_seq2(rv.kwargs["body"])
        n = W.mp.n
        P.oblige(f"{pre}.one_member_per_reading", body.len_z() == n)
        i = z3.Int("i_any")
        el = body.at(i)
        okm = node(el, "MemberDeclaration") and len(el.args) == 3 and el.args[0] == "double" and isinstance(el.args[1], StrV) and el.args[2] == 0.0
        P.oblige(f"{pre}.member_i_is_the_ith_reading_in_sorted_name_order", z3.Implies(z3.And(i >= 0, i < n), el.args[1].z == W.sk(i)) if okm else z3.BoolVal(False))


class ReadingStructAccessors(Contract):
    """ast_fragments.Reading(generator, reading_type): accessor `double <reading>() { return data(i, 0); }` for the i-th reading in SORTED name
    order; matrix aliases sized by the reading count and the state size; `size` is the reading count."""

    key = "formak.ast_fragments:Reading"
    prefix = "C13.cxxgen.Reading"
    inline = ("formak.ast_fragments:_Reading_sensor_model_function_def", "formak.ast_fragments:_Reading_sensor_model_args", "formak.ast_fragments:_Reading_sensor_model_body", "formak.ast_fragments:standard_reading_args")

    def setup(self, I):
        W = ReadingWorld(I)
        return Call([W.gen, W.rt], {}, W=W)

    def post(self, I, call, outcome):
        P, pre, W = I.path, self.prefix, call.W
        if outcome[0] == "raise":
            P.oblige(f"{pre}.no_exception", z3.BoolVal(False), note=f"raises {outcome[1]}")
            return
        rv = outcome[1]
        ok = node(rv, "ClassDef") and isinstance(rv.kwargs.get("body"), SSeq)
        P.oblige(f"{pre}.is_the_struct", z3.BoolVal(ok))
        if not ok:
            return
        parts = list(getattr(rv.kwargs["body"], "parts", [rv.kwargs["body"]]))
        sym_parts = [p for p in parts if isinstance(p, SSeq) and not isinstance(as_seq2(p).length, int)]
        P.oblige(f"{pre}.has_one_block_of_accessors", z3.BoolVal(len(sym_parts) == 1))
        if len(sym_parts) != 1:
            return
        acc = sym_parts[0]
        n = W.mp.n
        P.oblige(f"{pre}.one_accessor_per_reading", acc.len_z() == n)
        i = z3.Int("i_any")
        P.assume(z3.And(i >= 0, i < n))
        accessor_ok(P, pre, "accessor", acc.at(i), "double", "", W.sk(i), i, False)
        heads = [x for p in parts if p is not acc for x in (as_seq2(p).at(z3.IntVal(k)) for k in range(as_seq2(p).length if isinstance(as_seq2(p).length, int) else 0))]
        size = [x for x in heads if node(x, "MemberDeclaration") and len(x.args) == 3 and x.args[1] == "size"]
        P.oblige(f"{pre}.size_is_the_reading_count", to_int(size[0].args[2]) == n if len(size) == 1 else z3.BoolVal(False))
        using = {x.args[0]: x.args[1] for x in heads if node(x, "UsingDeclaration") and len(x.args) == 2}

        def dims(alias):
            v = using.get(alias)
            if not isinstance(v, FmtV):
                return None
            sk = "".join(p if isinstance(p, str) else "{}" for p in v.parts)
            return sk, [p for p in v.parts if not isinstance(p, str)]

        ns = W.size["State"]
        want = {"DataT": ("Eigen::Matrix<double, {}, 1>", [n]), "CovarianceT": ("Eigen::Matrix<double, {}, {}>", [n, n]), "InnovationT": ("Eigen::Matrix<double, {}, 1>", [n]), "KalmanGainT": ("Eigen::Matrix<double, {}, {}>", [ns, n]), "SensorJacobianT": ("Eigen::Matrix<double, {}, {}>", [n, ns])}
        for alias, (sk, ds) in want.items():
            got = dims(alias)
            okd = got is not None and got[0] == sk and len(got[1]) == len(ds)
            P.oblige(f"{pre}.{alias}_dimensions", z3.And(*[to_int(g) == d for g, d in zip(got[1], ds)]) if okd else z3.BoolVal(False), note=f"{alias} = {got}")
        sm = using.get("SensorModel")
        P.oblige(f"{pre}.SensorModel_alias", z3.BoolVal(isinstance(sm, (str, FmtV)) and (sm == "GpsSensorModel" or (isinstance(sm, FmtV) and "".join(p for p in sm.parts if isinstance(p, str)) in ("GpsSensorModel", "SensorModel")))), note=f"SensorModel = {getattr(sm, 'parts', sm)}")


class ReadingOptionsConstructor(Contract):
    """ast_fragments.ReadingConstructor(reading_type): data(options.<reading_0>, ...) in SORTED name order."""

    key = "formak.ast_fragments:ReadingConstructor"
    prefix = "C13.cxxgen.ReadingConstructor"

    def setup(self, I):
        W = ReadingWorld(I)
        return Call([W.rt], {}, W=W)

    def post(self, I, call, outcome):
        P, pre, W = I.path, self.prefix, call.W
        if outcome[0] == "raise":
            P.oblige(f"{pre}.no_exception", z3.BoolVal(False), note=f"raises {outcome[1]}")
            return
        rv = outcome[1]
        il = rv.kwargs.get("initializer_list") if node(rv, "ConstructorDefinition") else None
        items = il.items if isinstance(il, PyList) else il
        ok = node(rv, "ConstructorDefinition") and isinstance(items, list) and len(items) == 1 and isinstance(items[0], tuple) and items[0][0] == "data" and isinstance(items[0][1], FmtV)
        P.oblige(f"{pre}.initialises_data_from_the_options", z3.BoolVal(ok))
        if not ok:
            return
        joined = items[0][1]
        seq = getattr(joined, "joined_seq", None)
        okj = joined.parts[:2] == ("join", ", ") and isinstance(seq, SSeq)
        P.oblige(f"{pre}.coefficients_are_a_comma_separated_list", z3.BoolVal(okj))
        if not okj:
            return
        n = W.mp.n
        P.oblige(f"{pre}.one_coefficient_per_reading", seq.len_z() == n)
        i = z3.Int("i_any")
        el = seq.at(i)
        oke = isinstance(el, FmtV) and len(el.parts) == 2 and el.parts[0] == "options." and isinstance(el.parts[1], StrV)
        P.oblige(f"{pre}.coefficient_i_is_the_option_named_after_the_ith_reading_in_sorted_order", z3.Implies(z3.And(i >= 0, i < n), el.parts[1].z == W.sk(i)) if oke else z3.BoolVal(False), note=f"coefficient text {getattr(el, 'parts', el)}")


def contracts():
    out = [ReadingOptionsStruct(), ReadingStructAccessors(), ReadingOptionsConstructor()]
    for k in KINDS:
        out += [OptionsStruct(k), NamedStruct(k), OptionsConstructor(k)]
    out.append(NamedStruct("State", covariance=True))
    return out
