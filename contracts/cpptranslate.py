"""Contracts on the statement generators of the C++ code generator (py/formak/cpp.py `_translate_*`)      [C02(a), C15]

For ALL programs: the generator object's argument lists are symbolic sequences (the name-sorted layouts established by the
constructor contracts, C15), the definition's dictionaries are symbolic, and each `_translate_*` generator is executed by the
interpreter.  Postconditions (by position, all positions at once):
  * statement i assigns the target NAMED after the i-th symbol of the layout (`double <name>`, `jacobian(r, c)`),
  * its expression is the definition's expression of THAT symbol (or its derivative w.r.t. the column's symbol) under the
    accessor substitution, and
  * the accessor substitution maps every member symbol to the accessor OF ITS OWN NAME on the right object
    (`state.state.<name>()`, `calibration.<name>()`, `control.<name>()`), in one list covering state, calibration and control.
sympy's `subs` is the assumed contract D-subs (value of e under the substitution = value of e with the symbols read through
the accessors); what is proved here is which expression and which substitution each statement is built from.
"""
from __future__ import annotations

import z3

from contracts.pyblock import SymbolCall, install_sympy_models
from pvc.contract import Call, Contract
from pvc.interp import Builtin, GenV, PyList, as_seq2
from pvc.models import FmtV
from pvc.sym import SInt, SObj, SSeq, Unsupported, to_int, wrap
from pvc.symtheory import Expr, ExprV, SDictV, Str, StrV, Sym, SymV, diff_f, name_f

Subst = z3.DeclareSort("Subst")
subs_f = z3.Function("subs", Expr, Subst, Expr)


class SubsExprV(ExprV):
    """e.subs(pairs): the term subs(e, sigma) plus the python-level list of pairs sigma was built from."""

    def __init__(self, z, pairs_seq, base):
        super().__init__(z)
        self.pairs_seq, self.base = pairs_seq, base

    def pvc_subst(self, pairs):
        from pvc.sym import subst

        return SubsExprV(z3.substitute(self.z, *pairs), self.pairs_seq, subst(self.base, pairs))


class GenWorld:
    def __init__(self, I, ekf=True):
        P = I.path
        self.n, self.c, self.k = P.fresh_int("n_state"), P.fresh_int("n_calibration"), P.fresh_int("n_control")
        P.assume(z3.And(self.n >= 0, self.c >= 0, self.k >= 0))
        self.AS, self.ACal, self.AU = (z3.Function(nm, z3.IntSort(), Sym) for nm in ("AS", "ACal", "AU"))
        mk = lambda ln, f, tag: self._seq(ln, f, tag)
        self.arglist_state = mk(self.n, self.AS, "arglist_state")
        self.arglist_calibration = mk(self.c, self.ACal, "arglist_calibration")
        self.arglist_control = mk(self.k, self.AU, "arglist_control")
        self.sm = SDictV(P, "state_model", Sym, Expr, SymV, ExprV)
        i = z3.Int("sm_i")
        # accepted definition: every state symbol has an update expression
        P.facts.append(z3.ForAll([i], z3.Implies(z3.And(i >= 0, i < self.n), self.sm.has(self.AS(i))), patterns=[self.AS(i)]))
        self.ui = SObj("UiModel", {"state_model": self.sm}, "symbolic_model")
        self.sigma = {}  # id(pairs seq) -> Subst const

        def opaque_getattr(I2, obj, name):
            if isinstance(obj, ExprV) and name == "subs":

                def m_subs(I3, a, kw):
                    seq = a[0]
                    key = id(seq)
                    if key not in self.sigma:
                        self.sigma[key] = (z3.Const(I3.path.names.fresh("sigma"), Subst), seq)
                    return SubsExprV(subs_f(obj.z, self.sigma[key][0]), seq, obj)

                return Builtin("Expr.subs", m_subs)
            if isinstance(obj, SymV) and name == "name":
                return StrV(name_f(obj.z))
            return NotImplemented

        I.models.opaque_getattr_hook = opaque_getattr
        install_sympy_models(I, None)

        def m_diff(I2, a, kw):
            # D-diff (weakened after D12/D14): sympy's diff(e, x) is the partial derivative of the real function e only when it
            # comes back in closed form (no unevaluated Derivative)
            from pvc.sympy_model import jac_f, jacobian_axioms

            e, x = a
            if not (isinstance(e, ExprV) and isinstance(x, SymV)):
                raise Unsupported("diff arguments")
            jacobian_axioms(I2.path)
            return ExprV(jac_f(e.z, x.z))

        I.models.froms[("sympy", "diff")] = Builtin("sympy.diff", m_diff)

    def _seq(self, ln, f, tag):
        s = SSeq(SInt(ln), lambda i: SymV(f(to_int(i))), tag)
        s.pvc_type = "list"
        return s

    def generator(self, I, cls_name):
        mod = I.load_module("formak.cpp")
        cls = I.module_attr(mod, cls_name)
        return SObj(cls, {"arglist_state": self.arglist_state, "arglist_calibration": self.arglist_calibration, "arglist_control": self.arglist_control}, "generator")


def accessor_of(v):
    """(template text, member symbol term) of Symbol("<template>".format(member)), or None."""
    if not isinstance(v, SymbolCall) or v.kw or len(v.args) != 1:
        return None
    f = v.args[0]
    if not isinstance(f, FmtV):
        return None
    if len(f.parts) == 3 and f.parts[0] == "format" and isinstance(f.parts[1], str) and isinstance(f.parts[2], SymV):
        return f.parts[1], f.parts[2].z
    # structural form shared by f-strings and str.format: literal pieces around exactly one member symbol
    holes = [p for p in f.parts if not isinstance(p, str)]
    if len(holes) == 1 and isinstance(holes[0], SymV) and f.parts[0] != "format":
        return "".join(p if isinstance(p, str) else "{}" for p in f.parts), holes[0].z
    return None


def check_substitution(P, pre, W, seq, groups):
    """`seq` is the list handed to subs(): position p pairs member symbol X[p] with the accessor of ITS OWN name on the
    group's object.  groups: [(length, enumeration, template)] in order."""
    if not isinstance(seq, (SSeq, PyList)):
        P.oblige(f"{pre}.substitution_is_a_list_of_pairs", z3.BoolVal(False))
        return
    seq = as_seq2(seq)
    # the list is a concatenation of one comprehension per group: reason per segment
    parts = list(getattr(seq, "parts", [seq]))
    P.oblige(f"{pre}.substitution_has_one_segment_per_group", z3.BoolVal(len(parts) == len(groups)), note=f"{len(parts)} segments, expected {len(groups)}")
    if len(parts) != len(groups):
        return
    for part, (ln, enum, tmpl) in zip(parts, groups):
        j = z3.Int("p_any")
        label = {"state.state.{}()": "state", "state.{}()": "state", "calibration.{}()": "calibration", "control.{}()": "control"}[tmpl]
        P.oblige(f"{pre}.substitution.covers_every_{label}_member", part.len_z() == ln)
        el = part.at(j)
        ok = isinstance(el, tuple) and len(el) == 2 and isinstance(el[0], SymV)
        acc = accessor_of(el[1]) if ok else None
        if not ok or acc is None:
            P.oblige(f"{pre}.substitution.{label}_members_read_through_their_own_accessor", z3.BoolVal(False), note="pair is not (member, Symbol('<obj>.{}()'.format(member)))")
        else:
            P.oblige(f"{pre}.substitution.{label}_members_read_through_their_own_accessor", z3.Implies(z3.And(j >= 0, j < ln), z3.And(el[0].z == enum(j), z3.BoolVal(acc[0] == tmpl), acc[1] == enum(j))), note=f"accessor template {acc[0]!r}, expected {tmpl!r}")


class TranslateStateModel(Contract):
    """cpp.ExtendedKalmanFilter._translate_process_model / cpp.Model._translate_model (generators)
    ensures  yields n statements; statement i = (f"double {name(AS[i])}", subs(state_model[AS[i]], sigma)) with sigma the by-name accessor
             substitution over state + calibration + control; never raises for an accepted definition."""

    assignable = ()  # the statement generators write nothing on the generator object

    def __init__(self, ekf=True):
        self.ekf = ekf
        self.cls = "ExtendedKalmanFilter" if ekf else "Model"
        self.fn = "_translate_process_model" if ekf else "_translate_model"
        self.key = f"formak.cpp:{self.cls}.{self.fn}"
        self.prefix = f"C02.cxxgen.{self.cls}.{self.fn}"
        self.state_tmpl = "state.state.{}()" if ekf else "state.{}()"

    def setup(self, I):
        W = GenWorld(I, self.ekf)
        I.path.ghost["site"] = self.prefix
        return Call([W.generator(I, self.cls), W.ui], {}, W=W)

    def post(self, I, call, outcome):
        P, pre, W = I.path, self.prefix, call.W
        if outcome[0] == "raise":
            P.oblige(f"{pre}.no_exception", z3.BoolVal(False), note=f"raises {outcome[1]}")
            return
        rv = outcome[1]
        seq = rv.seq if isinstance(rv, GenV) else rv
        if not isinstance(seq, (SSeq, PyList)):
            P.oblige(f"{pre}.yields_a_sequence", z3.BoolVal(False))
            return
        seq = as_seq2(seq)
        P.oblige(f"{pre}.one_statement_per_state", seq.len_z() == W.n)
        i = z3.Int("i_any")
        el = seq.at(i)
        ok = isinstance(el, tuple) and len(el) == 2 and isinstance(el[0], FmtV) and isinstance(el[1], SubsExprV)
        P.oblige(f"{pre}.statement_shape", z3.BoolVal(ok), note="statement is not (f'double {name}', expr.subs(...))")
        if not ok:
            return
        tgt, ex = el
        parts = tgt.parts
        okt = len(parts) == 2 and parts[0] == "double " and isinstance(parts[1], StrV)
        P.oblige(f"{pre}.target_named_after_the_state", z3.Implies(z3.And(i >= 0, i < W.n), parts[1].z == name_f(W.AS(i))) if okt else z3.BoolVal(False))
        P.oblige(f"{pre}.expression_of_the_same_state", z3.Implies(z3.And(i >= 0, i < W.n), ex.base.z == W.sm.get(W.AS(i))) if isinstance(ex.base, ExprV) else z3.BoolVal(False))
        check_substitution(P, pre, W, ex.pairs_seq, [(W.n, W.AS, self.state_tmpl), (W.c, W.ACal, "calibration.{}()"), (W.k, W.AU, "control.{}()")])


class TranslateSensorModel(Contract):
    """cpp.ExtendedKalmanFilter._translate_sensor_model(sensor_model_mapping)
    ensures  yields one statement per reading, in SORTED reading-name order; statement j = (f"double {r_j}", subs(mapping[r_j], sigma)),
             sigma the by-name accessor substitution over state + calibration."""

    assignable = ()  # the statement generators write nothing on the generator object

    key = "formak.cpp:ExtendedKalmanFilter._translate_sensor_model"
    prefix = "C02.cxxgen.ExtendedKalmanFilter._translate_sensor_model"

    def setup(self, I):
        W = GenWorld(I, True)
        P = I.path
        P.ghost["site"] = self.prefix
        mp = SDictV(P, "sensor_model_mapping", Str, Expr, StrV, ExprV)
        return Call([W.generator(I, "ExtendedKalmanFilter"), mp], {}, W=W, mp=mp)

    def post(self, I, call, outcome):
        P, pre, W, mp = I.path, self.prefix, call.W, call.mp
        if outcome[0] == "raise":
            P.oblige(f"{pre}.no_exception", z3.BoolVal(False), note=f"raises {outcome[1]}")
            return
        rv = outcome[1]
        seq = rv.seq if isinstance(rv, GenV) else rv
        if not isinstance(seq, (SSeq, PyList)):
            P.oblige(f"{pre}.yields_a_sequence", z3.BoolVal(False))
            return
        seq = as_seq2(seq)
        P.oblige(f"{pre}.one_statement_per_reading", seq.len_z() == mp.n)
        sk = mp.sorted_key_fn(P)
        j = z3.Int("j_any")
        el = seq.at(j)
        ok = isinstance(el, tuple) and len(el) == 2 and isinstance(el[0], FmtV) and isinstance(el[1], SubsExprV)
        P.oblige(f"{pre}.statement_shape", z3.BoolVal(ok))
        if not ok:
            return
        tgt, ex = el
        okt = len(tgt.parts) == 2 and tgt.parts[0] == "double " and isinstance(tgt.parts[1], StrV)
        rng = z3.And(j >= 0, j < mp.n)
        P.oblige(f"{pre}.readings_in_sorted_name_order", z3.Implies(rng, tgt.parts[1].z == sk(j)) if okt else z3.BoolVal(False))
        P.oblige(f"{pre}.expression_of_the_same_reading", z3.Implies(rng, ex.base.z == mp.get(sk(j))) if isinstance(ex.base, ExprV) else z3.BoolVal(False))
        check_substitution(P, pre, W, ex.pairs_seq, [(W.n, W.AS, "state.state.{}()"), (W.c, W.ACal, "calibration.{}()")])


def jacobian_statement(P, pre, rows, cols, cell, want_expr, rng_note=""):
    """cell(r, c) = (f"jacobian({r}, {c})", subs(diff(...), sigma)); returns the SubsExprV or None."""
    r, c = z3.Int("r_any"), z3.Int("c_any")
    el = cell(r, c)
    ok = isinstance(el, tuple) and len(el) == 2 and isinstance(el[0], FmtV) and isinstance(el[1], SubsExprV)
    P.oblige(f"{pre}.statement_shape", z3.BoolVal(ok), note="statement is not (f'jacobian({r}, {c})', diff(...).subs(...))")
    if not ok:
        return None
    tgt, ex = el
    parts = tgt.parts
    rng = z3.And(r >= 0, r < rows, c >= 0, c < cols)
    okt = len(parts) == 5 and parts[0] == "jacobian(" and parts[2] == ", " and parts[4] == ")"
    P.oblige(f"{pre}.target_is_the_cell_of_its_row_and_column", z3.Implies(rng, z3.And(to_int(parts[1]) == r, to_int(parts[3]) == c)) if okt else z3.BoolVal(False), note=f"target text parts {parts[0::2] if okt else parts}")
    P.oblige(f"{pre}.expression_is_the_partial_derivative_of_its_row_wrt_its_column", z3.Implies(rng, ex.base.z == want_expr(r, c)) if isinstance(ex.base, ExprV) else z3.BoolVal(False), theory="euf")
    # requires of BasicBlock.compile (premise of D-cse / D-simp / D-ccode): no unevaluated Derivative among the statements
    from pvc.sympy_model import closed_f

    P.oblige(f"{pre}.statements_in_closed_form", z3.Implies(rng, closed_f(ex.base.z)) if isinstance(ex.base, ExprV) else z3.BoolVal(False), theory="euf")
    return ex


class TranslateJacobian(Contract):
    """cpp.ExtendedKalmanFilter._translate_process_jacobian / _translate_control_jacobian (generators, two nested loops)
    ensures  yields rows x cols statements in row-major order; statement (r, c) = (f"jacobian({r}, {c})",
             subs(diff(state_model[AS[r]], X[c]), sigma)), X = AS (process) or AU (control); sigma the by-name accessor substitution."""

    assignable = ()  # the statement generators write nothing on the generator object

    def __init__(self, which):
        self.which = which
        self.key = f"formak.cpp:ExtendedKalmanFilter._translate_{which}_jacobian"
        self.prefix = f"C02.cxxgen.ExtendedKalmanFilter._translate_{which}_jacobian"

    def setup(self, I):
        W = GenWorld(I, True)
        I.path.ghost["site"] = self.prefix
        return Call([W.generator(I, "ExtendedKalmanFilter"), W.ui], {}, W=W)

    def post(self, I, call, outcome):
        from pvc.interp import Flat2Seq

        P, pre, W = I.path, self.prefix, call.W
        if outcome[0] == "raise" and outcome[1] == "ModelConstructionError" and P.ghost.get("no_closed_form"):
            return  # _partial_derivative's contract: a derivative sympy cannot give in closed form is refused, never generated
        if outcome[0] == "raise":
            P.oblige(f"{pre}.no_exception", z3.BoolVal(False), note=f"raises {outcome[1]}")
            return
        rv = outcome[1]
        seq = rv.seq if isinstance(rv, GenV) else rv
        ok = isinstance(seq, Flat2Seq)
        P.oblige(f"{pre}.yields_one_statement_per_cell_in_row_major_order", z3.BoolVal(ok), note=f"yielded value {type(seq).__name__}")
        if not ok:
            return
        cols, X = (W.n, W.AS) if self.which == "process" else (W.k, W.AU)
        P.oblige(f"{pre}.dimensions", z3.And(to_int(seq.rows) == W.n, to_int(seq.cols) == cols))
        ex = jacobian_statement(P, pre, W.n, cols, seq.cell, lambda r, c: diff_f(W.sm.get(W.AS(r)), X(c)))
        if ex is not None:
            check_substitution(P, pre, W, ex.pairs_seq, [(W.n, W.AS, "state.state.{}()"), (W.c, W.ACal, "calibration.{}()"), (W.k, W.AU, "control.{}()")])


class TranslateSensorJacobian(Contract):
    """cpp.ExtendedKalmanFilter._translate_sensor_jacobian_impl(sensor_model_mapping)
    ensures  statement (r, c) = (f"jacobian({r}, {c})", subs(diff(mapping[r-th reading in SORTED name order], AS[c]), sigma))."""

    assignable = ()  # the statement generators write nothing on the generator object

    key = "formak.cpp:ExtendedKalmanFilter._translate_sensor_jacobian_impl"
    prefix = "C02.cxxgen.ExtendedKalmanFilter._translate_sensor_jacobian_impl"

    def setup(self, I):
        W = GenWorld(I, True)
        P = I.path
        P.ghost["site"] = self.prefix
        mp = SDictV(P, "sensor_model_mapping", Str, Expr, StrV, ExprV)
        return Call([W.generator(I, "ExtendedKalmanFilter"), mp], {}, W=W, mp=mp)

    def post(self, I, call, outcome):
        from pvc.interp import Flat2Seq

        P, pre, W, mp = I.path, self.prefix, call.W, call.mp
        if outcome[0] == "raise" and outcome[1] == "ModelConstructionError" and P.ghost.get("no_closed_form"):
            return
        if outcome[0] == "raise":
            P.oblige(f"{pre}.no_exception", z3.BoolVal(False), note=f"raises {outcome[1]}")
            return
        rv = outcome[1]
        seq = rv.seq if isinstance(rv, GenV) else rv
        ok = isinstance(seq, Flat2Seq)
        P.oblige(f"{pre}.yields_one_statement_per_cell_in_row_major_order", z3.BoolVal(ok), note=f"yielded value {type(seq).__name__}")
        if not ok:
            return
        sk = mp.sorted_key_fn(P)
        P.oblige(f"{pre}.dimensions", z3.And(to_int(seq.rows) == mp.n, to_int(seq.cols) == W.n))
        ex = jacobian_statement(P, pre, mp.n, W.n, seq.cell, lambda r, c: diff_f(mp.get(sk(r)), W.AS(c)))
        if ex is not None:
            check_substitution(P, pre, W, ex.pairs_seq, [(W.n, W.AS, "state.state.{}()"), (W.c, W.ACal, "calibration.{}()")])


class TranslateSensorCovariance(Contract):
    """cpp.ExtendedKalmanFilter._translate_sensor_covariance_impl(covariance)
    ensures  yields rows x cols statements in row-major order; statement (i, j) = (f"covariance({i}, {j})", covariance.data[i, j])."""

    assignable = ()
    key = "formak.cpp:ExtendedKalmanFilter._translate_sensor_covariance_impl"
    prefix = "C02.cxxgen.ExtendedKalmanFilter._translate_sensor_covariance_impl"

    def setup(self, I):
        from pvc.sym import Mat, SMat

        W = GenWorld(I, True)
        P = I.path
        m = P.fresh_int("n_readings")
        P.assume(m >= 0)
        data = SMat(z3.Const("Q_data", Mat), shape=(SInt(m), SInt(m)), ident=object())
        cov = SObj("ReadingCovariance", {"shape": (SInt(m), SInt(m)), "data": data}, "covariance")
        return Call([W.generator(I, "ExtendedKalmanFilter"), cov], {}, W=W, m=m, data=data)

    def post(self, I, call, outcome):
        from pvc.interp import Flat2Seq
        from pvc.sym import to_real

        P, pre, m = I.path, self.prefix, call.m
        if outcome[0] == "raise":
            P.oblige(f"{pre}.no_exception", z3.BoolVal(False), note=f"raises {outcome[1]}")
            return
        rv = outcome[1]
        seq = rv.seq if isinstance(rv, GenV) else rv
        ok = isinstance(seq, Flat2Seq)
        P.oblige(f"{pre}.yields_one_statement_per_cell_in_row_major_order", z3.BoolVal(ok), note=f"yielded value {type(seq).__name__}")
        if not ok:
            return
        P.oblige(f"{pre}.dimensions", z3.And(to_int(seq.rows) == m, to_int(seq.cols) == m))
        r, c = z3.Int("r_any"), z3.Int("c_any")
        el = seq.cell(r, c)
        okc = isinstance(el, tuple) and len(el) == 2 and isinstance(el[0], FmtV)
        P.oblige(f"{pre}.statement_shape", z3.BoolVal(okc))
        if not okc:
            return
        parts = el[0].parts
        skel = "".join(p if isinstance(p, str) else "{}" for p in parts)
        holes = [p for p in parts if not isinstance(p, str)]
        rng = z3.And(r >= 0, r < m, c >= 0, c < m)
        P.oblige(f"{pre}.target_is_the_cell_of_its_row_and_column", z3.Implies(rng, z3.And(to_int(holes[0]) == r, to_int(holes[1]) == c)) if skel == "covariance({}, {})" and len(holes) == 2 else z3.BoolVal(False), note=f"target text {skel}")
        try:
            val = to_real(el[1])
            P.oblige(f"{pre}.value_is_the_noise_matrix_entry", z3.Implies(rng, val == call.data.el(r, c)))
        except Exception:
            P.oblige(f"{pre}.value_is_the_noise_matrix_entry", z3.BoolVal(False), note="statement value is not a number")


class TranslateControlCovariance(Contract):
    """cpp.ExtendedKalmanFilter._translate_control_covariance(covariance)
    requires the process noise is given per control by name (Symbol keys only, the form the validation accepts: no (a, b) pair keys).
    ensures  for every (i, j): the statement for cell (i, j) is emitted with value noise[AU[i]] when i = j and it is given, else 0;
             when i != j a second statement assigns the mirrored cell (j, i) the same value (0) - so every cell is assigned and every
             assignment to a cell carries that cell's specified value, whatever the emission order."""

    assignable = ()
    key = "formak.cpp:ExtendedKalmanFilter._translate_control_covariance"
    prefix = "C02.cxxgen.ExtendedKalmanFilter._translate_control_covariance"

    def setup(self, I):
        from pvc.symtheory import real_wrap

        W = GenWorld(I, True)
        P = I.path
        cov = SDictV(P, "process_noise", Sym, z3.RealSort(), SymV, real_wrap)
        return Call([W.generator(I, "ExtendedKalmanFilter"), cov], {}, W=W, cov=cov)

    def post(self, I, call, outcome):
        from pvc.interp import Flat2Seq, NestedYields
        from pvc.sym import to_bool, to_real

        P, pre, W, cov = I.path, self.prefix, call.W, call.cov
        if outcome[0] == "raise":
            P.oblige(f"{pre}.no_exception", z3.BoolVal(False), note=f"raises {outcome[1]}")
            return
        rv = outcome[1]
        seq = rv.seq if isinstance(rv, GenV) else rv
        ok = isinstance(seq, (NestedYields, Flat2Seq))
        P.oblige(f"{pre}.yields_per_cell_statements", z3.BoolVal(ok), note=f"yielded value {type(seq).__name__}")
        if not ok:
            return
        k = W.k
        P.oblige(f"{pre}.dimensions", z3.And(to_int(seq.rows) == k, to_int(seq.cols) == k))
        ys = seq.yields if isinstance(seq, NestedYields) else [(seq.cell, lambda i, j: True)]
        i, j = z3.Int("i_any"), z3.Int("j_any")
        rng = z3.And(i >= 0, i < k, j >= 0, j < k)
        spec = lambda r, c: z3.If(z3.And(r == c, cov.has(W.AU(r))), cov.get(W.AU(r)), z3.RealVal(0))
        covered = []
        for n_y, (val, guard) in enumerate(ys):
            el = val(i, j)
            g = guard(i, j)
            gz = to_bool(g) if not isinstance(g, bool) else z3.BoolVal(g)
            okc = isinstance(el, tuple) and len(el) == 2 and isinstance(el[0], FmtV)
            if not okc:
                P.oblige(f"{pre}.statement{n_y}_shape", z3.BoolVal(False))
                continue
            parts = el[0].parts
            skel = "".join(p if isinstance(p, str) else "{}" for p in parts)
            holes = [p for p in parts if not isinstance(p, str)]
            if skel != "covariance({}, {})" or len(holes) != 2:
                P.oblige(f"{pre}.statement{n_y}_shape", z3.BoolVal(False), note=f"target text {skel}")
                continue
            r, c = to_int(holes[0]), to_int(holes[1])
            try:
                v = to_real(el[1])
            except Exception:
                P.oblige(f"{pre}.statement{n_y}_shape", z3.BoolVal(False), note="value is not a number")
                continue
            P.oblige(f"{pre}.statement{n_y}_targets_a_cell_of_the_matrix", z3.Implies(z3.And(rng, gz), z3.And(r >= 0, r < k, c >= 0, c < k)))
            P.oblige(f"{pre}.statement{n_y}_carries_the_value_specified_for_its_cell", z3.Implies(z3.And(rng, gz), v == spec(r, c)), note="value = noise of the control NAMED for the row when on the diagonal, 0 elsewhere")
            covered.append((gz, r, c))
        # every cell (i, j) is assigned by some statement at some iteration: statement 0 at iteration (i, j) is unconditional
        if covered:
            g0, r0, c0 = covered[0]
            P.oblige(f"{pre}.every_cell_is_assigned", z3.Implies(rng, z3.And(g0, r0 == i, c0 == j)))


class RealPartial(Contract):
    """cpp._partial_derivative(model, symbol)
    requires model an expression, symbol a symbol, both existing before the call (D-dummy).
    ensures  raises nothing but ModelConstructionError; on return the result is diff(model, symbol) - the SPEC derivative of the
             real function - and is in closed form.  (Same body as python._jacobian on a 1x1 matrix; same renaming theory.)"""

    key = "formak.cpp:_partial_derivative"
    prefix = "C02.cxxgen._partial_derivative"

    def setup(self, I):
        from pvc.sympy_model import dummy_axioms, dummy_free_f, is_dummy

        P = I.path
        P.ghost["site"] = self.prefix
        install_sympy_models(I, None)
        e, x = z3.Const("model_expr", Expr), z3.Const("wrt_symbol", Sym)
        dummy_axioms(P)
        P.facts.append(dummy_free_f(e))
        P.facts.append(z3.Not(is_dummy(x)))
        return Call([ExprV(e), SymV(x)], {}, e=e, x=x)

    def post(self, I, call, outcome):
        from pvc.sympy_model import closed_f

        P, pre = I.path, self.prefix
        if outcome[0] == "raise":
            P.oblige(f"{pre}.only_modelconstructionerror", z3.BoolVal(outcome[1] == "ModelConstructionError"), note=f"raises {outcome[1]}")
            return
        res = outcome[1]
        ok = isinstance(res, ExprV)
        P.oblige(f"{pre}.returns_expression", z3.BoolVal(ok))
        if ok:
            P.oblige(f"{pre}.result_in_closed_form", closed_f(res.z), theory="euf")
            P.oblige(f"{pre}.result_is_the_real_partial_derivative", res.z == diff_f(call.e, call.x), theory="euf")

    def apply(self, I, args, kwargs):
        from pvc.sympy_model import closed_f

        e, x = args[0], args[1]
        if not (isinstance(e, ExprV) and isinstance(x, SymV)):
            raise Unsupported("_partial_derivative arguments")
        d = diff_f(e.z, x.z)
        I.path.ghost.setdefault("no_closed_form", []).append(z3.Not(closed_f(d)))
        I.raise_if(z3.Not(closed_f(d)), "ModelConstructionError")
        return ExprV(d)


def callees():
    return {RealPartial.key: RealPartial()}


def contracts():
    return [TranslateControlCovariance(), TranslateSensorCovariance(), TranslateStateModel(True), TranslateStateModel(False), TranslateSensorModel(), TranslateJacobian("process"), TranslateJacobian("control"), TranslateSensorJacobian()]
