"""Contracts on py/formak/python.py - model/filter objects, Jacobians (C03), prediction (C04),
update (C05), innovation filtering (C06).

Representation invariant `well-formed filter` (established by the constructors' contracts, assumed by
the methods' contracts):
  arglist_state / _calibration / _control : sequences of symbols AS (n), ACal (c), AU (k); all symbols of
      {dt} + AS + ACal + AU pairwise distinct (accepted models: disjoint sets, injective names);
  _state_model._impl            : BasicBlock(arglist = [dt]+AS+ACal+AU, exprs[i] = F(i) = state_model[AS[i]])
  _impl_process_jacobian        : BasicBlock(same arglist, exprs of length n*n, exprs[r*n+s] = diff(F(r), AS[s]))
  _impl_control_jacobian        : BasicBlock(same arglist, length n*k, exprs[r*k+s] = diff(F(r), AU[s]))
  sensor_models[key]            : SensorModel(readings R (m), _impl = BasicBlock(AS+ACal, exprs[i] = H(i)))
  _impl_sensor_jacobians[key]   : BasicBlock(AS+ACal, length m*(n+c), exprs[r*(n+c)+s] = diff(H(r), (AS+ACal)[s]))
  calibration_vector            : (c,1) array;  process_noise : (k,k) array; sensor_noises[key] : noise container

Ghost environment E: the method contracts build their symbolic inputs FROM an arbitrary environment E
(state.data[i] = lookup(E, AS[i]) ...); this is without loss of generality because the symbols are pairwise
distinct, and it lets every postcondition be stated by name: value = ev(expression, E).
"""
from __future__ import annotations

import z3

from contracts import common
from pvc.contract import Call, Contract
from pvc.interp import GenV, PyDict, Splat
from pvc.sym import Mat, PyRaise, SInt, SMat, SNum, SObj, SReal, SSeq, Unsupported, mat_el, to_int, to_real, wrap
from pvc.symtheory import Env, Expr, ExprV, Str, StrV, Sym, SymV, diff_f, ev_f, lookup_f, name_f
from pvc.sympy_model import closed_f

# ------------------------------------------------------------------------------------------------
# BasicBlock.execute (caller side): D-lam + C01.3


class ExecuteApply(Contract):
    """BasicBlock.execute(*args):  requires len(args) = len(_arglist) and, for the caller's ghost environment E,
    args[i] = lookup(E, _arglist[i]) for every i (positional alignment - an obligation at every call site);
    ensures it yields len(_exprs) values, value j = ev(_exprs[j], E)."""

    key = "formak.python:BasicBlock.execute"

    def apply(self, I, args, kwargs):
        from pvc.np_model import scalar_of

        P = I.path
        blk = args[0]
        pos = I.pack_varargs(list(args[1:]))
        if isinstance(pos, tuple):
            pos = SSeq.from_list(list(pos))
        arglist = blk.fields["_arglist"]
        exprs = blk.fields["_exprs"]
        E = P.ghost.get("env")
        if E is None:
            raise Unsupported("execute called without a ghost environment")
        site = P.ghost.get("site", "execute")
        P.oblige(f"{site}.execute.arity", pos.len_z() == arglist.len_z())
        i = P.fresh_int("ai")
        a = scalar_of(pos.at(i))
        P.oblige(f"{site}.execute.positional_alignment", z3.Implies(z3.And(i >= 0, i < arglist.len_z(), i < pos.len_z()), to_real(a) == lookup_f(E, arglist.at(i).z)))
        return GenV(SSeq(exprs.length, lambda j: SReal(ev_f(exprs.at(j).z, E)), "execute"))


# ------------------------------------------------------------------------------------------------
# symbolic well-formed objects


class ModelShape:
    """Symbolic model: symbol lists and expressions, plus the ghost environment."""

    def __init__(self, I, with_sensor=True):
        P = I.path
        self.n = P.fresh_int("n_state")
        self.c = P.fresh_int("n_calibration")
        self.k = P.fresh_int("n_control")
        self.m = P.fresh_int("n_readings")
        P.assume(z3.And(self.n >= 0, self.c >= 0, self.k >= 0, self.m >= 1))
        self.AS_f = z3.Function("AS", z3.IntSort(), Sym)
        self.ACal_f = z3.Function("ACal", z3.IntSort(), Sym)
        self.AU_f = z3.Function("AU", z3.IntSort(), Sym)
        self.R_f = z3.Function("Rd", z3.IntSort(), Str)
        self.dt_sym = z3.Const("dt_sym", Sym)
        self.F = z3.Function("F", z3.IntSort(), Expr)  # state_model[AS[i]]
        self.H = z3.Function("H", z3.IntSort(), Expr)  # sensor_model[R[i]]
        self.E = z3.Const("E", Env)
        self.AS = self.seq(self.n, self.AS_f, "arglist_state")
        self.ACal = self.seq(self.c, self.ACal_f, "arglist_calibration")
        self.AU = self.seq(self.k, self.AU_f, "arglist_control")
        self.R = SSeq(SInt(self.m), lambda i: StrV(self.R_f(i)), "readings")
        self.R.pvc_type = "list"
        self.arglist = SSeq.from_list([SymV(self.dt_sym)]).concat(self.AS).concat(self.ACal).concat(self.AU)
        self.arglist.pvc_type = "list"
        self.arglist_sensor = self.AS.concat(self.ACal)
        self.arglist_sensor.pvc_type = "list"
        P.ghost["env"] = self.E
        # accepted models: names pairwise distinct within each symbol class (sympy symbols are identified by name)
        a, b = z3.Int("na"), z3.Int("nb")
        for f, cnt in ((self.AS_f, self.n), (self.ACal_f, self.c), (self.AU_f, self.k)):
            P.facts.append(z3.ForAll([a, b], z3.Implies(z3.And(a >= 0, a < cnt, b >= 0, b < cnt, a != b), name_f(f(a)) != name_f(f(b)))))
        P.facts.append(z3.ForAll([a, b], z3.Implies(z3.And(a >= 0, a < self.m, b >= 0, b < self.m, a != b), self.R_f(a) != self.R_f(b))))

    def seq(self, n, f, tag):
        s = SSeq(SInt(n), lambda i: SymV(f(i)), tag)
        s.pvc_type = "list"
        return s

    def X(self, s):
        """(AS + ACal)[s] as a z3 term."""
        return z3.If(s < self.n, self.AS_f(s), self.ACal_f(s - self.n))


def make_block(I, arglist, exprs, tag):
    mod = I.load_module("formak.python")
    cls = I.module_attr(mod, "BasicBlock")
    return SObj(cls, {"_arglist": arglist, "_exprs": exprs, "_config": None}, tag)


class FilterWorld:
    """A symbolic well-formed ExtendedKalmanFilter with one generic sensor key."""

    def __init__(self, I):
        P = I.path
        self.I = I
        self.ms = ms = ModelShape(I)
        mod = I.load_module("formak.python")
        n, c, k, m = ms.n, ms.c, ms.k, ms.m
        self.State = common.make_named_class(I, "vector", "State", ms.AS)
        self.Covariance = common.make_named_class(I, "covariance", "Covariance", ms.AS)
        self.Control = common.make_named_class(I, "vector", "Control", ms.AU)
        self.Calibration = common.make_named_class(I, "vector", "Calibration", ms.ACal)
        self.Reading = common.make_named_class(I, "vector", "Reading", ms.R)
        E = ms.E
        # flattened Jacobian programs (facts instantiated on demand via the *_fact methods)
        self.pj = z3.Function("flat_process_jacobian", z3.IntSort(), Expr)
        self.cj = z3.Function("flat_control_jacobian", z3.IntSort(), Expr)
        self.sj = z3.Function("flat_sensor_jacobian", z3.IntSort(), Expr)
        exprs_model = SSeq(SInt(n), lambda i: ExprV(ms.F(i)), "state_model")
        self.model_block = make_block(I, ms.arglist, exprs_model, "model_block")
        ModelCls = I.module_attr(mod, "Model")
        self.calibration_vector = SMat(z3.Const("calibration_vector", Mat), cells=lambda i, j: lookup_f(E, ms.ACal_f(i)), shape=(SInt(c), 1), ident=object())
        self.state_model = SObj(
            ModelCls,
            {
                "state_size": SInt(n),
                "calibration_size": SInt(c),
                "control_size": SInt(k),
                "arglist_state": ms.AS,
                "arglist_calibration": ms.ACal,
                "arglist_control": ms.AU,
                "arglist": ms.arglist,
                "State": self.State,
                "Control": self.Control,
                "Calibration": self.Calibration,
                "calibration_vector": self.calibration_vector,
                "_impl": self.model_block,
            },
            "state_model",
        )
        self.pj_block = make_block(I, ms.arglist, SSeq(wrap(z3.simplify(n * n)), lambda q: ExprV(self.pj(q)), "pj"), "pj_block")
        self.cj_block = make_block(I, ms.arglist, SSeq(wrap(z3.simplify(n * k)), lambda q: ExprV(self.cj(q)), "cj"), "cj_block")
        self.sj_block = make_block(I, ms.arglist_sensor, SSeq(wrap(z3.simplify(m * (n + c))), lambda q: ExprV(self.sj(q)), "sj"), "sj_block")
        SMCls = I.module_attr(mod, "SensorModel")
        self.sensor_block = make_block(I, ms.arglist_sensor, SSeq(SInt(m), lambda i: ExprV(ms.H(i)), "sensor_model"), "sensor_block")
        self.sensor_key = StrV(z3.Const("sensor_key", Str))
        self.sensor_model = SObj(
            SMCls,
            {
                "readings": ms.R,
                "sensor_size": SInt(m),
                "state_size": SInt(n),
                "calibration_size": SInt(c),
                "arglist_state": ms.AS,
                "arglist_calibration": ms.ACal,
                "arglist": ms.arglist_sensor,
                "State": self.State,
                "Covariance": self.Covariance,
                "Calibration": self.Calibration,
                "Reading": self.Reading,
                "calibration_vector": self.calibration_vector,
                "_impl": self.sensor_block,
                "sensor_models": OneKeyDict(None, None, "sensor_models_inner"),
            },
            "sensor_model",
        )
        EkfCls = I.module_attr(mod, "ExtendedKalmanFilter")
        self.process_noise = SMat(z3.Const("process_noise", Mat), shape=(SInt(k), SInt(k)), ident=object())
        self.Q = SMat(z3.Const("Q_sensor", Mat), shape=(SInt(m), SInt(m)), ident=object())
        self.noise_obj = SObj("ReadingCovariance", {"data": self.Q}, "sensor_noise")
        self.config = SObj("Config", {"innovation_filtering": None, "max_dt_sec": SReal(z3.Real("max_dt_sec"))}, "config")
        self.innovations = RecDict("innovations")
        self.spu = RecDict("sensor_prediction_uncertainty")
        self.ekf = SObj(
            EkfCls,
            {
                "config": self.config,
                "state_size": SInt(n),
                "control_size": SInt(k),
                "calibration_size": SInt(c),
                "arglist_state": ms.AS,
                "arglist_control": ms.AU,
                "arglist_calibration": ms.ACal,
                "arglist_sensor": ms.arglist_sensor,
                "State": self.State,
                "Covariance": self.Covariance,
                "Control": self.Control,
                "Calibration": self.Calibration,
                "calibration_map": None,
                "_state_model": self.state_model,
                "calibration_vector": self.calibration_vector,
                "process_noise": self.process_noise,
                "_impl_process_jacobian": self.pj_block,
                "_impl_control_jacobian": self.cj_block,
                "sensor_models": OneKeyDict(self.sensor_key, self.sensor_model, "sensor_models"),
                "sensor_noises": OneKeyDict(self.sensor_key, self.noise_obj, "sensor_noises"),
                "_impl_sensor_jacobians": OneKeyDict(self.sensor_key, self.sj_block, "_impl_sensor_jacobians"),
                "innovations": self.innovations,
                "sensor_prediction_uncertainty": self.spu,
            },
            "ekf",
        )
        self.old_fields = dict(self.ekf.fields)
        # contents of the filter's own arrays (in-place updates through an alias keep the identity but change the term)
        self.mat_snap = {nm: (m, m.term) for nm, m in (("calibration_vector", self.calibration_vector), ("process_noise", self.process_noise), ("sensor_noise", self.Q)) if isinstance(m, SMat)}

    # inputs built from the ghost environment -------------------------------------------------
    def state(self, tag="state"):
        ms = self.ms
        return common.make_named_instance(self.I, self.State, tag, cells=lambda i, j: lookup_f(ms.E, ms.AS_f(i)))

    def control(self, tag="control"):
        ms = self.ms
        return common.make_named_instance(self.I, self.Control, tag, cells=lambda i, j: lookup_f(ms.E, ms.AU_f(i)))

    def covariance(self, tag="covariance"):
        return common.make_named_instance(self.I, self.Covariance, tag)

    def dt(self):
        return SReal(lookup_f(self.ms.E, self.ms.dt_sym))

    # representation-invariant facts, instantiated at given indices ----------------------------
    def pj_fact(self, r, s):
        ms = self.ms
        return z3.Implies(z3.And(r >= 0, r < ms.n, s >= 0, s < ms.n), self.pj(r * ms.n + s) == diff_f(ms.F(r), ms.AS_f(s)))

    def cj_fact(self, r, s):
        ms = self.ms
        return z3.Implies(z3.And(r >= 0, r < ms.n, s >= 0, s < ms.k), self.cj(r * ms.k + s) == diff_f(ms.F(r), ms.AU_f(s)))

    def sj_fact(self, r, s):
        ms = self.ms
        w = ms.n + ms.c
        return z3.Implies(z3.And(r >= 0, r < ms.m, s >= 0, s < w), self.sj(r * w + s) == diff_f(ms.H(r), ms.X(s)))

    def frame_unchanged(self, P, prefix, except_=()):
        for f, v in self.old_fields.items():
            if f in except_:
                continue
            P.oblige(f"{prefix}.frame.self.{f}", z3.BoolVal(self.ekf.fields.get(f) is v))
        for nm, (m, t0) in getattr(self, "mat_snap", {}).items():
            P.oblige(f"{prefix}.frame.self.{nm}_contents", z3.BoolVal(z3.eq(m.term, t0)), note=f"the filter's {nm} array was modified in place")
        new = sorted(set(self.ekf.fields) - set(self.old_fields) - set(except_))
        P.oblige(f"{prefix}.frame.self.no_new_attributes", z3.BoolVal(not new), note=f"the call stored new attributes on the filter: {new}")


class OneKeyDict:
    """A dict object observed through one generic key (per-call reasoning concerns one sensor key)."""

    pvc_type = "dict"

    def __init__(self, key, value, tag):
        self.key, self.value, self.tag = key, value, tag

    def pvc_getitem(self, I, k):
        if self.key is None:
            raise Unsupported(f"lookup in {self.tag}")
        from pvc.sym import to_bool

        eq = I.equals(k, self.key)
        if eq is not True:
            I.raise_if(z3.Not(to_bool(eq)), "KeyError")
        return self.value


class RecDict:
    """Dict that is only written (innovations / sensor_prediction_uncertainty): records the stores."""

    pvc_type = "dict"

    def __init__(self, tag):
        self.tag = tag
        self.writes = []

    def pvc_setitem(self, I, k, v):
        if I.merge_depth:
            raise Unsupported("dict store in summarised loop")
        self.writes.append((k, v))


# ------------------------------------------------------------------------------------------------
# C03: Jacobians


class JacobianContract(Contract):
    """process_jacobian / control_jacobian / sensor_jacobian.
    ensures  never raises; result has shape (rows x cols) and, by name,
             result[r, s] = ev(diff(output r, variable s), E)   (E: the named inputs)
    frame    self.*, state, control unchanged."""

    assignable = ()  # frame: attributes of self the method may write

    def __init__(self, which):
        self.which = which
        self.key = f"formak.python:ExtendedKalmanFilter.{which}"
        self.prefix = f"C03.py.{which}"

    def setup(self, I):
        W = FilterWorld(I)
        I.path.ghost["site"] = self.prefix
        st = W.state()
        if self.which == "sensor_jacobian":
            args = [W.ekf, W.sensor_key, st]
        else:
            args = [W.ekf, W.dt(), st, W.control()]
        return Call(args, {}, W=W, state=st, state_data=st.fields["data"])

    def post(self, I, call, outcome):
        P = I.path
        W, ms, pre = call.W, call.W.ms, self.prefix
        if outcome[0] == "raise":
            P.oblige(f"{pre}.no_exception", z3.BoolVal(False), note=f"raises {outcome[1]}")
            return
        J = outcome[1]
        ok = isinstance(J, SMat)
        P.oblige(f"{pre}.result_is_array", z3.BoolVal(ok))
        if not ok:
            return
        r, s = z3.Int("r_any"), z3.Int("s_any")
        if self.which == "process_jacobian":
            rows, cols = ms.n, ms.n
            P.define(W.pj_fact(r, s), "representation invariant of the filter object (flattened Jacobian program), instantiated at the goal cell")
            want = ev_f(diff_f(ms.F(r), ms.AS_f(s)), ms.E)
        elif self.which == "control_jacobian":
            rows, cols = ms.n, ms.k
            P.define(W.cj_fact(r, s), "representation invariant of the filter object (flattened Jacobian program), instantiated at the goal cell")
            want = ev_f(diff_f(ms.F(r), ms.AU_f(s)), ms.E)
        else:
            rows, cols = ms.m, ms.n
            P.define(W.sj_fact(r, s), "representation invariant of the filter object (flattened Jacobian program), instantiated at the goal cell")
            want = ev_f(diff_f(ms.H(r), ms.AS_f(s)), ms.E)
        P.oblige(f"{pre}.shape", z3.And(to_int(J.rows()) == rows, to_int(J.cols()) == cols))
        P.oblige(f"{pre}.index", z3.Implies(z3.And(r >= 0, r < rows, s >= 0, s < cols), J.el(r, s) == want), theory="interp")
        W.frame_unchanged(P, pre)
        P.oblige(f"{pre}.frame.state", z3.BoolVal(call.state.fields["data"] is call.state_data))


def jacobian_contracts():
    return [JacobianContract(w) for w in ("process_jacobian", "control_jacobian", "sensor_jacobian")]


def callees():
    c = dict(common.COMMON_APPLY)
    c[ExecuteApply.key] = ExecuteApply()
    return c


# ------------------------------------------------------------------------------------------------
# C13: make_reading


class MakeReading(Contract):
    """ExtendedKalmanFilter.make_reading(key, *, data=None, **kwargs)
    ensures  no keywords and data given: raises ValueError <=> data.shape != (m,1), else a Reading whose .data IS data;
             otherwise: Reading(**kwargs): TypeError <=> unknown reading name, else each supplied value in the slot of
             its reading name, zero elsewhere.  KeyError <=> key is not a sensor of the filter.  frame: nothing."""

    assignable = ()  # frame: attributes of self the method may write

    key = "formak.python:ExtendedKalmanFilter.make_reading"

    def __init__(self, data_mode):
        self.data_mode = data_mode
        self.prefix = f"C13.py.make_reading[data_{data_mode}]"

    def setup(self, I):
        from pvc.symtheory import SDictV, real_wrap

        W = FilterWorld(I)
        P = I.path
        P.ghost["site"] = self.prefix
        kwargs = SDictV(P, "kwargs", Str, z3.RealSort(), StrV, real_wrap)
        data = None
        if self.data_mode == "given":
            data = SMat(z3.Const("data_in", Mat), shape=(SInt(P.fresh_int("dr")), SInt(P.fresh_int("dc"))), ident=object())
        key = StrV(z3.Const("key_arg", Str))
        return Call([W.ekf, key], {"data": data, "**": [kwargs]}, W=W, kw=kwargs, data=data, key=key)

    def post(self, I, call, outcome):
        P = I.path
        W, ms, pre, kw, data = call.W, call.W.ms, self.prefix, call.kw, call.data
        known_key = call.key.z == W.sensor_key.z
        k = z3.Const("k_any", Str)
        j = z3.Int("j_any")
        unknown_kw = z3.Exists([k], z3.And(kw.has(k), z3.ForAll([j], z3.Implies(z3.And(j >= 0, j < ms.m), ms.R_f(j) != k))))
        use_data = z3.And(kw.n == 0, z3.BoolVal(data is not None))
        bad_shape = z3.BoolVal(False) if data is None else z3.Or(to_int(data.rows()) != ms.m, to_int(data.cols()) != 1)
        if outcome[0] == "raise":
            e = outcome[1]
            if e == "KeyError":
                P.oblige(f"{pre}.unknown_sensor.raises_only_if", z3.Not(known_key))
            elif e == "ValueError":
                P.oblige(f"{pre}.wrong_shape.raises_only_if", z3.And(known_key, use_data, bad_shape))
            elif e == "TypeError":
                P.oblige(f"{pre}.unknown_name.raises_only_if", z3.And(known_key, z3.Not(use_data), unknown_kw))
            else:
                P.oblige(f"{pre}.no_other_exception", z3.BoolVal(False), note=f"raises {e}")
            return
        P.oblige(f"{pre}.unknown_sensor.raises_if", known_key)
        P.oblige(f"{pre}.wrong_shape.raises_if", z3.Not(z3.And(use_data, bad_shape)))
        P.oblige(f"{pre}.unknown_name.raises_if", z3.Or(use_data, z3.Not(unknown_kw)))
        rv = outcome[1]
        ok = isinstance(rv, SObj) and rv.cls is W.Reading and isinstance(rv.fields.get("data"), SMat)
        P.oblige(f"{pre}.is_reading", z3.BoolVal(ok))
        if ok:
            d = rv.fields["data"]
            r = z3.Int("r_any")
            if data is not None:
                P.oblige(f"{pre}.data_is_argument", z3.Implies(use_data, z3.BoolVal(d is data)))
            P.oblige(f"{pre}.slot_by_name", z3.Implies(z3.And(z3.Not(use_data), r >= 0, r < ms.m), z3.And(to_int(d.rows()) == ms.m, to_int(d.cols()) == 1, d.el(r, 0) == z3.If(kw.has(ms.R_f(r)), kw.get(ms.R_f(r)), z3.RealVal(0)))))
        W.frame_unchanged(P, pre)


# ------------------------------------------------------------------------------------------------
# caller-side forms of the by-name contracts


def oblige_alignment(I, site, what, data, sym_at, n):
    """Precondition of the by-name contracts: the named input is the environment's value for each symbol."""
    P = I.path
    i = P.fresh_int("al")
    E = P.ghost["env"]
    P.oblige(f"{site}.pre.{what}_is_env", z3.Implies(z3.And(i >= 0, i < n), data.el(i, 0) == lookup_f(E, sym_at(i))))


def world_of(I):
    W = I.path.ghost.get("world")
    if W is None:
        raise Unsupported("filter method called outside a FilterWorld")
    return W


def jacobian_apply(which):
    def apply(self, I, args, kwargs):
        W = world_of(I)
        ms = W.ms
        site = I.path.ghost.get("site", "call")
        E = ms.E
        if which == "sensor_jacobian":
            ekf, key, state = args
            eq = I.equals(key, W.sensor_key)
            if eq is not True:
                from pvc.sym import to_bool

                I.raise_if(z3.Not(to_bool(eq)), "KeyError")
        else:
            ekf, dt, state, control = args
            I.path.oblige(f"{site}.pre.{which}.dt_is_env", to_real(dt) == lookup_f(E, ms.dt_sym))
            oblige_alignment(I, f"{site}.pre.{which}", "control", control.fields["data"], ms.AU_f, ms.k)
        oblige_alignment(I, f"{site}.pre.{which}", "state", state.fields["data"], ms.AS_f, ms.n)
        if which == "process_jacobian":
            rows, cols, cell = ms.n, ms.n, (lambda r, s: ev_f(diff_f(ms.F(r), ms.AS_f(s)), E))
        elif which == "control_jacobian":
            rows, cols, cell = ms.n, ms.k, (lambda r, s: ev_f(diff_f(ms.F(r), ms.AU_f(s)), E))
        else:
            rows, cols, cell = ms.m, ms.n, (lambda r, s: ev_f(diff_f(ms.H(r), ms.AS_f(s)), E))
        term = z3.Const(I.path.names.fresh({"process_jacobian": "G", "control_jacobian": "V", "sensor_jacobian": "H"}[which]), Mat)
        I.path.ghost.setdefault("jacobians", {}).setdefault(which, []).append(term)
        return SMat(term, cells=cell, shape=(SInt(rows), SInt(cols)), ident=object())

    return apply


for _w in ("process_jacobian", "control_jacobian", "sensor_jacobian"):
    pass
JacobianContract.apply = lambda self, I, args, kwargs: jacobian_apply(self.which)(self, I, args, kwargs)


class ModelModel(Contract):
    """Model.model(dt, state, control=None)   [C01 obligation 4]
    ensures  raises TypeError <=> control is None and control_size > 0; otherwise a State whose slot of every state
             symbol s holds ev(state_model[s], E) for the environment E of the named inputs (dt, state, frozen calibration,
             control; control None = zero control); frame: nothing."""

    assignable = ()  # frame: attributes of self the method may write

    key = "formak.python:Model.model"

    def __init__(self, control_none=False):
        self.control_none = control_none
        self.prefix = f"C01.py.Model.model[control_{'none' if control_none else 'given'}]"

    def setup(self, I):
        W = FilterWorld(I)
        I.path.ghost["world"] = W
        I.path.ghost["site"] = self.prefix
        st = W.state()
        ctl = None if self.control_none else W.control()
        if self.control_none:
            # control None stands for the zero control: the environment gives 0 to every control symbol
            j = z3.Int("jz")
            I.path.facts.append(z3.ForAll([j], z3.Implies(z3.And(j >= 0, j < W.ms.k), lookup_f(W.ms.E, W.ms.AU_f(j)) == 0)))
        return Call([W.state_model, W.dt(), st, ctl], {}, W=W, state=st, state_data=st.fields["data"], old=dict(W.state_model.fields))

    def post(self, I, call, outcome):
        P = I.path
        W, ms, pre = call.W, call.W.ms, self.prefix
        must_refuse = z3.And(z3.BoolVal(self.control_none), ms.k > 0)
        if outcome[0] == "raise":
            P.oblige(f"{pre}.control_required.only_typeerror", z3.BoolVal(outcome[1] == "TypeError"), note=f"raises {outcome[1]}")
            P.oblige(f"{pre}.control_required.raises_only_if", must_refuse)
            return
        P.oblige(f"{pre}.control_required.raises_if", z3.Not(must_refuse))
        rv = outcome[1]
        ok = isinstance(rv, SObj) and rv.cls is W.State and isinstance(rv.fields.get("data"), SMat)
        P.oblige(f"{pre}.result_is_state", z3.BoolVal(ok))
        if ok:
            d = rv.fields["data"]
            i = z3.Int("i_any")
            P.oblige(f"{pre}.shape", z3.And(to_int(d.rows()) == ms.n, to_int(d.cols()) == 1))
            P.oblige(f"{pre}.by_name", z3.Implies(z3.And(i >= 0, i < ms.n), d.el(i, 0) == ev_f(ms.F(i), ms.E)))
        for f, v in call.old.items():
            P.oblige(f"{pre}.frame.self.{f}", z3.BoolVal(W.state_model.fields.get(f) is v))
        P.oblige(f"{pre}.frame.state", z3.BoolVal(call.state.fields["data"] is call.state_data))

    def apply(self, I, args, kwargs):
        W = world_of(I)
        ms = W.ms
        site = I.path.ghost.get("site", "call")
        mdl, dt, state = args[0], args[1], args[2]
        control = args[3] if len(args) > 3 else kwargs.get("control")
        if control is None:
            I.raise_if(ms.k > 0, "TypeError")
            raise Unsupported("Model.model with control=None at a call site")
        I.path.oblige(f"{site}.pre.model.dt_is_env", to_real(dt) == lookup_f(ms.E, ms.dt_sym))
        oblige_alignment(I, f"{site}.pre.model", "state", state.fields["data"], ms.AS_f, ms.n)
        oblige_alignment(I, f"{site}.pre.model", "control", control.fields["data"], ms.AU_f, ms.k)
        return common.make_named_instance(I, W.State, "next_state", cells=lambda i, j: ev_f(ms.F(i), ms.E))


class SensorModelModel(Contract):
    """SensorModel.model(state_vector)
    ensures  a Reading whose slot i holds ev(sensor_model[readings[i]], E) (E: state by name + frozen calibration)."""

    assignable = ()  # frame: attributes of self the method may write

    key = "formak.python:SensorModel.model"
    prefix = "C05.py.SensorModel.model"

    def setup(self, I):
        W = FilterWorld(I)
        I.path.ghost["world"] = W
        I.path.ghost["site"] = self.prefix
        st = W.state()
        return Call([W.sensor_model, st], {}, W=W, state=st, state_data=st.fields["data"], old=dict(W.sensor_model.fields))

    def post(self, I, call, outcome):
        P = I.path
        W, ms, pre = call.W, call.W.ms, self.prefix
        if outcome[0] == "raise":
            P.oblige(f"{pre}.no_exception", z3.BoolVal(False), note=f"raises {outcome[1]}")
            return
        rv = outcome[1]
        ok = isinstance(rv, SObj) and rv.cls is W.Reading and isinstance(rv.fields.get("data"), SMat)
        P.oblige(f"{pre}.result_is_reading", z3.BoolVal(ok))
        if ok:
            d = rv.fields["data"]
            i = z3.Int("i_any")
            P.oblige(f"{pre}.shape", z3.And(to_int(d.rows()) == ms.m, to_int(d.cols()) == 1))
            P.oblige(f"{pre}.by_name", z3.Implies(z3.And(i >= 0, i < ms.m), d.el(i, 0) == ev_f(ms.H(i), ms.E)))
        for f, v in call.old.items():
            P.oblige(f"{pre}.frame.self.{f}", z3.BoolVal(W.sensor_model.fields.get(f) is v))
        P.oblige(f"{pre}.frame.state", z3.BoolVal(call.state.fields["data"] is call.state_data))

    def apply(self, I, args, kwargs):
        W = world_of(I)
        ms = W.ms
        site = I.path.ghost.get("site", "call")
        oblige_alignment(I, f"{site}.pre.sensor_model_model", "state", args[1].fields["data"], ms.AS_f, ms.n)
        inst = common.make_named_instance(I, W.Reading, "expected_reading", cells=lambda i, j: ev_f(ms.H(i), ms.E))
        I.path.ghost.setdefault("expected_reading", []).append(inst.fields["data"].term)
        return inst


# ------------------------------------------------------------------------------------------------
# C06: innovation filtering;  C04: prediction;  C05: update

from contracts import gate  # noqa: E402
from pvc.models import sqrt_f  # noqa: E402
from pvc.np_model import SBoolArr  # noqa: E402
from pvc.sym import mat_add, mat_inv, mat_mm, mat_sub, mat_T, mm  # noqa: E402

nis_f = lambda nu, sinv: mat_el(mm(mm(mat_T(nu), sinv), nu), 0, 0)


def spec_predict_cov(G, P, V, M):
    """G P G^T + V M V^T"""
    return mat_add(mm(G, mm(P, mat_T(G))), mm(V, mm(M, mat_T(V))))


def spec_S(H, P, Q):
    """innovation covariance H P H^T + Q"""
    return mat_add(mm(H, mm(P, mat_T(H))), Q)


def spec_K(P, H, Sinv):
    """Kalman gain P H^T S^-1"""
    return mm(P, mm(mat_T(H), Sinv))


def spec_state(x, K, nu):
    return mat_add(x, mm(K, nu))


def spec_cov(P, K, H):
    return mat_sub(P, mm(K, mm(H, P)))


def threshold(k, m):
    """k * sqrt(2m) + m  (spec side; sqrt as the same uninterpreted function with its defining law)."""
    return k * sqrt_f(z3.ToReal(2 * m)) + z3.ToReal(m)


def psd_axioms(P):
    """Exact-arithmetic facts about symmetric PSD matrices (Lean/Mathlib lemmas, see lean/kalman_psd.lean) and
    'the gate accepts every exactly-PSD matrix' (consequence of the gate contract: lam_min >= 0, symmetric)."""
    X, Y, Z = z3.Const("X_", Mat), z3.Const("Y_", Mat), z3.Const("Z_", Mat)
    P.definitions.add("Lean/Mathlib: PosSemidef.mul_mul_conjTranspose_same, PosSemidef.add, Schur complement; gate accepts exact PSD")
    P.facts.append(z3.ForAll([X], z3.Implies(gate.psd(X), gate.gate_ok(X)), patterns=[gate.gate_ok(X)]))
    P.facts.append(z3.ForAll([X, Y], z3.Implies(gate.psd(Y), gate.psd(mat_mm(X, mat_mm(Y, mat_T(X))))), patterns=[mat_mm(X, mat_mm(Y, mat_T(X)))]))
    P.facts.append(z3.ForAll([X, Y], z3.Implies(z3.And(gate.psd(X), gate.psd(Y)), gate.psd(mat_add(X, Y))), patterns=[mat_add(X, Y)]))


def config_stub():
    """A python.Config as a constructor sees it: every field present, each with an arbitrary value of its type (CSE on or off, any
    threshold or none decided by the paths that ask, any maximum step, extra validation on or off, some modules object)."""
    from pvc.sym import SBool

    return SObj(
        "Config",
        {
            "common_subexpression_elimination": SBool(z3.Bool("config.common_subexpression_elimination")),
            "python_modules": SObj("PythonModules", {}, "config.python_modules"),
            "extra_validation": SBool(z3.Bool("config.extra_validation")),
            "max_dt_sec": SNum(z3.Real("config.max_dt_sec")),
            "innovation_filtering": SNum(z3.Real("config.innovation_filtering")),
        },
        "config",
    )


class RemoveInnovation(Contract):
    """ExtendedKalmanFilter.remove_innovation(innovation, S_inv)
    requires innovation is (m,1), S_inv is (m,m), m >= 1.
    ensures  the result is a scalar truth value, equal to
             (config.innovation_filtering is not None) and  nu^T S_inv nu  >  k*sqrt(2m) + m   (strictly);  frame: nothing."""

    assignable = ()  # frame: attributes of self the method may write

    key = "formak.python:ExtendedKalmanFilter.remove_innovation"

    def __init__(self, enabled=True):
        self.enabled = enabled
        self.prefix = f"C06.py.remove_innovation[{'enabled' if enabled else 'disabled'}]"

    def setup(self, I):
        W = FilterWorld(I)
        P = I.path
        P.ghost["world"] = W
        P.ghost["site"] = self.prefix
        k = None
        if self.enabled:
            k = P.fresh_real("editing_threshold")
            # a number of any Python class (Optional[float] admits 3, np.int64(3), np.float32(1.5)): class tests on it are unknowns
            W.config.fields["innovation_filtering"] = SNum(k)
        else:
            W.config.fields["innovation_filtering"] = None
        m = W.ms.m
        nu = SMat(z3.Const("innovation", Mat), shape=(SInt(m), 1), ident=object())
        sinv = SMat(z3.Const("S_inv", Mat), shape=(SInt(m), SInt(m)), ident=object())
        return Call([W.ekf, nu, sinv], {}, W=W, nu=nu, sinv=sinv, k=k)

    def post(self, I, call, outcome):
        P = I.path
        W, ms, pre = call.W, call.W.ms, self.prefix
        if outcome[0] == "raise":
            P.oblige(f"{pre}.no_exception", z3.BoolVal(False), note=f"raises {outcome[1]}")
            return
        rv = outcome[1]
        if not self.enabled:
            P.oblige(f"{pre}.disabled_never_discards", z3.BoolVal(rv is False))
            W.frame_unchanged(P, pre)
            return
        # scalar truth value
        if isinstance(rv, SBoolArr):
            P.oblige(f"{pre}.scalar_result", z3.And(to_int(rv.shape[0]) == 1, to_int(rv.shape[1]) == 1))
            val = rv.cells(z3.IntVal(0), z3.IntVal(0))
        elif isinstance(rv, bool):
            P.oblige(f"{pre}.scalar_result", z3.BoolVal(True))
            val = z3.BoolVal(rv)
        else:
            from pvc.sym import SBool

            P.oblige(f"{pre}.scalar_result", z3.BoolVal(isinstance(rv, SBool)))
            if not isinstance(rv, SBool):
                return
            val = rv.z
        sq = sqrt_f(z3.ToReal(2 * ms.m))
        P.define(z3.And(sq >= 0, sq * sq == z3.ToReal(2 * ms.m)), "sqrt law")
        want = nis_f(call.nu.term, call.sinv.term) > threshold(call.k, ms.m)
        P.oblige(f"{pre}.decision", val == want, theory="euf")
        W.frame_unchanged(P, pre)

    def apply(self, I, args, kwargs):
        W = world_of(I)
        nu, sinv = args[1], args[2]
        cfg = W.config.fields["innovation_filtering"]
        if cfg is None:
            return False
        m = W.ms.m
        sq = sqrt_f(z3.ToReal(2 * m))
        I.path.define(z3.And(sq >= 0, sq * sq == z3.ToReal(2 * m)), "sqrt law")
        return wrap(nis_f(nu.term, sinv.term) > threshold(to_real(cfg), m))


class ProcessModel(Contract):
    """ExtendedKalmanFilter.process_model(dt, state, covariance, control=None)      [C04]
    requires covariance.data and self.process_noise are valid covariances (exactly PSD).
    ensures  never raises;  result.state[s] = ev(state_model[s], E) for every state symbol s;
             result.covariance.data = G P G^T + V M V^T  with G, V the process / control Jacobians at the input and M = self.process_noise;
    frame    state, covariance, control, self.* unchanged (=> repeating the call gives the identical result)."""

    assignable = ()  # frame: attributes of self the method may write

    key = "formak.python:ExtendedKalmanFilter.process_model"

    def __init__(self, control_none=False):
        self.control_none = control_none
        self.prefix = f"C04.py.process_model[control_{'none' if control_none else 'given'}]"

    def setup(self, I):
        W = FilterWorld(I)
        P = I.path
        P.ghost["world"] = W
        P.ghost["site"] = self.prefix
        st, cov = W.state(), W.covariance()
        ctl = None if self.control_none else W.control()
        if self.control_none:
            j = z3.Int("jz")
            P.facts.append(z3.ForAll([j], z3.Implies(z3.And(j >= 0, j < W.ms.k), lookup_f(W.ms.E, W.ms.AU_f(j)) == 0)))
        psd_axioms(P)
        P.assume(gate.psd(cov.fields["data"].term))
        P.assume(gate.psd(W.process_noise.term))
        return Call([W.ekf, W.dt(), st, cov, ctl], {}, W=W, state=st, cov=cov, ctl=ctl, snap={"state": st.fields["data"], "cov": cov.fields["data"], "ctl": ctl.fields["data"] if ctl else None, "Pterm": cov.fields["data"].term})

    def post(self, I, call, outcome):
        P = I.path
        W, ms, pre = call.W, call.W.ms, self.prefix
        if outcome[0] == "raise":
            P.oblige(f"{pre}.no_exception", z3.BoolVal(False), note=f"raises {outcome[1]}")
            return
        rv = outcome[1]
        ok = isinstance(rv, tuple) and len(rv) == 2 and all(isinstance(x, SObj) for x in rv) and rv[0].cls is W.State and rv[1].cls is W.Covariance
        P.oblige(f"{pre}.result_shape", z3.BoolVal(ok))
        if ok:
            sd, cd = rv[0].fields["data"], rv[1].fields["data"]
            i, j = z3.Int("i_any"), z3.Int("j_any")
            P.oblige(f"{pre}.state", z3.Implies(z3.And(i >= 0, i < ms.n), sd.el(i, 0) == ev_f(ms.F(i), ms.E)))
            G = [t for t in I.path.ghost.get("jacobians", {}).get("process_jacobian", [])]
            V = [t for t in I.path.ghost.get("jacobians", {}).get("control_jacobian", [])]
            Pt, Mt = call.snap["Pterm"], W.process_noise.term
            if len(G) == 1 and len(V) == 1:
                spec = spec_predict_cov(G[0], Pt, V[0], Mt)
                P.oblige(f"{pre}.covariance", cd.term == spec, theory="euf")
            else:
                P.oblige(f"{pre}.covariance", z3.BoolVal(False), note="Jacobians not evaluated exactly once each at the input")
            P.oblige(f"{pre}.covariance_shape", z3.And(to_int(cd.rows()) == ms.n, to_int(cd.cols()) == ms.n))
        W.frame_unchanged(P, pre)
        P.oblige(f"{pre}.frame.state", z3.BoolVal(call.state.fields["data"] is call.snap["state"]))
        P.oblige(f"{pre}.frame.covariance", z3.And(z3.BoolVal(call.cov.fields["data"] is call.snap["cov"]), z3.BoolVal(z3.eq(call.snap["cov"].term, call.snap["Pterm"]))))
        if call.ctl is not None:
            P.oblige(f"{pre}.frame.control", z3.BoolVal(call.ctl.fields["data"] is call.snap["ctl"]))


class SensorUpdate(Contract):
    """ExtendedKalmanFilter.sensor_model(state, covariance, *, sensor_key, sensor_reading)      [C05, C06]
    requires covariance valid (exactly PSD), sensor noise Q valid, S invertible.
    ensures  records innovations[key] = z - h(x) and sensor_prediction_uncertainty[key] = S = H P H^T + Q first;
             if remove_innovation(z - h(x), S^-1): returns the SAME state and covariance objects;
             else x+ = x + K (z - h(x)),  P+ = P - K H P  with K = P H^T S^-1;
    frame    only those two dict entries of self; inputs untouched."""

    assignable = ('innovations', 'sensor_prediction_uncertainty')  # frame: attributes of self the method may write

    key = "formak.python:ExtendedKalmanFilter.sensor_model"

    def __init__(self, enabled=True):
        self.enabled = enabled
        self.prefix = f"C05.py.sensor_model[filtering_{'enabled' if enabled else 'disabled'}]"

    def setup(self, I):
        W = FilterWorld(I)
        P = I.path
        P.ghost["world"] = W
        P.ghost["site"] = self.prefix
        if self.enabled:
            W.config.fields["innovation_filtering"] = SNum(P.fresh_real("editing_threshold"))
        st, cov = W.state(), W.covariance()
        z = common.make_named_instance(I, W.Reading, "reading")
        psd_axioms(P)
        P.assume(gate.psd(cov.fields["data"].term))
        P.assume(gate.psd(W.Q.term))
        return Call([W.ekf, st, cov], {"sensor_key": W.sensor_key, "sensor_reading": z}, W=W, state=st, cov=cov, z=z, snap={"state": st.fields["data"], "cov": cov.fields["data"], "z": z.fields["data"], "Pterm": cov.fields["data"].term, "xterm": st.fields["data"].term, "zterm": z.fields["data"].term})

    def post(self, I, call, outcome):
        P = I.path
        W, ms, pre = call.W, call.W.ms, self.prefix
        if outcome[0] == "raise":
            P.oblige(f"{pre}.no_exception", z3.BoolVal(False), note=f"raises {outcome[1]}")
            return
        rv = outcome[1]
        Hs = I.path.ghost.get("jacobians", {}).get("sensor_jacobian", [])
        hx = I.path.ghost.get("expected_reading", [])
        if len(Hs) != 1 or len(hx) != 1:
            P.oblige(f"{pre}.evaluates_h_and_H_once", z3.BoolVal(False))
            return
        H, hxt = Hs[0], hx[0]
        Pt, xt, zt, Qt = call.snap["Pterm"], call.snap["xterm"], call.snap["zterm"], W.Q.term
        S = spec_S(H, Pt, Qt)
        Sinv = mat_inv(S)
        nu = mat_sub(zt, hxt)
        K = spec_K(Pt, H, Sinv)
        # recorded values
        inn = [v for k, v in W.innovations.writes]
        spu = [v for k, v in W.spu.writes]
        P.oblige(f"{pre}.records_innovation", z3.And(z3.BoolVal(len(inn) == 1 and isinstance(inn[0], SMat)), inn[0].term == nu if inn and isinstance(inn[0], SMat) else z3.BoolVal(False)), theory="euf")
        P.oblige(f"{pre}.records_innovation_covariance", z3.And(z3.BoolVal(len(spu) == 1 and isinstance(spu[0], SMat)), spu[0].term == S if spu and isinstance(spu[0], SMat) else z3.BoolVal(False)), theory="euf")
        if spu and isinstance(spu[0], SMat):
            # element-wise law (numpy broadcasting is visible here): S[i,j] = (H P H^T)[i,j] + Q[i,j]
            i, j = z3.Int("i_any"), z3.Int("j_any")
            hph = mm(H, mm(Pt, mat_T(H)))
            P.oblige(f"{pre}.innovation_covariance_elementwise", z3.Implies(z3.And(i >= 0, i < ms.m, j >= 0, j < ms.m), z3.And(to_int(spu[0].rows()) == ms.m, to_int(spu[0].cols()) == ms.m, spu[0].el(i, j) == mat_el(hph, i, j) + W.Q.el(i, j))))
        for k, v in W.innovations.writes + W.spu.writes:
            P.oblige(f"{pre}.records_under_sensor_key", z3.BoolVal(k is W.sensor_key))
        ok = isinstance(rv, tuple) and len(rv) == 2 and all(isinstance(x, SObj) for x in rv)
        P.oblige(f"{pre}.result_shape", z3.BoolVal(ok))
        if ok:
            cfg = W.config.fields["innovation_filtering"]
            discard = z3.BoolVal(False)
            if cfg is not None:
                sq = sqrt_f(z3.ToReal(2 * ms.m))
                P.define(z3.And(sq >= 0, sq * sq == z3.ToReal(2 * ms.m)), "sqrt law")
                discard = nis_f(nu, Sinv) > threshold(to_real(cfg), ms.m)
            same = rv[0] is call.state and rv[1] is call.cov
            if same:
                P.oblige(f"C06.py.sensor_model[{'enabled' if self.enabled else 'disabled'}].discard_only_if_nis_exceeds", discard, theory="euf")
            else:
                P.oblige(f"C06.py.sensor_model[{'enabled' if self.enabled else 'disabled'}].discard_leaves_estimate_untouched", z3.Not(discard), theory="euf")
                okc = rv[0].cls is W.State and rv[1].cls is W.Covariance
                P.oblige(f"{pre}.result_types", z3.BoolVal(okc))
                if okc:
                    P.oblige(f"{pre}.state_update", rv[0].fields["data"].term == spec_state(xt, K, nu), theory="euf")
                    P.oblige(f"{pre}.covariance_update", rv[1].fields["data"].term == spec_cov(Pt, K, H), theory="euf")
        W.frame_unchanged(P, pre)
        P.oblige(f"{pre}.frame.state", z3.And(z3.BoolVal(call.state.fields["data"] is call.snap["state"]), z3.BoolVal(z3.eq(call.snap["state"].term, xt))))
        P.oblige(f"{pre}.frame.covariance", z3.And(z3.BoolVal(call.cov.fields["data"] is call.snap["cov"]), z3.BoolVal(z3.eq(call.snap["cov"].term, Pt))))
        P.oblige(f"{pre}.frame.reading", z3.And(z3.BoolVal(call.z.fields["data"] is call.snap["z"]), z3.BoolVal(z3.eq(call.snap["z"].term, zt))))


def filter_callees():
    c = callees()
    for w in ("process_jacobian", "control_jacobian", "sensor_jacobian"):
        c[f"formak.python:ExtendedKalmanFilter.{w}"] = JacobianContract(w)
    c[ModelModel.key] = ModelModel()
    c[SensorModelModel.key] = SensorModelModel()
    c[RemoveInnovation.key] = RemoveInnovation()
    c[gate.AssertValidCovariance.key] = gate.AssertValidCovariance()
    return c


# ------------------------------------------------------------------------------------------------
# SensorModel.__init__ : establishes the per-sensor part of the representation invariant (C05 noise container)


class BasicBlockInit(Contract):
    """BasicBlock.__init__(arglist=, statements=, config=): stores them (compilation: C01/C08 contracts)."""

    key = "formak.python:BasicBlock.__init__"

    def apply(self, I, args, kwargs):
        obj = args[0]
        obj.fields["_arglist"] = kwargs["arglist"]
        obj.fields["_exprs"] = kwargs["statements"]
        obj.fields["_config"] = kwargs["config"]
        return None


class PreflightModel(Contract):
    """SensorModel.model as seen from SensorModel.__init__'s pre-flight call (result unused)."""

    key = "formak.python:SensorModel.model"

    def apply(self, I, args, kwargs):
        return None


class SensorModelInit(Contract):
    """SensorModel.__init__(state_model, sensor_model, calibration_map, config)
    requires calibration_map has a value for every calibration symbol (guaranteed by model_validation, C14).
    ensures  readings = the reading names sorted; sensor_size = their number; arglist_state / _calibration = the model's symbols
             sorted by name; Reading is a vector class over the readings and ReadingCovariance an (m x m) *covariance* class over
             them (diagonal container for the per-reading noise, C05); calibration_vector[i] = calibration_map[ACal[i]];
             _impl evaluates [sensor_model[r] for r in readings] over arglist_state + arglist_calibration."""

    key = "formak.python:SensorModel.__init__"
    prefix = "C05.py.SensorModel.__init__"
    inline = ("formak.common:named_vector", "formak.common:named_covariance")

    def setup(self, I):
        from pvc.symtheory import SDictV, SSetV, real_wrap

        P = I.path
        P.ghost["site"] = self.prefix
        mod = I.load_module("formak.python")
        cls = I.module_attr(mod, "SensorModel")
        S = SSetV(P, "state_set", "set")
        Cal = SSetV(P, "calibration_set", "set")
        ui = SObj("UiModel", {"state": S, "calibration": Cal}, "ui_model")
        sm = SDictV(P, "sensor_model", Str, Expr, StrV, ExprV)
        cm = SDictV(P, "calibration_map", Sym, z3.RealSort(), SymV, real_wrap)
        x = z3.Const("cx", Sym)
        P.facts.append(z3.ForAll([x], z3.Implies(Cal.has(x), cm.has(x)), patterns=[Cal.has(x)]))
        obj = SObj(cls, {}, "sensor_model")
        return Call([obj, ui, sm, cm, config_stub()], {}, obj=obj, S=S, Cal=Cal, sm=sm, cm=cm)

    def post(self, I, call, outcome):
        from pvc.symtheory import card_f, srt_f

        P = I.path
        pre = self.prefix
        if outcome[0] == "raise":
            P.oblige(f"{pre}.no_exception", z3.BoolVal(False), note=f"raises {outcome[1]}")
            return
        o, sm, cm, S, Cal = call.obj, call.sm, call.cm, call.S, call.Cal
        f = o.fields
        i = z3.Int("i_any")
        sk = sm.sorted_key_fn(P)
        rd = f.get("readings")
        ok = isinstance(rd, SSeq)
        P.oblige(f"{pre}.readings_is_list", z3.BoolVal(ok))
        if ok:
            P.oblige(f"{pre}.readings_sorted_names", z3.And(rd.len_z() == sm.n, z3.Implies(z3.And(i >= 0, i < sm.n), rd.at(i).z == sk(i))))
        P.oblige(f"{pre}.sensor_size", to_int(f.get("sensor_size")) == sm.n)
        for fld, st in (("arglist_state", S), ("arglist_calibration", Cal)):
            a = f.get(fld)
            okk = isinstance(a, SSeq)
            P.oblige(f"{pre}.{fld}_sorted_by_name", z3.And(a.len_z() == card_f(st.term), z3.Implies(z3.And(i >= 0, i < card_f(st.term)), a.at(i).z == srt_f(st.term, i))) if okk else z3.BoolVal(False))
        for fld, kind in (("Reading", "vector"), ("ReadingCovariance", "covariance"), ("State", "vector"), ("Covariance", "covariance"), ("Calibration", "vector")):
            c = f.get(fld)
            try:
                which, _, al = common.class_closure_vars(c)
            except Exception:
                which, al = None, None
            P.oblige(f"{pre}.{fld}_is_{kind}_container", z3.BoolVal(which == kind))
            if fld in ("Reading", "ReadingCovariance") and al is not None and ok:
                P.oblige(f"{pre}.{fld}_over_readings", z3.BoolVal(al is rd))
        cv = f.get("calibration_vector")
        okc = isinstance(cv, SMat)
        P.oblige(f"{pre}.calibration_vector_is_array", z3.BoolVal(okc))
        if okc:
            nc = card_f(Cal.term)
            P.oblige(f"{pre}.calibration_vector", z3.And(to_int(cv.rows()) == nc, to_int(cv.cols()) == 1, z3.Implies(z3.And(i >= 0, i < nc), cv.el(i, 0) == cm.get(srt_f(Cal.term, i)))))
        blk = f.get("_impl")
        okb = isinstance(blk, SObj) and isinstance(blk.fields.get("_exprs"), SSeq) and isinstance(blk.fields.get("_arglist"), SSeq)
        P.oblige(f"{pre}.impl_block", z3.BoolVal(okb))
        if okb:
            ex, al = blk.fields["_exprs"], blk.fields["_arglist"]
            ns = card_f(S.term)
            P.oblige(f"{pre}.impl_statements_by_reading", z3.And(ex.len_z() == sm.n, z3.Implies(z3.And(i >= 0, i < sm.n), ex.at(i).z == sm.get(sk(i)))))
            P.oblige(f"{pre}.impl_arglist", z3.And(al.len_z() == ns + card_f(Cal.term), z3.Implies(z3.And(i >= 0, i < ns + card_f(Cal.term)), al.at(i).z == z3.If(i < ns, srt_f(S.term, i), srt_f(Cal.term, i - ns)))))


def sensor_init_callees():
    c = dict(common.COMMON_APPLY)
    c[BasicBlockInit.key] = BasicBlockInit()
    c[PreflightModel.key] = PreflightModel()
    return c


# ------------------------------------------------------------------------------------------------
# _construct_process: process-noise matrix (C04) and flattened Jacobian programs (C03 invariant)


class UiModelShape:
    """Symbolic accepted ui model: declared symbol containers, dt, update expressions."""

    def __init__(self, I, container="set"):
        from pvc.symtheory import SDictV, SSetV

        P = I.path
        self.S = SSetV(P, "state_set", container)
        self.Cal = SSetV(P, "calibration_set", container)
        self.U = SSetV(P, "control_set", container)
        self.dt = SymV(z3.Const("dt_sym", Sym))
        self.sm = SDictV(P, "state_model", Sym, Expr, SymV, ExprV)
        x = z3.Const("mx", Sym)
        # accepted by ui.Model: update expressions cover the state exactly
        P.facts.append(z3.ForAll([x], self.sm.has(x) == self.S.has(x), patterns=[self.sm.has(x)]))
        self.obj = SObj("UiModel", {"state": self.S, "calibration": self.Cal, "control": self.U, "dt": self.dt, "state_model": self.sm}, "ui_model")


class ModelInitApply(Contract):
    """python.Model.__init__ as seen by _construct_process (its own verification: C01.py.Model.__init__)."""

    key = "formak.python:Model.__init__"

    def apply(self, I, args, kwargs):
        from pvc.symtheory import card_f

        obj = args[0]
        ui = kwargs["symbolic_model"]
        cm = kwargs["calibration_map"]
        S, Cal, U = ui.fields["state"], ui.fields["calibration"], ui.fields["control"]
        AS, ACal, AU = S.sorted_seq(), Cal.sorted_seq(), U.sorted_seq()
        arglist = SSeq.from_list([ui.fields["dt"]]).concat(AS).concat(ACal).concat(AU)
        arglist.pvc_type = "list"
        sm = ui.fields["state_model"]
        exprs = SSeq(AS.length, lambda i: ExprV(sm.get(AS.at(i).z)), "state_model_stmts")
        blk = make_block(I, arglist, exprs, "model_block")
        nc = card_f(Cal.term)
        I.raise_if(z3.And(nc > 0, cm.n != nc), "ModelConstructionError")
        cv = SMat(z3.Const(I.path.names.fresh("calibration_vector"), Mat), cells=lambda i, j: cm.get(ACal.at(i).z), shape=(SInt(nc), 1), ident=object())
        obj.fields.update(
            {
                "state_size": SInt(card_f(S.term)),
                "calibration_size": SInt(nc),
                "control_size": SInt(card_f(U.term)),
                "arglist_state": AS,
                "arglist_calibration": ACal,
                "arglist_control": AU,
                "arglist": arglist,
                "calibration_vector": cv,
                "_impl": blk,
            }
        )
        return None


class ConstructProcessNoise(Contract):
    """ExtendedKalmanFilter._construct_process(state_model, process_noise, calibration_map, config)
    requires process_noise keys are declared controls (model_validation), self.arglist_* already set by __init__,
             the assembled noise matrix passes the validity gate (noise values >= 0: C14).
    ensures  raises AssertionError <=> len(process_noise) != number of controls; otherwise
             self.process_noise is k x k with M[i,j] = process_noise[AU[i]] if i == j (0 if that control has no entry) and 0 otherwise;
             _impl_process_jacobian / _impl_control_jacobian are blocks over the model's arglist whose statement r*w+s is
             diff(state_model[AS[r]], X[s]) (X = AS, w = n; resp. X = AU, w = k); calibration_vector is the model's."""

    key = "formak.python:ExtendedKalmanFilter._construct_process"
    prefix = "C04.py._construct_process"
    inline = ("formak.python:BasicBlock.__len__",)

    def setup(self, I):
        from pvc.symtheory import SDictV, card_f, real_wrap

        P = I.path
        P.ghost["site"] = self.prefix
        ui = UiModelShape(I)
        pn = SDictV(P, "process_noise", Sym, z3.RealSort(), SymV, real_wrap)
        x = z3.Const("px", Sym)
        P.facts.append(z3.ForAll([x], z3.Implies(pn.has(x), ui.U.has(x)), patterns=[pn.has(x)]))
        cm = SDictV(P, "calibration_map", Sym, z3.RealSort(), SymV, real_wrap)
        P.facts.append(z3.ForAll([x], cm.has(x) == ui.Cal.has(x), patterns=[cm.has(x)]))
        P.assume(cm.n == card_f(ui.Cal.term))  # same key set => same size (model_validation's guarantee)
        mod = I.load_module("formak.python")
        cls = I.module_attr(mod, "ExtendedKalmanFilter")
        ekf = SObj(cls, {"state_size": SInt(card_f(ui.S.term)), "control_size": SInt(card_f(ui.U.term)), "calibration_size": SInt(card_f(ui.Cal.term)), "arglist_state": ui.S.sorted_seq(), "arglist_control": ui.U.sorted_seq(), "arglist_calibration": ui.Cal.sorted_seq()}, "ekf")
        X = z3.Const("anyM", Mat)
        P.facts.append(z3.ForAll([X], gate.gate_ok(X), patterns=[gate.gate_ok(X)]))  # requires: the assembled matrix is a valid covariance
        return Call([ekf], {"state_model": ui.obj, "process_noise": pn, "calibration_map": cm, "config": config_stub()}, ekf=ekf, ui=ui, pn=pn, cm=cm)

    def post(self, I, call, outcome):
        from pvc.symtheory import card_f, srt_f
        from pvc.sympy_model import RowMajor

        P = I.path
        pre = self.prefix
        ui, pn, ekf = call.ui, call.pn, call.ekf
        k = card_f(ui.U.term)
        n = card_f(ui.S.term)
        if outcome[0] == "raise" and outcome[1] == "ModelConstructionError" and P.ghost.get("no_closed_form"):
            # _jacobian's contract: a derivative sympy cannot give in closed form is refused, never compiled
            P.oblige(f"{pre}.refuses_only_derivatives_without_closed_form", z3.Or(*P.ghost["no_closed_form"]))
            return
        if outcome[0] == "raise":
            P.oblige(f"{pre}.noise_arity.only_assertionerror", z3.BoolVal(outcome[1] == "AssertionError"), note=f"raises {outcome[1]}")
            P.oblige(f"{pre}.noise_arity.raises_only_if", pn.n != k)
            return
        P.oblige(f"{pre}.noise_arity.raises_if", pn.n == k)
        M = ekf.fields.get("process_noise")
        ok = isinstance(M, SMat)
        P.oblige(f"{pre}.noise_matrix_is_array", z3.BoolVal(ok))
        i, j = z3.Int("i_any"), z3.Int("j_any")
        if ok:
            AU = lambda t: srt_f(ui.U.term, t)
            want = z3.If(z3.And(i == j, pn.has(AU(i))), pn.get(AU(i)), z3.RealVal(0))
            P.oblige(f"{pre}.noise_matrix", z3.And(to_int(M.rows()) == k, to_int(M.cols()) == k, z3.Implies(z3.And(i >= 0, i < k, j >= 0, j < k), M.el(i, j) == want)))
        for fld, w, X in (("_impl_process_jacobian", n, lambda t: srt_f(ui.S.term, t)), ("_impl_control_jacobian", k, lambda t: srt_f(ui.U.term, t))):
            blk = ekf.fields.get(fld)
            from pvc.interp import PyList, as_seq2

            okb = isinstance(blk, SObj) and isinstance(blk.fields.get("_exprs"), (SSeq, PyList))
            P.oblige(f"{pre}.{fld}.is_block", z3.BoolVal(okb))
            if not okb:
                continue
            ex = as_seq2(blk.fields["_exprs"])
            P.oblige(f"{pre}.{fld}.length", ex.len_z() == n * w)
            for rm in P.ghost.get("row_major", []):
                P.define(rm.law(i, j), "D-diff: iterating a sympy Matrix is row-major")
            F_i = ui.sm.get(srt_f(ui.S.term, i))
            if isinstance(blk.fields["_exprs"], PyList) and not blk.fields["_exprs"].items:
                P.oblige(f"{pre}.{fld}.row_major_layout", n * w == 0)  # empty program: only correct when there is nothing to differentiate
            else:
                P.oblige(f"{pre}.{fld}.row_major_layout", z3.Implies(z3.And(i >= 0, i < n, j >= 0, j < w), ex.at(i * w + j).z == diff_f(F_i, X(j))))
                # requires of BasicBlock (premise of D-cse / D-simp): no unevaluated Derivative among the statements
                P.oblige(f"{pre}.{fld}.statements_in_closed_form", z3.Implies(z3.And(i >= 0, i < n, j >= 0, j < w), closed_f(ex.at(i * w + j).z)), theory="euf")
            al = blk.fields["_arglist"]
            P.oblige(f"{pre}.{fld}.arglist_is_models", z3.BoolVal(al is ekf.fields["_state_model"].fields["arglist"]))
        sm = ekf.fields.get("_state_model")
        P.oblige(f"{pre}.calibration_vector_is_models", z3.BoolVal(isinstance(sm, SObj) and ekf.fields.get("calibration_vector") is sm.fields.get("calibration_vector")))


def construct_callees():
    c = dict(common.COMMON_APPLY)
    from contracts import sklearn as _sk

    c[_sk.NearestPD.key] = _sk.NearestPD()  # caller-side form only: a constructor that starts clamping the supplied process noise is visible
    c[RealJacobian.key] = RealJacobian()
    c[BasicBlockInit.key] = BasicBlockInit()
    c[ModelInitApply.key] = ModelInitApply()
    c[gate.AssertValidCovariance.key] = gate.AssertValidCovariance()
    return c



# ------------------------------------------------------------------------------------------------
# _jacobian: partial derivatives of the REAL functions (defect D12)


class RealJacobian(Contract):
    """python._jacobian(matrix, symbols)
    requires matrix is an n x 1 column of expressions, symbols a list of w symbols (all existing before the call: D-dummy).
    ensures  raises nothing but ModelConstructionError; on return the result is n x w with
                 result[r, c] = diff(matrix[r], symbols[c])      (the SPEC derivative of the real function, not sympy's complex one)
                 closed_form(result[r, c])                       (no unevaluated Derivative reaches BasicBlock: premise of D-cse/D-simp)
    The body renames the symbols to real-valued Dummy symbols, differentiates, and renames back: the proof is that the second
    renaming undoes the first on every pre-existing symbol, that the differentiation variables are renamed by the same map, and
    D-ren (differentiation commutes with injective renaming)."""

    key = "formak.python:_jacobian"
    prefix = "C03.py._jacobian"

    def setup(self, I):
        from pvc.sympy_model import SymMatrix, dummy_axioms, dummy_free_f, is_dummy

        P = I.path
        P.ghost["site"] = self.prefix
        n, w = z3.Int("n_rows"), z3.Int("n_symbols")
        P.assume(z3.And(n >= 0, w >= 0))
        F = z3.Function("matrix_row", z3.IntSort(), Expr)
        X = z3.Function("differentiation_symbol", z3.IntSort(), Sym)
        r, c = z3.Int("r0"), z3.Int("c0")
        dummy_axioms(P)
        # D-dummy: the arguments exist before any Dummy of this call is created
        P.facts.append(z3.ForAll([r], dummy_free_f(F(r)), patterns=[F(r)]))
        P.facts.append(z3.ForAll([c], z3.Not(is_dummy(X(c))), patterns=[X(c)]))
        m = SymMatrix(SInt(n), 1, lambda a, b: F(a))
        syms = SSeq(SInt(w), lambda q: SymV(X(q)), "symbols")
        syms.pvc_type = "list"
        return Call([m, syms], {}, n=n, w=w, F=F, X=X)

    def post(self, I, call, outcome):
        from pvc.sympy_model import SymMatrix, closed_f

        P = I.path
        pre = self.prefix
        if outcome[0] == "raise":
            P.oblige(f"{pre}.only_modelconstructionerror", z3.BoolVal(outcome[1] == "ModelConstructionError"), note=f"raises {outcome[1]}")
            return
        res = outcome[1]
        ok = isinstance(res, SymMatrix)
        P.oblige(f"{pre}.returns_matrix", z3.BoolVal(ok))
        if not ok:
            return
        i, j = z3.Int("i_any"), z3.Int("j_any")
        rng = z3.And(i >= 0, i < call.n, j >= 0, j < call.w)
        P.oblige(f"{pre}.shape", z3.And(to_int(res.rows) == call.n, to_int(res.cols) == call.w))
        P.oblige(f"{pre}.entries_in_closed_form", z3.Implies(rng, closed_f(res.cell(i, j))), theory="euf")
        P.oblige(f"{pre}.entries_are_the_real_partial_derivatives", z3.Implies(rng, res.cell(i, j) == diff_f(call.F(i), call.X(j))), theory="euf")

    def apply(self, I, args, kwargs):
        from pvc.interp import as_seq2
        from pvc.sympy_model import SymMatrix, closed_f

        P = I.path
        m, X = args[0], args[1]
        if not isinstance(m, SymMatrix):
            raise Unsupported("_jacobian of a non-matrix")
        X = X if isinstance(X, SSeq) else as_seq2(X)
        cond = z3.Const(P.names.fresh("derivative_without_closed_form"), z3.BoolSort())
        P.ghost.setdefault("no_closed_form", []).append(cond)
        I.raise_if(cond, "ModelConstructionError")
        cell = m.cell
        # the result as a named table D(r, c) with its two defining clauses (keeps the trigger free of the callers' index arithmetic)
        D = z3.Function(P.names.fresh("real_jacobian"), z3.IntSort(), z3.IntSort(), Expr)
        r, c = z3.Int("jr!r"), z3.Int("jr!c")
        rng = z3.And(r >= 0, r < to_int(m.rows), c >= 0, c < X.len_z())
        P.facts.append(z3.ForAll([r, c], z3.Implies(rng, z3.And(D(r, c) == diff_f(cell(r, z3.IntVal(0)), X.at(c).z), closed_f(D(r, c)))), patterns=[D(r, c)]))
        out = SymMatrix(m.rows, X.len_z(), lambda a, b: D(a, b))
        return out


def closed_inputs(P, d):
    """accepted definitions: the user's expressions are in closed form (no unevaluated Derivative / Integral / Subs)"""
    from pvc.sympy_model import closed_f

    x = z3.Const(f"ci!{d.name if hasattr(d, 'name') else id(d)}", d.ksort if hasattr(d, "ksort") else Sym)
    P.facts.append(z3.ForAll([x], closed_f(d.get(x)), patterns=[d.get(x)]))

# ------------------------------------------------------------------------------------------------
# _construct_sensors: per-sensor noise containers and flattened sensor-Jacobian programs


class SensorModelInitApply(Contract):
    """Caller-side form of SensorModelInit (clauses proved there)."""

    key = "formak.python:SensorModel.__init__"

    def apply(self, I, args, kwargs):
        from pvc.symtheory import card_f

        obj = args[0]
        ui, sm, cm, config = kwargs["state_model"], kwargs["sensor_model"], kwargs["calibration_map"], kwargs["config"]
        S, Cal = ui.fields["state"], ui.fields["calibration"]
        AS, ACal = S.sorted_seq(), Cal.sorted_seq()
        sk = sm.sorted_key_fn(I.path)
        readings = SSeq(SInt(sm.n), lambda i: StrV(sk(i)), "readings")
        readings.pvc_type = "list"
        arglist = AS.concat(ACal)
        arglist.pvc_type = "list"
        exprs = SSeq(SInt(sm.n), lambda i: ExprV(sm.get(sk(i))), "sensor_stmts")
        obj.fields.update(
            {
                "readings": readings,
                "sensor_models": sm,
                "sensor_size": SInt(sm.n),
                "state_size": SInt(card_f(S.term)),
                "calibration_size": SInt(card_f(Cal.term)),
                "arglist_state": AS,
                "arglist_calibration": ACal,
                "arglist": arglist,
                "Reading": common.make_named_class(I, "vector", "Reading", readings),
                "ReadingCovariance": common.make_named_class(I, "covariance", "ReadingCovariance", readings),
                "_impl": make_block(I, arglist, exprs, "sensor_block"),
            }
        )
        return None


class FromDictApply(Contract):
    """Caller-side form of from_dict (clauses proved in C13.py.from_dict): string-keyed mapping."""

    key = "formak.common:_NamedArrayBase.from_dict"

    def apply(self, I, args, kwargs):
        cls, mp = args[0], args[1]
        which, name, arglist = common.class_closure_vars(cls)
        n = common.arglist_len(arglist)
        if mp.key_sort != Str:
            raise Unsupported("from_dict of a symbol-keyed mapping at a call site")
        nm = lambda i: common.arg_name_z(I, arglist, i)
        k = z3.Const(I.path.names.fresh("fk"), Str)
        j = z3.Int(I.path.names.fresh("fj"))
        unknown = z3.Exists([k], z3.And(mp.has(k), z3.ForAll([j], z3.Implies(z3.And(j >= 0, j < n), nm(j) != k))))
        I.raise_if(unknown, "TypeError")
        cols = z3.IntVal(1) if which == "vector" else n

        def cells(r, c):
            slot = (c == 0) if which == "vector" else (c == r)
            default = z3.RealVal(0) if which == "vector" else z3.If(r == c, z3.RealVal(1), z3.RealVal(0))
            return z3.If(z3.And(slot, mp.has(nm(r))), mp.get(nm(r)), default)

        data = SMat(z3.Const(I.path.names.fresh("fd"), Mat), cells=cells, shape=(wrap(n), wrap(cols)), ident=object())
        return SObj(cls, {"data": data, "name": name, "_kwargs": None}, "from_dict")


class ConstructSensors(Contract):
    """ExtendedKalmanFilter._construct_sensors(state_model, sensor_models, sensor_noises, calibration_map, config)
    Verified for two generic sensors (the per-sensor loop bodies do not interact: exact unrolling over the sensor keys),
    each with a symbolic number of readings; the two dicts list the sensors in different orders.
    requires sensor_noises[s] names exactly the readings of s (C14).
    ensures  for each sensor s: sensor_noises[s].data is m_s x m_s with noise[reading i] at (i,i) (readings sorted by name) and 0 elsewhere;
             _impl_sensor_jacobians[s] is a block over arglist_state + arglist_calibration whose statement r*(n+c)+q is
             diff(sensor_model[s][reading r], (AS+ACal)[q]); innovations / sensor_prediction_uncertainty start empty."""

    key = "formak.python:ExtendedKalmanFilter._construct_sensors"
    prefix = "C05.py._construct_sensors"
    inline = ("formak.python:BasicBlock.__len__", "formak.python:SensorModel.__len__")

    def setup(self, I):
        from pvc.interp import PyDict
        from pvc.symtheory import SDictV, card_f, real_wrap

        P = I.path
        P.ghost["site"] = self.prefix
        ui = UiModelShape(I)
        cm = SDictV(P, "calibration_map", Sym, z3.RealSort(), SymV, real_wrap)
        keys = [StrV(z3.Const(f"sensor_key_{i}", Str)) for i in range(2)]
        P.assume(keys[0].z != keys[1].z)
        sms, sns = PyDict(), PyDict()
        sms.identity_keys = sns.identity_keys = True
        models, noises = [], []
        for i, kx in enumerate(keys):
            sm = SDictV(P, f"sensor_model_{i}", Str, Expr, StrV, ExprV)
            nz = SDictV(P, f"sensor_noise_{i}", Str, z3.RealSort(), StrV, real_wrap)
            x = z3.Const(f"rk{i}", Str)
            P.facts.append(z3.ForAll([x], nz.has(x) == sm.has(x), patterns=[nz.has(x)]))
            P.facts.append(z3.ForAll([x], nz.has(x) == sm.has(x), patterns=[sm.has(x)]))
            P.assume(nz.n == sm.n)
            models.append(sm)
            noises.append(nz)
        sms.d[keys[0]] = models[0]
        sms.d[keys[1]] = models[1]
        sns.d[keys[1]] = noises[1]
        sns.d[keys[0]] = noises[0]
        mod = I.load_module("formak.python")
        cls = I.module_attr(mod, "ExtendedKalmanFilter")
        ekf = SObj(cls, {"state_size": SInt(card_f(ui.S.term)), "control_size": SInt(card_f(ui.U.term)), "calibration_size": SInt(card_f(ui.Cal.term)), "arglist_state": ui.S.sorted_seq(), "arglist_control": ui.U.sorted_seq(), "arglist_calibration": ui.Cal.sorted_seq()}, "ekf")
        return Call([ekf], {"state_model": ui.obj, "sensor_models": sms, "sensor_noises": sns, "calibration_map": cm, "config": config_stub()}, ekf=ekf, ui=ui, keys=keys, models=models, noises=noises)

    def post(self, I, call, outcome):
        from pvc.interp import PyDict, PyList, as_seq2
        from pvc.symtheory import card_f, srt_f

        P = I.path
        pre = self.prefix
        if outcome[0] == "raise" and outcome[1] == "ModelConstructionError" and P.ghost.get("no_closed_form"):
            P.oblige(f"{pre}.refuses_only_derivatives_without_closed_form", z3.Or(*P.ghost["no_closed_form"]))
            return
        if outcome[0] == "raise":
            P.oblige(f"{pre}.no_exception_for_matching_noise", z3.BoolVal(False), note=f"raises {outcome[1]}")
            return
        ekf, ui = call.ekf, call.ui
        n, c = card_f(ui.S.term), card_f(ui.Cal.term)
        X = lambda t: z3.If(t < n, srt_f(ui.S.term, t), srt_f(ui.Cal.term, t - n))
        i, j = z3.Int("i_any"), z3.Int("j_any")
        sn, sj, smd = ekf.fields.get("sensor_noises"), ekf.fields.get("_impl_sensor_jacobians"), ekf.fields.get("sensor_models")
        ok = all(isinstance(d, PyDict) for d in (sn, sj, smd))
        P.oblige(f"{pre}.dicts_built", z3.BoolVal(ok))
        if not ok:
            return
        for idx, (kx, sm, nz) in enumerate(zip(call.keys, call.models, call.noises)):
            tag = f"sensor{idx}"
            sk = sm.sorted_key_fn(P)
            m = sm.n
            present = kx in sn.d and kx in sj.d and kx in smd.d
            P.oblige(f"{pre}.{tag}.entries_under_sensor_key", z3.BoolVal(present))
            if not present:
                continue
            q = sn.d[kx]
            okq = isinstance(q, SObj) and isinstance(q.fields.get("data"), SMat)
            P.oblige(f"{pre}.{tag}.noise_container", z3.BoolVal(okq))
            if okq:
                d = q.fields["data"]
                want = z3.If(i == j, nz.get(sk(i)), z3.RealVal(0))
                P.oblige(f"{pre}.{tag}.noise_diagonal_by_reading_name", z3.And(to_int(d.rows()) == m, to_int(d.cols()) == m, z3.Implies(z3.And(i >= 0, i < m, j >= 0, j < m), d.el(i, j) == want)))
            blk = sj.d[kx]
            okb = isinstance(blk, SObj) and isinstance(blk.fields.get("_exprs"), (SSeq, PyList))
            P.oblige(f"{pre}.{tag}.jacobian_block", z3.BoolVal(okb))
            if okb:
                ex = as_seq2(blk.fields["_exprs"])
                w = n + c
                for rm in P.ghost.get("row_major", []):
                    P.define(rm.law(i, j), "D-diff: iterating a sympy Matrix is row-major")
                P.oblige(f"{pre}.{tag}.jacobian_length", ex.len_z() == m * w)
                P.oblige(f"{pre}.{tag}.jacobian_row_major_layout", z3.Implies(z3.And(i >= 0, i < m, j >= 0, j < w), ex.at(i * w + j).z == diff_f(sm.get(sk(i)), X(j))))
                P.oblige(f"{pre}.{tag}.jacobian_statements_in_closed_form", z3.Implies(z3.And(i >= 0, i < m, j >= 0, j < w), closed_f(ex.at(i * w + j).z)), theory="euf")
                al = blk.fields["_arglist"]
                P.oblige(f"{pre}.{tag}.jacobian_arglist", z3.And(al.len_z() == w, z3.Implies(z3.And(j >= 0, j < w), al.at(j).z == X(j))))
        for fld in ("innovations", "sensor_prediction_uncertainty"):
            v = ekf.fields.get(fld)
            P.oblige(f"{pre}.{fld}_start_empty", z3.BoolVal(isinstance(v, PyDict) and not v.d))


def sensors_callees():
    c = dict(common.COMMON_APPLY)
    c[RealJacobian.key] = RealJacobian()
    c[BasicBlockInit.key] = BasicBlockInit()
    c[SensorModelInitApply.key] = SensorModelInitApply()
    c[FromDictApply.key] = FromDictApply()
    from contracts import sklearn as _sk

    c[_sk.NearestPD.key] = _sk.NearestPD()  # caller-side form only: a constructor that starts clamping the supplied noise is visible
    return c
