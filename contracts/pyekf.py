"""Contracts on py/formak/python.py - model/filter objects, Jacobians (C03), prediction (C04),
update (C05), innovation filtering (C06).

Representation invariant `well-formed filter` (established by the constructors' contracts, assumed by
the methods' contracts):
  arglist_state / _calibration / _control : sequences of symbols AS (n), ACal (c), AU (k); all symbols of
      {dt} + AS + ACal + AU pairwise distinct (accepted models: disjoint sets, injective names);
  _state_model._impl            : BasicBlock(arglist = [dt]+AS+ACal+AU, exprs[i] = F(i) = state_model[AS[i]])
  _impl_process_jacobian        : BasicBlock(same arglist, exprs of length n*n, exprs[r*n+s] = diff(F(r), AS[s]))
  _impl_control_jacobian        : BasicBlock(same arglist, length n*k, exprs[r*k+s] = diff(F(r), AU[s]))
  sensor_models[key]            : SensorModel(readings R (m), _impl = BasicBlock(AS+ACal, exprs[i] = H(i)))
  _impl_sensor_jacobians[key]   : BasicBlock(AS+ACal, length m*(n+c), exprs[r*(n+c)+s] = diff(H(r), (AS+ACal)[s]))
  calibration_vector            : (c,1) array;  process_noise : (k,k) array; sensor_noises[key] : noise container

Ghost environment E: the method contracts build their symbolic inputs FROM an arbitrary environment E
(state.data[i] = lookup(E, AS[i]) ...); this is without loss of generality because the symbols are pairwise
distinct, and it lets every postcondition be stated by name: value = ev(expression, E).
"""
from __future__ import annotations

import z3

from contracts import common
from pvc.contract import Call, Contract
from pvc.interp import GenV, PyDict, Splat
from pvc.sym import Mat, PyRaise, SInt, SMat, SObj, SReal, SSeq, Unsupported, mat_el, to_int, to_real, wrap
from pvc.symtheory import Env, Expr, ExprV, Str, StrV, Sym, SymV, diff_f, ev_f, lookup_f, name_f

# ------------------------------------------------------------------------------------------------
# BasicBlock.execute (caller side): D-lam + C01.3


class ExecuteApply(Contract):
    """BasicBlock.execute(*args):  requires len(args) = len(_arglist) and, for the caller's ghost environment E,
    args[i] = lookup(E, _arglist[i]) for every i (positional alignment - an obligation at every call site);
    ensures it yields len(_exprs) values, value j = ev(_exprs[j], E)."""

    key = "formak.python:BasicBlock.execute"

    def apply(self, I, args, kwargs):
        from pvc.np_model import scalar_of

        P = I.path
        blk = args[0]
        pos = I.pack_varargs(list(args[1:]))
        if isinstance(pos, tuple):
            pos = SSeq.from_list(list(pos))
        arglist = blk.fields["_arglist"]
        exprs = blk.fields["_exprs"]
        E = P.ghost.get("env")
        if E is None:
            raise Unsupported("execute called without a ghost environment")
        site = P.ghost.get("site", "execute")
        P.oblige(f"{site}.execute.arity", pos.len_z() == arglist.len_z())
        i = P.fresh_int("ai")
        a = scalar_of(pos.at(i))
        P.oblige(f"{site}.execute.positional_alignment", z3.Implies(z3.And(i >= 0, i < arglist.len_z(), i < pos.len_z()), to_real(a) == lookup_f(E, arglist.at(i).z)))
        return GenV(SSeq(exprs.length, lambda j: SReal(ev_f(exprs.at(j).z, E)), "execute"))


# ------------------------------------------------------------------------------------------------
# symbolic well-formed objects


class ModelShape:
    """Symbolic model: symbol lists and expressions, plus the ghost environment."""

    def __init__(self, I, with_sensor=True):
        P = I.path
        self.n = P.fresh_int("n_state")
        self.c = P.fresh_int("n_calibration")
        self.k = P.fresh_int("n_control")
        self.m = P.fresh_int("n_readings")
        P.assume(z3.And(self.n >= 0, self.c >= 0, self.k >= 0, self.m >= 1))
        self.AS_f = z3.Function("AS", z3.IntSort(), Sym)
        self.ACal_f = z3.Function("ACal", z3.IntSort(), Sym)
        self.AU_f = z3.Function("AU", z3.IntSort(), Sym)
        self.R_f = z3.Function("Rd", z3.IntSort(), Str)
        self.dt_sym = z3.Const("dt_sym", Sym)
        self.F = z3.Function("F", z3.IntSort(), Expr)  # state_model[AS[i]]
        self.H = z3.Function("H", z3.IntSort(), Expr)  # sensor_model[R[i]]
        self.E = z3.Const("E", Env)
        self.AS = self.seq(self.n, self.AS_f, "arglist_state")
        self.ACal = self.seq(self.c, self.ACal_f, "arglist_calibration")
        self.AU = self.seq(self.k, self.AU_f, "arglist_control")
        self.R = SSeq(SInt(self.m), lambda i: StrV(self.R_f(i)), "readings")
        self.R.pvc_type = "list"
        self.arglist = SSeq.from_list([SymV(self.dt_sym)]).concat(self.AS).concat(self.ACal).concat(self.AU)
        self.arglist.pvc_type = "list"
        self.arglist_sensor = self.AS.concat(self.ACal)
        self.arglist_sensor.pvc_type = "list"
        P.ghost["env"] = self.E

    def seq(self, n, f, tag):
        s = SSeq(SInt(n), lambda i: SymV(f(i)), tag)
        s.pvc_type = "list"
        return s

    def X(self, s):
        """(AS + ACal)[s] as a z3 term."""
        return z3.If(s < self.n, self.AS_f(s), self.ACal_f(s - self.n))


def make_block(I, arglist, exprs, tag):
    mod = I.load_module("formak.python")
    cls = I.module_attr(mod, "BasicBlock")
    return SObj(cls, {"_arglist": arglist, "_exprs": exprs, "_config": None}, tag)


class FilterWorld:
    """A symbolic well-formed ExtendedKalmanFilter with one generic sensor key."""

    def __init__(self, I):
        P = I.path
        self.I = I
        self.ms = ms = ModelShape(I)
        mod = I.load_module("formak.python")
        n, c, k, m = ms.n, ms.c, ms.k, ms.m
        self.State = common.make_named_class(I, "vector", "State", ms.AS)
        self.Covariance = common.make_named_class(I, "covariance", "Covariance", ms.AS)
        self.Control = common.make_named_class(I, "vector", "Control", ms.AU)
        self.Calibration = common.make_named_class(I, "vector", "Calibration", ms.ACal)
        self.Reading = common.make_named_class(I, "vector", "Reading", ms.R)
        E = ms.E
        # flattened Jacobian programs (facts instantiated on demand via the *_fact methods)
        self.pj = z3.Function("flat_process_jacobian", z3.IntSort(), Expr)
        self.cj = z3.Function("flat_control_jacobian", z3.IntSort(), Expr)
        self.sj = z3.Function("flat_sensor_jacobian", z3.IntSort(), Expr)
        exprs_model = SSeq(SInt(n), lambda i: ExprV(ms.F(i)), "state_model")
        self.model_block = make_block(I, ms.arglist, exprs_model, "model_block")
        ModelCls = I.module_attr(mod, "Model")
        self.calibration_vector = SMat(z3.Const("calibration_vector", Mat), cells=lambda i, j: lookup_f(E, ms.ACal_f(i)), shape=(SInt(c), 1), ident=object())
        self.state_model = SObj(
            ModelCls,
            {
                "state_size": SInt(n),
                "calibration_size": SInt(c),
                "control_size": SInt(k),
                "arglist_state": ms.AS,
                "arglist_calibration": ms.ACal,
                "arglist_control": ms.AU,
                "arglist": ms.arglist,
                "State": self.State,
                "Control": self.Control,
                "Calibration": self.Calibration,
                "calibration_vector": self.calibration_vector,
                "_impl": self.model_block,
            },
            "state_model",
        )
        self.pj_block = make_block(I, ms.arglist, SSeq(wrap(z3.simplify(n * n)), lambda q: ExprV(self.pj(q)), "pj"), "pj_block")
        self.cj_block = make_block(I, ms.arglist, SSeq(wrap(z3.simplify(n * k)), lambda q: ExprV(self.cj(q)), "cj"), "cj_block")
        self.sj_block = make_block(I, ms.arglist_sensor, SSeq(wrap(z3.simplify(m * (n + c))), lambda q: ExprV(self.sj(q)), "sj"), "sj_block")
        SMCls = I.module_attr(mod, "SensorModel")
        self.sensor_block = make_block(I, ms.arglist_sensor, SSeq(SInt(m), lambda i: ExprV(ms.H(i)), "sensor_model"), "sensor_block")
        self.sensor_key = StrV(z3.Const("sensor_key", Str))
        self.sensor_model = SObj(
            SMCls,
            {
                "readings": ms.R,
                "sensor_size": SInt(m),
                "state_size": SInt(n),
                "calibration_size": SInt(c),
                "arglist_state": ms.AS,
                "arglist_calibration": ms.ACal,
                "arglist": ms.arglist_sensor,
                "State": self.State,
                "Covariance": self.Covariance,
                "Calibration": self.Calibration,
                "Reading": self.Reading,
                "calibration_vector": self.calibration_vector,
                "_impl": self.sensor_block,
                "sensor_models": OneKeyDict(None, None, "sensor_models_inner"),
            },
            "sensor_model",
        )
        EkfCls = I.module_attr(mod, "ExtendedKalmanFilter")
        self.process_noise = SMat(z3.Const("process_noise", Mat), shape=(SInt(k), SInt(k)), ident=object())
        self.Q = SMat(z3.Const("Q_sensor", Mat), shape=(SInt(m), SInt(m)), ident=object())
        self.noise_obj = SObj("ReadingCovariance", {"data": self.Q}, "sensor_noise")
        self.config = SObj("Config", {"innovation_filtering": None, "max_dt_sec": SReal(z3.Real("max_dt_sec"))}, "config")
        self.innovations = RecDict("innovations")
        self.spu = RecDict("sensor_prediction_uncertainty")
        self.ekf = SObj(
            EkfCls,
            {
                "config": self.config,
                "state_size": SInt(n),
                "control_size": SInt(k),
                "calibration_size": SInt(c),
                "arglist_state": ms.AS,
                "arglist_control": ms.AU,
                "arglist_calibration": ms.ACal,
                "arglist_sensor": ms.arglist_sensor,
                "State": self.State,
                "Covariance": self.Covariance,
                "Control": self.Control,
                "Calibration": self.Calibration,
                "calibration_map": None,
                "_state_model": self.state_model,
                "calibration_vector": self.calibration_vector,
                "process_noise": self.process_noise,
                "_impl_process_jacobian": self.pj_block,
                "_impl_control_jacobian": self.cj_block,
                "sensor_models": OneKeyDict(self.sensor_key, self.sensor_model, "sensor_models"),
                "sensor_noises": OneKeyDict(self.sensor_key, self.noise_obj, "sensor_noises"),
                "_impl_sensor_jacobians": OneKeyDict(self.sensor_key, self.sj_block, "_impl_sensor_jacobians"),
                "innovations": self.innovations,
                "sensor_prediction_uncertainty": self.spu,
            },
            "ekf",
        )
        self.old_fields = dict(self.ekf.fields)

    # inputs built from the ghost environment -------------------------------------------------
    def state(self, tag="state"):
        ms = self.ms
        return common.make_named_instance(self.I, self.State, tag, cells=lambda i, j: lookup_f(ms.E, ms.AS_f(i)))

    def control(self, tag="control"):
        ms = self.ms
        return common.make_named_instance(self.I, self.Control, tag, cells=lambda i, j: lookup_f(ms.E, ms.AU_f(i)))

    def covariance(self, tag="covariance"):
        return common.make_named_instance(self.I, self.Covariance, tag)

    def dt(self):
        return SReal(lookup_f(self.ms.E, self.ms.dt_sym))

    # representation-invariant facts, instantiated at given indices ----------------------------
    def pj_fact(self, r, s):
        ms = self.ms
        return z3.Implies(z3.And(r >= 0, r < ms.n, s >= 0, s < ms.n), self.pj(r * ms.n + s) == diff_f(ms.F(r), ms.AS_f(s)))

    def cj_fact(self, r, s):
        ms = self.ms
        return z3.Implies(z3.And(r >= 0, r < ms.n, s >= 0, s < ms.k), self.cj(r * ms.k + s) == diff_f(ms.F(r), ms.AU_f(s)))

    def sj_fact(self, r, s):
        ms = self.ms
        w = ms.n + ms.c
        return z3.Implies(z3.And(r >= 0, r < ms.m, s >= 0, s < w), self.sj(r * w + s) == diff_f(ms.H(r), ms.X(s)))

    def frame_unchanged(self, P, prefix, except_=()):
        for f, v in self.old_fields.items():
            if f in except_:
                continue
            P.oblige(f"{prefix}.frame.self.{f}", z3.BoolVal(self.ekf.fields.get(f) is v))


class OneKeyDict:
    """A dict object observed through one generic key (per-call reasoning concerns one sensor key)."""

    pvc_type = "dict"

    def __init__(self, key, value, tag):
        self.key, self.value, self.tag = key, value, tag

    def pvc_getitem(self, I, k):
        if self.key is None:
            raise Unsupported(f"lookup in {self.tag}")
        from pvc.sym import to_bool

        eq = I.equals(k, self.key)
        if eq is not True:
            I.raise_if(z3.Not(to_bool(eq)), "KeyError")
        return self.value


class RecDict:
    """Dict that is only written (innovations / sensor_prediction_uncertainty): records the stores."""

    pvc_type = "dict"

    def __init__(self, tag):
        self.tag = tag
        self.writes = []

    def pvc_setitem(self, I, k, v):
        if I.merge_depth:
            raise Unsupported("dict store in summarised loop")
        self.writes.append((k, v))


# ------------------------------------------------------------------------------------------------
# C03: Jacobians


class JacobianContract(Contract):
    """process_jacobian / control_jacobian / sensor_jacobian.
    ensures  never raises; result has shape (rows x cols) and, by name,
             result[r, s] = ev(diff(output r, variable s), E)   (E: the named inputs)
    frame    self.*, state, control unchanged."""

    def __init__(self, which):
        self.which = which
        self.key = f"formak.python:ExtendedKalmanFilter.{which}"
        self.prefix = f"C03.py.{which}"

    def setup(self, I):
        W = FilterWorld(I)
        I.path.ghost["site"] = self.prefix
        st = W.state()
        if self.which == "sensor_jacobian":
            args = [W.ekf, W.sensor_key, st]
        else:
            args = [W.ekf, W.dt(), st, W.control()]
        return Call(args, {}, W=W, state=st, state_data=st.fields["data"])

    def post(self, I, call, outcome):
        P = I.path
        W, ms, pre = call.W, call.W.ms, self.prefix
        if outcome[0] == "raise":
            P.oblige(f"{pre}.no_exception", z3.BoolVal(False), note=f"raises {outcome[1]}")
            return
        J = outcome[1]
        ok = isinstance(J, SMat)
        P.oblige(f"{pre}.result_is_array", z3.BoolVal(ok))
        if not ok:
            return
        r, s = z3.Int("r_any"), z3.Int("s_any")
        if self.which == "process_jacobian":
            rows, cols = ms.n, ms.n
            P.define(W.pj_fact(r, s), "representation invariant of the filter object (flattened Jacobian program), instantiated at the goal cell")
            want = ev_f(diff_f(ms.F(r), ms.AS_f(s)), ms.E)
        elif self.which == "control_jacobian":
            rows, cols = ms.n, ms.k
            P.define(W.cj_fact(r, s), "representation invariant of the filter object (flattened Jacobian program), instantiated at the goal cell")
            want = ev_f(diff_f(ms.F(r), ms.AU_f(s)), ms.E)
        else:
            rows, cols = ms.m, ms.n
            P.define(W.sj_fact(r, s), "representation invariant of the filter object (flattened Jacobian program), instantiated at the goal cell")
            want = ev_f(diff_f(ms.H(r), ms.AS_f(s)), ms.E)
        P.oblige(f"{pre}.shape", z3.And(to_int(J.rows()) == rows, to_int(J.cols()) == cols))
        P.oblige(f"{pre}.index", z3.Implies(z3.And(r >= 0, r < rows, s >= 0, s < cols), J.el(r, s) == want), theory="interp")
        W.frame_unchanged(P, pre)
        P.oblige(f"{pre}.frame.state", z3.BoolVal(call.state.fields["data"] is call.state_data))


def jacobian_contracts():
    return [JacobianContract(w) for w in ("process_jacobian", "control_jacobian", "sensor_jacobian")]


def callees():
    c = dict(common.COMMON_APPLY)
    c[ExecuteApply.key] = ExecuteApply()
    return c


# ------------------------------------------------------------------------------------------------
# C13: make_reading


class MakeReading(Contract):
    """ExtendedKalmanFilter.make_reading(key, *, data=None, **kwargs)
    ensures  no keywords and data given: raises ValueError <=> data.shape != (m,1), else a Reading whose .data IS data;
             otherwise: Reading(**kwargs): TypeError <=> unknown reading name, else each supplied value in the slot of
             its reading name, zero elsewhere.  KeyError <=> key is not a sensor of the filter.  frame: nothing."""

    key = "formak.python:ExtendedKalmanFilter.make_reading"

    def __init__(self, data_mode):
        self.data_mode = data_mode
        self.prefix = f"C13.py.make_reading[data_{data_mode}]"

    def setup(self, I):
        from pvc.symtheory import SDictV, real_wrap

        W = FilterWorld(I)
        P = I.path
        P.ghost["site"] = self.prefix
        kwargs = SDictV(P, "kwargs", Str, z3.RealSort(), StrV, real_wrap)
        data = None
        if self.data_mode == "given":
            data = SMat(z3.Const("data_in", Mat), shape=(SInt(P.fresh_int("dr")), SInt(P.fresh_int("dc"))), ident=object())
        key = StrV(z3.Const("key_arg", Str))
        return Call([W.ekf, key], {"data": data, "**": [kwargs]}, W=W, kw=kwargs, data=data, key=key)

    def post(self, I, call, outcome):
        P = I.path
        W, ms, pre, kw, data = call.W, call.W.ms, self.prefix, call.kw, call.data
        known_key = call.key.z == W.sensor_key.z
        k = z3.Const("k_any", Str)
        j = z3.Int("j_any")
        unknown_kw = z3.Exists([k], z3.And(kw.has(k), z3.ForAll([j], z3.Implies(z3.And(j >= 0, j < ms.m), ms.R_f(j) != k))))
        use_data = z3.And(kw.n == 0, z3.BoolVal(data is not None))
        bad_shape = z3.BoolVal(False) if data is None else z3.Or(to_int(data.rows()) != ms.m, to_int(data.cols()) != 1)
        if outcome[0] == "raise":
            e = outcome[1]
            if e == "KeyError":
                P.oblige(f"{pre}.unknown_sensor.raises_only_if", z3.Not(known_key))
            elif e == "ValueError":
                P.oblige(f"{pre}.wrong_shape.raises_only_if", z3.And(known_key, use_data, bad_shape))
            elif e == "TypeError":
                P.oblige(f"{pre}.unknown_name.raises_only_if", z3.And(known_key, z3.Not(use_data), unknown_kw))
            else:
                P.oblige(f"{pre}.no_other_exception", z3.BoolVal(False), note=f"raises {e}")
            return
        P.oblige(f"{pre}.unknown_sensor.raises_if", known_key)
        P.oblige(f"{pre}.wrong_shape.raises_if", z3.Not(z3.And(use_data, bad_shape)))
        P.oblige(f"{pre}.unknown_name.raises_if", z3.Or(use_data, z3.Not(unknown_kw)))
        rv = outcome[1]
        ok = isinstance(rv, SObj) and rv.cls is W.Reading and isinstance(rv.fields.get("data"), SMat)
        P.oblige(f"{pre}.is_reading", z3.BoolVal(ok))
        if ok:
            d = rv.fields["data"]
            r = z3.Int("r_any")
            if data is not None:
                P.oblige(f"{pre}.data_is_argument", z3.Implies(use_data, z3.BoolVal(d is data)))
            P.oblige(f"{pre}.slot_by_name", z3.Implies(z3.And(z3.Not(use_data), r >= 0, r < ms.m), z3.And(to_int(d.rows()) == ms.m, to_int(d.cols()) == 1, d.el(r, 0) == z3.If(kw.has(ms.R_f(r)), kw.get(ms.R_f(r)), z3.RealVal(0)))))
        W.frame_unchanged(P, pre)
