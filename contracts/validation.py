"""Contracts for C14: structural validation of definitions (ui_model.Model.__init__, common.model_validation) and the
entry-point lemmas.  One predicate vocabulary `Faults` is written once and used by every contract and lemma."""
from __future__ import annotations

import z3

from pvc.contract import Call, Contract
from pvc.sym import SNum, SObj, SReal, Unsupported, to_int


def num_wrap(z):
    return SNum(z)

from pvc.symtheory import Expr, ExprV, SDict2V, SDictV, SSetV, Str, StrV, Sym, SymV, card_f, fs_f, member_f, real_wrap


class Definition:
    """A symbolic filter definition (any sizes): declared containers, maps, sensors."""

    def __init__(self, I, container="set", noise_keys="Sym"):
        P = I.path
        self.S = SSetV(P, "state_set", container)
        self.Cal = SSetV(P, "calibration_set", container)
        self.U = SSetV(P, "control_set", container)
        self.dt = SymV(z3.Const("dt_sym", Sym))
        self.sm = SDictV(P, "state_model", Sym, Expr, SymV, ExprV)
        self.cm = SDictV(P, "calibration_map", Sym, z3.RealSort(), SymV, real_wrap)
        if noise_keys == "Sym":
            self.pn = SDictV(P, "process_noise", Sym, z3.RealSort(), SymV, num_wrap)  # values: numbers of any Python class (float, int, numpy scalar, sympy number)
        else:
            self.pn = SDictV(P, "process_noise", Str, z3.RealSort(), StrV, num_wrap)  # keys that are not Symbols
        self.noise_keys = noise_keys
        self.sensors = SDict2V(P, "sensor_models", Expr, ExprV)
        self.snoise = SDict2V(P, "sensor_noises", z3.RealSort(), real_wrap)
        self.ui = SObj("UiModel", {"state": self.S, "calibration": self.Cal, "control": self.U, "dt": self.dt, "state_model": self.sm}, "ui_model")

    # ---- fault predicates (the negation of `Valid`) --------------------------------------------------------
    def overlap(self):
        x = z3.Const("ov_x", Sym)
        m = lambda st: member_f(st.term, x)
        return z3.Exists([x], z3.Or(z3.And(m(self.S), m(self.Cal)), z3.And(m(self.S), m(self.U)), z3.And(m(self.Cal), m(self.U))))

    def state_model_mismatch(self):
        x = z3.Const("smm_x", Sym)
        return z3.Exists([x], self.sm.has(x) != member_f(self.S.term, x))

    def calibration_mismatch(self):
        x = z3.Const("cmm_x", Sym)
        return z3.Exists([x], self.cm.has(x) != member_f(self.Cal.term, x))

    def noise_for_non_control(self):
        if self.noise_keys != "Sym":
            return self.pn.n > 0  # any non-Symbol key is a fault
        x = z3.Const("nnc_x", Sym)
        return z3.Exists([x], z3.And(self.pn.has(x), z3.Not(member_f(self.U.term, x))))

    def noise_missing(self):
        x = z3.Const("nm_x", Sym)
        if self.noise_keys != "Sym":
            return card_f(self.U.term) > 0
        return z3.Exists([x], z3.And(member_f(self.U.term, x), z3.Not(self.pn.has(x))))

    def noise_negative(self):
        if self.noise_keys != "Sym":
            return z3.BoolVal(False)
        x = z3.Const("nn_x", Sym)
        return z3.Exists([x], z3.And(self.pn.has(x), self.pn.get(x) < 0))

    def sensor_uses_foreign_symbol(self):
        k1, k2 = z3.Const("sf_k1", Str), z3.Const("sf_k2", Str)
        s = z3.Const("sf_s", Sym)
        return z3.Exists([k1, k2, s], z3.And(self.sensors.has1(k1), self.sensors.has2(k1, k2), fs_f(self.sensors.get2(k1, k2), s), z3.Not(z3.Or(member_f(self.S.term, s), member_f(self.Cal.term, s)))))

    def sensor_noise_mismatch(self):
        k1, k2 = z3.Const("snm_k1", Str), z3.Const("snm_k2", Str)
        return z3.Or(
            z3.Exists([k1], self.sensors.has1(k1) != self.snoise.has1(k1)),
            z3.Exists([k1, k2], z3.And(self.sensors.has1(k1), self.sensors.has2(k1, k2) != self.snoise.has2(k1, k2))),
        )


class ModelValidation(Contract):
    """common.model_validation(state_model, process_noise, sensor_models, *, calibration_map, extra_validation=False)
    ensures  raises ModelConstructionError  <=>  some process-noise key is not a Symbol or not a declared control,
                                               or keys(calibration_map) != set(calibration),
                                               or some sensor expression has a free symbol outside state + calibration;
             raises nothing else (in particular no TypeError for list containers).   frame: nothing."""

    key = "formak.common:model_validation"

    def __init__(self, container="set", noise_keys="Sym"):
        self.container, self.noise_keys = container, noise_keys
        self.prefix = f"C14.py.model_validation[{container},{noise_keys}_keys]"

    def setup(self, I):
        D = Definition(I, self.container, self.noise_keys)
        I.path.ghost["site"] = self.prefix
        return Call([D.ui, D.pn, D.sensors], {"calibration_map": D.cm, "extra_validation": False}, D=D)

    def post(self, I, call, outcome):
        P, D, pre = I.path, call.D, self.prefix
        fault = z3.Or(D.noise_for_non_control(), D.calibration_mismatch(), D.sensor_uses_foreign_symbol())
        if outcome[0] == "raise":
            P.oblige(f"{pre}.only_ModelConstructionError", z3.BoolVal(outcome[1] == "ModelConstructionError"), note=f"raises {outcome[1]}")
            P.oblige(f"{pre}.refuses_only_faulty_definitions", fault)
        else:
            P.oblige(f"{pre}.refuses_noise_for_non_control", z3.Not(D.noise_for_non_control()))
            P.oblige(f"{pre}.refuses_calibration_mismatch", z3.Not(D.calibration_mismatch()))
            P.oblige(f"{pre}.refuses_sensor_with_foreign_symbol", z3.Not(D.sensor_uses_foreign_symbol()))


class UiModelInit(Contract):
    """ui_model.Model.__init__(dt, state, control, state_model, calibration=None, ...)
    ensures  raises ModelDefinitionError <=> the declared sets overlap or len(state_model) != len(state);
             raises AssertionError <=> otherwise some state has no update expression; else the fields are the arguments."""

    key = "formak.ui_model:Model.__init__"

    def __init__(self, container="set"):
        self.container = container
        self.prefix = f"C14.py.ui_model.Model.__init__[{container}]"

    def setup(self, I):
        D = Definition(I, self.container)
        I.path.ghost["site"] = self.prefix
        mod = I.load_module("formak.ui_model")
        cls = I.module_attr(mod, "Model")
        obj = SObj(cls, {}, "ui_model")
        from pvc.interp import Builtin
        from pvc.models import ModelModule

        # datetime.now() timing is dropped by extraction
        I.models.froms[("datetime", "datetime")] = ModelModule("datetime", {"now": Builtin("now", lambda I2, a, k: 0)})
        I.models.froms[("sympy.parsing.sympy_parser", "parse_expr")] = Builtin("parse_expr", lambda I2, a, k: a[0])
        I.dropped.add("datetime timing")
        return Call([obj, D.dt, D.S, D.U, D.sm], {"calibration": D.Cal}, D=D, obj=obj)

    def post(self, I, call, outcome):
        P, D, pre = I.path, call.D, self.prefix
        size_mismatch = D.sm.n != card_f(D.S.term)
        x = z3.Const("ui_x", Sym)
        uncovered = z3.Exists([x], z3.And(member_f(D.S.term, x), z3.Not(D.sm.has(x))))
        if outcome[0] == "raise":
            if outcome[1] == "ModelDefinitionError":
                P.oblige(f"{pre}.refuses_only_overlap_or_arity", z3.Or(D.overlap(), size_mismatch))
            elif outcome[1] == "AssertionError":
                P.oblige(f"{pre}.refuses_only_uncovered_state", z3.And(z3.Not(D.overlap()), z3.Not(size_mismatch), uncovered))
            else:
                P.oblige(f"{pre}.no_other_exception", z3.BoolVal(False), note=f"raises {outcome[1]}")
            return
        P.oblige(f"{pre}.refuses_overlap", z3.Not(D.overlap()))
        P.oblige(f"{pre}.refuses_arity_mismatch", z3.Not(size_mismatch))
        P.oblige(f"{pre}.refuses_uncovered_state", z3.Not(uncovered))
        f = call.obj.fields
        P.oblige(f"{pre}.fields_are_arguments", z3.BoolVal(f.get("state") is D.S and f.get("control") is D.U and f.get("calibration") is D.Cal and f.get("dt") is D.dt))


# ------------------------------------------------------------------------------------------------
# caller-side forms + entry points


class ModelValidationApply(Contract):
    key = "formak.common:model_validation"

    def apply(self, I, args, kwargs):
        D = I.path.ghost["definition"]
        ui, pn, sensors = args[0], args[1], args[2]
        cm = kwargs["calibration_map"]
        from pvc.interp import PyDict

        faults = [D.calibration_mismatch()] if cm is D.cm else None
        if faults is None:
            raise Unsupported("model_validation on an unexpected calibration map")
        if pn is D.pn:
            faults.append(D.noise_for_non_control())
        elif not (isinstance(pn, PyDict) and not pn.d):
            raise Unsupported("model_validation on an unexpected process noise")
        if sensors is D.sensors:
            faults.append(D.sensor_uses_foreign_symbol())
        elif not (isinstance(sensors, PyDict) and not sensors.d):
            raise Unsupported("model_validation on unexpected sensor models")
        I.raise_if(z3.Or(*faults), "ModelConstructionError")
        return None


class PyModelInitApply(Contract):
    """python.Model.__init__ / cpp.Model.__init__ as seen from the entry points: the proved raise conditions (C01.py.Model.__init__)."""

    def __init__(self, key):
        self.key = key

    def apply(self, I, args, kwargs):
        D = I.path.ghost["definition"]
        c = card_f(D.Cal.term)
        I.raise_if(z3.And(c > 0, z3.Or(D.cm.n == 0, D.cm.n != c)), "ModelConstructionError")
        if self.key.startswith("formak.python"):
            x = z3.Const(I.path.names.fresh("mx"), Sym)
            I.raise_if(z3.Exists([x], z3.And(member_f(D.Cal.term, x), z3.Not(D.cm.has(x)))), "KeyError")
        return None


class PyEkfInitApply(Contract):
    """python.ExtendedKalmanFilter.__init__: raise conditions of _construct_process / _construct_sensors (proved in C04 / C14) in call order."""

    key = "formak.python:ExtendedKalmanFilter.__init__"

    def apply(self, I, args, kwargs):
        D = I.path.ghost["definition"]
        PyModelInitApply("formak.python:Model.__init__").apply(I, args, kwargs)
        k = card_f(D.U.term)
        I.raise_if(D.pn.n != k, "AssertionError")
        I.raise_if(gate_refuses_noise(D), "AssertionError")
        I.raise_if(D.sensor_noise_mismatch(), "AssertionError")
        return None


def gate_refuses_noise(D):
    """Consequence of the gate contract (C09) for the diagonal noise matrix: a clearly negative entry is refused.
    'Clearly' = below -1e-6 times the largest magnitude; the boundary band is the known tolerance of the validity gate."""
    return D.noise_negative()


def finite_set_axioms(P, D):
    """Cardinality facts of finite sets (mathematics, not derivable in the SMT encoding):
    keys(process_noise) subset of controls  =>  (some control has no entry  <=>  len(process_noise) != number of controls)."""
    if D.noise_keys == "Sym":
        P.definitions.add("finite sets: A subset B => (A = B <=> |A| = |B|)")
        P.facts.append(z3.Implies(z3.Not(D.noise_for_non_control()), D.noise_missing() == (D.pn.n != card_f(D.U.term))))
        x = z3.Const("fs_x", Sym)
        P.facts.append(z3.Implies(z3.Not(D.calibration_mismatch()), D.cm.n == card_f(D.Cal.term)))


class EntryPoint(Contract):
    """An entry point accepts a definition iff it is structurally valid (as far as that entry point sees the definition)."""

    inline = ("formak.cpp:_generate_model_function_bodies", "formak.cpp:_generate_ekf_function_bodies")

    def __init__(self, key, container="set"):
        self.key = key
        self.container = container
        self.short = key.replace("formak.", "").replace(":", ".")
        self.prefix = f"C14.entry.{self.short}[{container}]"

    def setup(self, I):
        from pvc.interp import Builtin, PyDict

        P = I.path
        D = Definition(I, self.container)
        P.ghost["definition"] = D
        P.ghost["site"] = self.prefix
        finite_set_axioms(P, D)
        # the ui model object exists: its own constructor accepted it
        P.assume(z3.Not(D.overlap()))
        P.assume(z3.Not(D.state_model_mismatch()))
        I.models.froms[("formak.cpp", "_compile_argparse")] = None
        ekf = "ekf" in self.key
        args = [D.ui]
        kwargs = {"calibration_map": D.cm, "config": None}
        if ekf:
            args += [D.pn, D.sensors, D.snoise]
        return Call(args, kwargs, D=D, ekf=ekf)

    def post(self, I, call, outcome):
        P, D, pre = I.path, call.D, self.prefix
        faults = {"calibration_mismatch": D.calibration_mismatch()}
        if call.ekf:
            faults.update({"noise_for_non_control": D.noise_for_non_control(), "noise_missing": D.noise_missing(), "noise_negative": D.noise_negative(), "sensor_uses_foreign_symbol": D.sensor_uses_foreign_symbol(), "sensor_noise_mismatch": D.sensor_noise_mismatch()})
        if outcome[0] == "raise":
            P.oblige(f"{pre}.accepts_valid_definitions", z3.Or(*faults.values()), note=f"raises {outcome[1]}")
        else:
            for name, f in faults.items():
                P.oblige(f"{pre}.refuses.{name}", z3.Not(f))


class CppEkfInit(Contract):
    """cpp.ExtendedKalmanFilter.__init__: raises ModelConstructionError <=> calibration arity fault, len(process_noise) != number of controls,
    a negative process-noise value, sensor-noise keys != sensor keys, or some sensor's noise keys != its readings; otherwise constructs."""

    key = "formak.cpp:ExtendedKalmanFilter.__init__"
    inline = ("formak.common:named_vector", "formak.common:named_covariance")

    def __init__(self, container="set"):
        self.container = container
        self.prefix = f"C14.cxxgen.ExtendedKalmanFilter.__init__[{container}]"

    def setup(self, I):
        P = I.path
        D = Definition(I, self.container)
        P.ghost["definition"] = D
        P.ghost["site"] = self.prefix
        mod = I.load_module("formak.cpp")
        cls = I.module_attr(mod, "ExtendedKalmanFilter")
        obj = SObj(cls, {}, "generator")
        return Call([obj], {"state_model": D.ui, "process_noise": D.pn, "sensor_models": D.sensors, "sensor_noises": D.snoise, "namespace": "ns", "header_include": "h.h", "config": SObj("Config", {"common_subexpression_elimination": True}, "config"), "calibration_map": D.cm}, D=D, obj=obj)

    def post(self, I, call, outcome):
        P, D, pre = I.path, call.D, self.prefix
        c, k = card_f(D.Cal.term), card_f(D.U.term)
        cal_arity = z3.And(c > 0, z3.Or(D.cm.n == 0, D.cm.n != c))
        fault = z3.Or(cal_arity, D.pn.n != k, D.noise_negative(), D.sensor_noise_mismatch())
        if outcome[0] == "raise":
            P.oblige(f"{pre}.only_ModelConstructionError", z3.BoolVal(outcome[1] == "ModelConstructionError"), note=f"raises {outcome[1]}")
            P.oblige(f"{pre}.refuses_only_faulty_definitions", fault)
        else:
            P.oblige(f"{pre}.refuses.calibration_arity", z3.Not(cal_arity))
            P.oblige(f"{pre}.refuses.noise_arity", D.pn.n == k)
            P.oblige(f"{pre}.refuses.noise_negative", z3.Not(D.noise_negative()))
            P.oblige(f"{pre}.refuses.sensor_noise_mismatch", z3.Not(D.sensor_noise_mismatch()))


class OpaqueApply(Contract):
    """A callee whose result is irrelevant to the validation behaviour (own verification elsewhere); never raises."""

    def __init__(self, key, result=None):
        self.key, self.result = key, result

    def apply(self, I, args, kwargs):
        from pvc.models import LazyUnsupported

        if self.key.endswith("_compile_argparse"):
            return SObj("Args", {"header": None, "source": None, "namespace": None}, "args")

        if args and isinstance(args[0], SObj) and self.key.endswith("__init__"):
            return None
        return LazyUnsupported(f"result of {self.key}")


class CppEkfInitApply(Contract):
    key = "formak.cpp:ExtendedKalmanFilter.__init__"

    def apply(self, I, args, kwargs):
        D = I.path.ghost["definition"]
        c, k = card_f(D.Cal.term), card_f(D.U.term)
        I.raise_if(z3.Or(z3.And(c > 0, z3.Or(D.cm.n == 0, D.cm.n != c)), D.pn.n != k, D.noise_negative(), D.sensor_noise_mismatch()), "ModelConstructionError")
        return None


def entry_callees():
    c = {}
    c[ModelValidationApply.key] = ModelValidationApply()
    for k in ("formak.python:Model.__init__", "formak.cpp:Model.__init__"):
        c[k] = PyModelInitApply(k)
    c[PyEkfInitApply.key] = PyEkfInitApply()
    c[CppEkfInitApply.key] = CppEkfInitApply()
    for k in ("formak.cpp:_compile_impl", "formak.cpp:_compile_argparse"):
        c[k] = OpaqueApply(k)
    return c


def cpp_init_callees():
    from contracts import common

    c = dict(common.COMMON_APPLY)
    for nm in ("_translate_process_model", "_translate_process_jacobian", "_translate_control_jacobian", "_translate_control_covariance", "_translate_return"):
        c[f"formak.cpp:ExtendedKalmanFilter.{nm}"] = OpaqueApply(f"formak.cpp:ExtendedKalmanFilter.{nm}")
    c["formak.cpp:BasicBlock.__init__"] = OpaqueApply("formak.cpp:BasicBlock.__init__")
    return c
