"""Contracts on py/formak/common.py: named_vector / named_covariance (C13)."""
from __future__ import annotations

import z3

from pvc.contract import Call, Contract, resolve_function
from pvc.interp import PyDict
from pvc.sym import Mat, SInt, SMat, SObj, SReal, SSeq, Unsupported, mat_el, to_int, to_real, wrap
from pvc.symtheory import SDictV, SeqDict, Str, StrV, Sym, SymV, name_f, real_wrap


def make_arglist(P, kind, tag="arglist"):
    """Symbolic arglist of Sym (model symbols) or Str (reading names); returns (SSeq, name_of(i) -> Str term, n)."""
    n = P.fresh_int(f"{tag}_len")
    P.assume(n >= 0)
    if kind == "Sym":
        f = z3.Function(P.names.fresh(f"{tag}_at"), z3.IntSort(), Sym)
        seq = SSeq(SInt(n), lambda i: SymV(f(i)), tag)
        seq.pvc_type = "list"
        return seq, (lambda i: name_f(f(i))), n
    f = z3.Function(P.names.fresh(f"{tag}_at"), z3.IntSort(), Str)
    seq = SSeq(SInt(n), lambda i: StrV(f(i)), tag)
    seq.pvc_type = "list"
    return seq, (lambda i: f(i)), n


class NamedArrayInit(Contract):
    """_NamedVector.__init__ / _NamedCovariance.__init__ (closure over name, arglist).

    ensures  raises TypeError  <=>  some keyword is not the str() of an element of arglist;
             raises AssertionError <=> (no unknown keyword) and _data given and kwargs non-empty;
             otherwise self.data has shape (n,1) [(n,n)] and for every idx < n:
                 data[idx,0] ([idx,idx]) = kwargs[str(arglist[idx])] if that keyword was supplied,
                 else the default (0 / identity; or _data's entry when _data was given); no other cell differs
                 from the default;  self.name = name.
    """

    inline = ("formak.common:_NamedArrayBase.__init__",)

    def __init__(self, which="vector", elem="Sym", data="none"):
        self.which, self.elem, self.data_mode = which, elem, data
        outer = "named_vector" if which == "vector" else "named_covariance"
        inner = "_NamedVector" if which == "vector" else "_NamedCovariance"
        self.key = f"formak.common:{outer}.<locals>.{inner}.__init__"
        self.prefix = f"C13.py.{outer}.__init__[{elem},data_{data}]"

    def setup(self, I):
        P = I.path
        arglist, nm, n = make_arglist(P, self.elem)
        enclosing = {"name": "State", "arglist": arglist}
        fn = resolve_function(I, self.key, enclosing)
        obj = SObj(fn.cls, {}, "self")
        kwargs = SDictV(P, "kwargs", Str, z3.RealSort(), StrV, real_wrap)
        data = None
        if self.data_mode == "given":
            cols = 1 if self.which == "vector" else SInt(n)
            data = SMat(z3.Const("data_in", Mat), shape=(SInt(n), cols), ident=object())
        return Call([obj], {"_data": data, "**": [kwargs]}, enclosing=enclosing, fn=fn, obj=obj, kwargs_=kwargs, nm=nm, n=n, data=data)

    def post(self, I, call, outcome):
        P = I.path
        pre = self.prefix
        kw, nm, n = call.kwargs_, call.nm, call.n
        k = z3.Const("k_any", Str)
        j = z3.Int("j_any")
        unknown_kw = z3.Exists([k], z3.And(kw.has(k), z3.ForAll([j], z3.Implies(z3.And(j >= 0, j < n), nm(j) != k))))
        if outcome[0] == "raise":
            if outcome[1] == "TypeError":
                P.oblige(f"{pre}.unknown_keyword.raises_only_if", unknown_kw)
            elif outcome[1] == "AssertionError":
                P.oblige(f"{pre}.data_and_kwargs.raises_only_if", z3.And(z3.Not(unknown_kw), z3.BoolVal(self.data_mode == "given"), kw.n > 0))
            else:
                P.oblige(f"{pre}.no_other_exception", z3.BoolVal(False), note=f"raises {outcome[1]}")
            return
        P.oblige(f"{pre}.unknown_keyword.raises_if", z3.Not(unknown_kw))
        if self.data_mode == "given":
            P.oblige(f"{pre}.data_and_kwargs.raises_if", kw.n == 0)
        obj = call.obj
        d = obj.fields.get("data")
        ok = isinstance(d, SMat)
        P.oblige(f"{pre}.data_is_array", z3.BoolVal(ok))
        if not ok:
            return
        cols = z3.IntVal(1) if self.which == "vector" else n
        P.oblige(f"{pre}.shape", z3.And(to_int(d.rows()) == n, to_int(d.cols()) == cols))
        r, c = z3.Int("r_any"), z3.Int("c_any")
        in_range = z3.And(r >= 0, r < n, c >= 0, c < cols)
        if self.data_mode == "given":
            default = mat_el(z3.Const("data_in", Mat), r, c)  # entry value (the array object is mutated in place)
        elif self.which == "vector":
            default = z3.RealVal(0)
        else:
            default = z3.If(r == c, z3.RealVal(1), z3.RealVal(0))
        slot = (c == 0) if self.which == "vector" else (c == r)
        want = z3.If(z3.And(slot, kw.has(nm(r))), kw.get(nm(r)), default)
        P.oblige(f"{pre}.slot_by_name", z3.Implies(in_range, d.el(r, c) == want))
        if self.data_mode == "given":
            P.oblige(f"{pre}.data_identity", z3.BoolVal(d is call.data))
        P.oblige(f"{pre}.name_field", z3.BoolVal(obj.fields.get("name") == "State"))


def named_array_contracts():
    out = []
    for which in ("vector", "covariance"):
        for elem in ("Sym", "Str"):
            for data in ("none", "given"):
                out.append(NamedArrayInit(which, elem, data))
    return out


# ------------------------------------------------------------------------------------------------
# caller-side views


class KwView:
    """Uniform view of a **kwargs argument (symbolic dict, empty/concrete dict, dict built from a sequence)."""

    def __init__(self, has, get, count, raw):
        self.has, self.get, self.count, self.raw = has, get, count, raw


def kw_view(I, kwargs):
    star = kwargs.get("**")
    named = {k: v for k, v in kwargs.items() if k not in ("**", "_data")}
    if star and named:
        raise Unsupported("mixed ** and explicit keywords")
    if star:
        d = star[0]
        if isinstance(d, SDictV):
            return KwView(d.has, d.get, d.n, d)
        if isinstance(d, SeqDict):
            return KwView(d.has, d.get, d.n, d)
        if isinstance(d, PyDict) and not d.d:
            return KwView(lambda k: z3.BoolVal(False), lambda k: z3.RealVal(0), z3.IntVal(0), d)
        raise Unsupported(f"kwargs view of {d!r}")
    if not named:
        return KwView(lambda k: z3.BoolVal(False), lambda k: z3.RealVal(0), z3.IntVal(0), None)
    raise Unsupported("explicit concrete keywords at a contract call site")


def class_closure_vars(cls):
    """(which, name, arglist) of a class produced by named_vector / named_covariance."""
    c = cls
    while c is not None:
        if c.enclosing is not None and "arglist" in c.enclosing.locals:
            fr = c.enclosing
            which = "vector" if "named_vector" in c.qualname else "covariance"
            return which, fr.locals.get("name"), fr.locals["arglist"]
        c = next((b for b in c.bases if hasattr(b, "enclosing")), None)
    raise Unsupported("not a named array class")


def arg_name_z(I, arglist, i):
    """Str term of str(arglist[i])."""
    from pvc.interp import as_seq2

    el = as_seq2(arglist).at(i) if not isinstance(arglist, SSeq) else arglist.at(i)
    s = I.models.to_str(I, el)
    if isinstance(s, StrV):
        return s.z
    raise Unsupported("concrete names in named array")


def arglist_len(arglist):
    from pvc.sym import seq_len

    return to_int(seq_len(arglist) if not hasattr(arglist, "items") else len(arglist.items))


class NamedArrayInitApply(Contract):
    """Caller-side form of NamedArrayInit (same clauses, assumed)."""

    kind = "repo"

    def __init__(self, which):
        outer = "named_vector" if which == "vector" else "named_covariance"
        inner = "_NamedVector" if which == "vector" else "_NamedCovariance"
        self.which = which
        self.key = f"formak.common:{outer}.<locals>.{inner}.__init__"

    def apply(self, I, args, kwargs):
        obj = args[0]
        which, name, arglist = class_closure_vars(obj.cls)
        n = arglist_len(arglist)
        data = kwargs.get("_data")
        kw = kw_view(I, kwargs)
        P = I.path
        k = z3.Const(P.names.fresh("kk"), Str)
        j = z3.Int(P.names.fresh("jj"))
        nm = lambda i: arg_name_z(I, arglist, i)
        unknown_kw = z3.Exists([k], z3.And(kw.has(k), z3.ForAll([j], z3.Implies(z3.And(j >= 0, j < n), nm(j) != k))))
        if not z3.is_false(z3.simplify(unknown_kw)) and not isinstance(kw.count, int) and not z3.is_int_value(z3.simplify(kw.count)):
            I.raise_if(unknown_kw, "TypeError")
        if data is not None:
            I.raise_if(kw.count != 0, "AssertionError")
        cols = z3.IntVal(1) if which == "vector" else n
        if data is not None:
            old_cells = data.cells if data.cells is not None else (lambda r, c, t=data.term: mat_el(t, r, c))
            default = old_cells
        elif which == "vector":
            default = lambda r, c: z3.RealVal(0)
        else:
            default = lambda r, c: z3.If(r == c, z3.RealVal(1), z3.RealVal(0))

        def cells(r, c):
            slot = (c == 0) if which == "vector" else (c == r)
            return z3.If(z3.And(slot, kw.has(nm(r))), kw.get(nm(r)), default(r, c))

        if data is not None:
            # kwargs are empty on this path: the array object itself is stored, unchanged
            obj.fields["data"] = data
        else:
            obj.fields["data"] = SMat(z3.Const(P.names.fresh("nv"), Mat), cells=cells, shape=(wrap(n), wrap(cols)), ident=object())
        obj.fields["name"] = name
        obj.fields["_kwargs"] = kw.raw
        return None


class FromData(Contract):
    """_NamedArrayBase.from_data(cls, data): raises ValueError <=> data.shape != cls.shape; else cls(_data=data),
    i.e. an instance whose .data IS the argument."""

    key = "formak.common:_NamedArrayBase.from_data"
    prefix = "C13.py.from_data"

    def __init__(self, which="vector"):
        self.which = which
        self.prefix = f"C13.py.from_data[{which}]"

    def setup(self, I):
        P = I.path
        arglist, nm, n = make_arglist(P, "Sym")
        cls = make_named_class(I, self.which, "State", arglist)
        data = SMat(z3.Const("data_in", Mat), shape=(SInt(P.fresh_int("dr")), SInt(P.fresh_int("dc"))), ident=object())
        return Call([cls, data], {}, cls=cls, data=data, n=n)

    def post(self, I, call, outcome):
        P = I.path
        d = call.data
        cols = z3.IntVal(1) if self.which == "vector" else call.n
        bad = z3.Or(to_int(d.rows()) != call.n, to_int(d.cols()) != cols)
        if outcome[0] == "raise":
            P.oblige(f"{self.prefix}.only_valueerror", z3.BoolVal(outcome[1] == "ValueError"), note=f"raises {outcome[1]}")
            P.oblige(f"{self.prefix}.raises_only_if_shape_differs", bad)
            return
        P.oblige(f"{self.prefix}.raises_if_shape_differs", z3.Not(bad))
        rv = outcome[1]
        ok = isinstance(rv, SObj) and rv.cls is call.cls
        P.oblige(f"{self.prefix}.instance_of_class", z3.BoolVal(ok))
        if ok:
            P.oblige(f"{self.prefix}.data_is_argument", z3.BoolVal(rv.fields.get("data") is d))

    def apply(self, I, args, kwargs):
        cls, data = args[0], args[1]
        which, name, arglist = class_closure_vars(cls)
        n = arglist_len(arglist)
        cols = z3.IntVal(1) if which == "vector" else n
        if not isinstance(data, SMat):
            raise Unsupported("from_data of non-array")
        I.raise_if(z3.Or(to_int(data.rows()) != n, to_int(data.cols()) != cols), "ValueError")
        obj = SObj(cls, {"data": data, "name": name, "_kwargs": None}, I.path.names.fresh(str(name).lower()))
        return obj


def make_named_class(I, which, name, arglist):
    """Run the real common.named_vector / named_covariance (class factory) in the interpreter."""
    mod = I.load_module("formak.common")
    f = I.module_attr(mod, "named_vector" if which == "vector" else "named_covariance")
    return I.run_closure(f, [name, arglist], {})


def make_named_instance(I, cls, tag, cells=None):
    which, name, arglist = class_closure_vars(cls)
    n = arglist_len(arglist)
    cols = 1 if which == "vector" else wrap(n)
    m = SMat(z3.Const(I.path.names.fresh(tag), Mat), cells=cells, shape=(wrap(n), cols), ident=object())
    return SObj(cls, {"data": m, "name": name, "_kwargs": None}, tag)


class NamedIter(Contract):
    """_NamedArrayBase.__iter__: iterates the rows of .data in index order."""

    key = "formak.common:_NamedArrayBase.__iter__"

    def apply(self, I, args, kwargs):
        from pvc.interp import GenV

        return GenV(I.iter_seq(args[0].fields["data"]))


COMMON_APPLY = {c.key: c for c in (NamedArrayInitApply("vector"), NamedArrayInitApply("covariance"), FromData("vector"), NamedIter())}


class FromDict(Contract):
    """_NamedArrayBase.from_dict(cls, mapping) = cls(**{str(k): v for k, v in mapping.items()}).
    requires str injective on the mapping's keys (symbols with distinct names / strings).
    ensures  raises TypeError <=> some key's str() is not a name of the class; else the instance holds, at the
             slot of each name, the mapping's value for the key of that name, and the default elsewhere."""

    key = "formak.common:_NamedArrayBase.from_dict"

    def __init__(self, which="vector", keykind="Str"):
        self.which, self.keykind = which, keykind
        self.prefix = f"C13.py.from_dict[{which},{keykind}]"

    def setup(self, I):
        P = I.path
        P.ghost["site"] = self.prefix
        arglist, nm, n = make_arglist(P, "Str" if self.keykind == "Str" else "Sym")
        cls = make_named_class(I, self.which, "State", arglist)
        if self.keykind == "Str":
            mapping = SDictV(P, "mapping", Str, z3.RealSort(), StrV, real_wrap)
            keyname = lambda k: k
        else:
            mapping = SDictV(P, "mapping", Sym, z3.RealSort(), SymV, real_wrap)
            keyname = lambda k: name_f(k)
            a, b = z3.Const("ka_sym", Sym), z3.Const("kb_sym", Sym)
            P.facts.append(z3.ForAll([a, b], z3.Implies(z3.And(mapping.has(a), mapping.has(b), a != b), name_f(a) != name_f(b))))
        return Call([cls, mapping], {}, cls=cls, mapping=mapping, nm=nm, n=n, keyname=keyname)

    def post(self, I, call, outcome):
        P = I.path
        pre = self.prefix
        mp, nm, n, keyname = call.mapping, call.nm, call.n, call.keyname
        k = z3.Const("k_any", mp.key_sort)
        j = z3.Int("j_any")
        unknown = z3.Exists([k], z3.And(mp.has(k), z3.ForAll([j], z3.Implies(z3.And(j >= 0, j < n), nm(j) != keyname(k)))))
        if outcome[0] == "raise":
            P.oblige(f"{pre}.only_typeerror", z3.BoolVal(outcome[1] == "TypeError"), note=f"raises {outcome[1]}")
            P.oblige(f"{pre}.raises_only_if_unknown_key", unknown)
            return
        P.oblige(f"{pre}.raises_if_unknown_key", z3.Not(unknown))
        rv = outcome[1]
        ok = isinstance(rv, SObj) and rv.cls is call.cls and isinstance(rv.fields.get("data"), SMat)
        P.oblige(f"{pre}.instance_of_class", z3.BoolVal(ok))
        if not ok:
            return
        d = rv.fields["data"]
        cols = z3.IntVal(1) if self.which == "vector" else n
        P.oblige(f"{pre}.shape", z3.And(to_int(d.rows()) == n, to_int(d.cols()) == cols))
        r, c = z3.Int("r_any"), z3.Int("c_any")
        kk = z3.Const("kk_any", mp.key_sort)
        slot = (c == 0) if self.which == "vector" else (c == r)
        default = z3.RealVal(0) if self.which == "vector" else z3.If(r == c, z3.RealVal(1), z3.RealVal(0))
        in_range = z3.And(r >= 0, r < n, c >= 0, c < cols)
        # for every key kk of the mapping whose name is the name of slot r: that slot holds mapping[kk]
        P.oblige(f"{pre}.slot_by_name.present", z3.Implies(z3.And(in_range, slot, mp.has(kk), keyname(kk) == nm(r)), d.el(r, c) == mp.get(kk)))
        no_key = z3.ForAll([k], z3.Implies(mp.has(k), keyname(k) != nm(r)))
        P.oblige(f"{pre}.slot_by_name.default", z3.Implies(z3.And(in_range, z3.Or(z3.Not(slot), no_key)), d.el(r, c) == default))

    def apply(self, I, args, kwargs):
        raise Unsupported("from_dict caller-side form is provided per call site")
