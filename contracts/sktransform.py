"""Contract on SklearnEKFAdapter.transform / mahalanobis / score (C16).

The exported filter is opaque and pure (its own contracts are C04/C05/C06):
    PM(dt, x, P, u) -> (x', P');  SM(key, z, x, P) -> (x', P') and records innovation INN(key, z, x, P), innovation covariance SPU(key, z, x, P).
Data matrix X (n rows, k + m0 + m1 columns): COL(X, i, lo, hi) is the column vector X[i, lo:hi].
Spec `run` (recursive, unfolded on demand): estimate after i rows; row i = predict with dt = 0.1 and controls COL(X,i,0,k), then update the sensors in
KEY ORDER with readings COL(X, i, k+off_j, k+off_j+m_j); out[i][j] = nu^T S^-1 nu of the values recorded by update j of row i.
"""
from __future__ import annotations

import z3

from contracts.pyekf import nis_f
from pvc.contract import Call, Contract, LoopInv
from pvc.interp import Builtin, PyDict, PyList, SliceV
from pvc.sym import Mat, PyRaise, SInt, SMat, SNum, SObj, SReal, SSeq, SV, Unsupported, mat_inv, to_int, to_real, wrap
from pvc.symtheory import Str, StrV, ord_f

R = z3.RealSort()
DataS = z3.DeclareSort("DataMatrix")
col_f = z3.Function("COL", DataS, z3.IntSort(), z3.IntSort(), z3.IntSort(), Mat)
pm_x = z3.Function("PMf_state", R, Mat, Mat, Mat, Mat)
pm_P = z3.Function("PMf_cov", R, Mat, Mat, Mat, Mat)
sm_x = z3.Function("SMf_state", Str, Mat, Mat, Mat, Mat)
sm_P = z3.Function("SMf_cov", Str, Mat, Mat, Mat, Mat)
inn_f = z3.Function("INN", Str, Mat, Mat, Mat, Mat)
spu_f = z3.Function("SPU", Str, Mat, Mat, Mat, Mat)
x0_c, P0_c = z3.Const("x_default", Mat), z3.Const("P_default", Mat)
DT = z3.RealVal("1/10")


class RowSlice(SV):
    """X[i, lo:hi] (1-d)."""

    def __init__(self, X, i, lo, hi):
        self.X, self.i, self.lo, self.hi = X, i, lo, hi

    def pvc_getitem(self, I, idx):
        if not isinstance(idx, SliceV) or idx.step is not None:
            raise Unsupported("row slice index")
        n = self.hi - self.lo
        a = to_int(idx.lo) if idx.lo is not None else z3.IntVal(0)
        b = to_int(idx.hi) if idx.hi is not None else n
        # numpy clamps slice bounds; widths are checked by the reshape below
        a = z3.If(a > n, n, a)
        b = z3.If(b > n, n, b)
        return RowSlice(self.X, self.i, z3.simplify(self.lo + a), z3.simplify(self.lo + b))

    def pvc_getattr(self, I, name):
        if name == "reshape":

            def f(I2, args, kw):
                shp = args[0]
                rows, cols = shp
                I2.raise_if(z3.Or(to_int(rows) * to_int(cols) != self.hi - self.lo, to_int(cols) != 1), "ValueError")
                return SMat(col_f(self.X.z, self.i, self.lo, self.hi), shape=(rows, 1), ident=object())

            return Builtin("ndarray.reshape", f)
        return NotImplemented


class DataX(SV):
    pvc_ndarray = True

    def __init__(self, z, n, w):
        self.z, self.n, self.w = z, n, w

    def pvc_getattr(self, I, name):
        if name == "shape":
            return (SInt(self.n), SInt(self.w))
        return NotImplemented

    def pvc_getitem(self, I, idx):
        if isinstance(idx, tuple) and len(idx) == 2 and isinstance(idx[1], SliceV):
            i, sl = idx
            lo = to_int(sl.lo) if sl.lo is not None else z3.IntVal(0)
            hi = to_int(sl.hi) if sl.hi is not None else self.w
            lo = z3.If(lo > self.w, self.w, lo)
            hi = z3.If(hi > self.w, self.w, hi)
            return RowSlice(self, to_int(i), z3.simplify(lo), z3.simplify(hi))
        raise Unsupported("data matrix index")


class Sized(SV):
    def __init__(self, n):
        self.n = n

    def pvc_len(self, I):
        return SInt(self.n)


class EstObj(SV):
    """State / covariance / reading / control object of the exported filter: only .data is used."""

    def __init__(self, term, shape=None, key=None):
        self.term, self.key = term, key
        self.data = SMat(term, shape=shape, ident=object())

    def pvc_getattr(self, I, name):
        if name == "data":
            return self.data
        return NotImplemented

    def pvc_subst(self, pairs):
        return EstObj(z3.substitute(self.term, *pairs), self.data.shape_, self.key)

    def pvc_merge(self, c, other):
        if isinstance(other, EstObj) and other.term.sort() == self.term.sort():
            return EstObj(z3.If(c, self.term, other.term), self.data.shape_, self.key)
        return NotImplemented


class Recorded(SV):
    """filter.innovations / filter.sensor_prediction_uncertainty: last recorded value per key."""

    def __init__(self, tag):
        self.tag = tag
        self.d = []

    def record(self, key, mat):
        self.d = [(k, v) for k, v in self.d if k is not key] + [(key, mat)]

    def pvc_getitem(self, I, key):
        for k, v in self.d:
            if k is key:
                return v
        raise PyRaise("KeyError")


class World:
    def __init__(self, I):
        P = I.path
        self.keys = [StrV(z3.Const(f"sensor_key_{i}", Str)) for i in range(2)]
        P.assume(ord_f(self.keys[0].z) < ord_f(self.keys[1].z))
        P.assume(self.keys[0].z != self.keys[1].z)
        self.k = P.fresh_int("n_controls")
        self.m = [P.fresh_int("m0"), P.fresh_int("m1")]
        self.n = P.fresh_int("n_rows")
        P.assume(z3.And(self.k >= 0, self.m[0] >= 1, self.m[1] >= 1, self.n >= 0))
        self.w = self.k + self.m[0] + self.m[1]
        self.X = DataX(z3.Const("X", DataS), self.n, z3.simplify(self.w))
        self.run_x = z3.Function("run_state", z3.IntSort(), Mat)
        self.run_P = z3.Function("run_cov", z3.IntSort(), Mat)
        self.calls = []  # per-iteration call log (concrete within one execution of the body)
        self.innovations = Recorded("innovations")
        self.spu = Recorded("sensor_prediction_uncertainty")
        sens = PyDict()
        sens.d[self.keys[1]] = Sized(self.m[1])
        sens.d[self.keys[0]] = Sized(self.m[0])
        W = self

        def mk(kind):
            return Builtin(kind, lambda I2, a, k: EstObj(x0_c if kind == "State" else P0_c))

        control_cls = SObj("ControlCls", {}, "Control")
        self.filter = SObj("FilterX", {"sensor_models": sens, "control_size": SInt(self.k), "State": mk("State"), "Covariance": mk("Covariance"), "Control": control_cls, "innovations": self.innovations, "sensor_prediction_uncertainty": self.spu,
            # the exported filter carries the configuration it was compiled with: any maximum step, any threshold
            "config": SObj("Config", {"max_dt_sec": SNum(z3.Real("filter.config.max_dt_sec")), "innovation_filtering": SNum(z3.Real("filter.config.innovation_filtering"))}, "model_.config")}, "model_")

    # spec -----------------------------------------------------------------------------------------
    def row(self, i):
        """Spec of row i from run(i): returns (out0, out1, x_after, P_after) and the call structure."""
        X = self.X.z
        k, m0, m1 = self.k, self.m[0], self.m[1]
        u = col_f(X, i, z3.IntVal(0), k)
        xp, Pp = pm_x(DT, self.run_x(i), self.run_P(i), u), pm_P(DT, self.run_x(i), self.run_P(i), u)
        outs = []
        x, Pm = xp, Pp
        lo = k
        for j, m in enumerate((m0, m1)):
            kz = self.keys[j].z
            z = col_f(X, i, z3.simplify(lo), z3.simplify(lo + m))
            nu, S = inn_f(kz, z, x, Pm), spu_f(kz, z, x, Pm)
            outs.append(nis_f(nu, mat_inv(S)))
            x, Pm = sm_x(kz, z, x, Pm), sm_P(kz, z, x, Pm)
            lo = lo + m
        return outs, x, Pm

    def unfold(self, i):
        outs, x, Pm = self.row(i)
        return z3.And(self.run_x(0) == x0_c, self.run_P(0) == P0_c, z3.Implies(i >= 0, z3.And(self.run_x(i + 1) == x, self.run_P(i + 1) == Pm)))


class FilterPM(Contract):
    key = "FilterX.process_model"
    kind = "assumed"

    def apply(self, I, args, kwargs):
        _, dt, st, cov, ctl = args
        W = I.path.ghost["world"]
        return (EstObj(pm_x(to_real(dt), st.term, cov.term, ctl.term)), EstObj(pm_P(to_real(dt), st.term, cov.term, ctl.term)))


class FilterSM(Contract):
    key = "FilterX.sensor_model"
    kind = "assumed"

    def apply(self, I, args, kwargs):
        W = I.path.ghost["world"]
        st, cov, key, rd = kwargs["state"], kwargs["covariance"], kwargs["sensor_key"], kwargs["sensor_reading"]
        kz = key.z
        m = [W.m[j] for j in range(2) if W.keys[j] is key]
        m = m[0] if m else None
        nu, S = inn_f(kz, rd.term, st.term, cov.term), spu_f(kz, rd.term, st.term, cov.term)
        W.innovations.record(key, SMat(nu, shape=(SInt(m), 1), ident=object()))
        W.spu.record(key, SMat(S, shape=(SInt(m), SInt(m)), ident=object()))
        # S is positive definite (C05 + Lean): the normalised innovation squared is non-negative
        I.path.define(nis_f(nu, mat_inv(S)) >= 0, "S positive definite => nu^T S^-1 nu >= 0 (Lean/Mathlib)")
        return (EstObj(sm_x(kz, rd.term, st.term, cov.term)), EstObj(sm_P(kz, rd.term, st.term, cov.term)))


class FilterMakeReading(Contract):
    key = "FilterX.make_reading"
    kind = "assumed"

    def apply(self, I, args, kwargs):
        data = kwargs.get("data")
        if not isinstance(data, SMat):
            raise Unsupported("make_reading without data")
        return EstObj(data.term, data.shape_, args[1])


class ControlFromData(Contract):
    key = "ControlCls.from_data"
    kind = "assumed"

    def apply(self, I, args, kwargs):
        return EstObj(args[1].term, args[1].shape_)


class CompileEkfStub(Contract):
    """python.compile_ekf as seen from transform: returns the exported filter (its behaviour: C04/C05/C06/C14)."""

    key = "formak.python:compile_ekf"

    def apply(self, I, args, kwargs):
        W = I.path.ghost["world"]
        obj = W.adapter
        ok = all(kwargs.get(k) is obj.fields[k] for k in ("symbolic_model", "process_noise", "sensor_models", "sensor_noises", "calibration_map", "config"))
        I.path.oblige(f"{I.path.ghost['site']}.filter_built_from_the_six_parameters", z3.BoolVal(ok))
        return W.filter


class ClampStub(Contract):
    """nearest_positive_definite as seen from transform (its own contract: C17): the result is a NEW mapping whose values may
    differ from the argument's - it is not the estimator's parameter."""

    key = "formak.python:nearest_positive_definite"

    def apply(self, I, args, kwargs):
        return SObj("ClampedNoise", {"of": args[0]}, "clamped")


class GateStub(Contract):
    """The exported filter returns valid covariances (C04/C05/C09): the gate does not fire inside transform."""

    key = "formak.python:assert_valid_covariance"

    def apply(self, I, args, kwargs):
        return None


class Transform(Contract):
    """SklearnEKFAdapter.transform(X)  for X of shape (n, k + m0 + m1), two generic sensors, any n, k, m0, m1.
    ensures  returns an (n x 2) array with out[i][j] = NIS recorded by update j of row i of the hand-run filter (see module docstring):
             predict with dt = 0.1 and controls X[i, :k], then updates in sensor KEY order with the readings' own column blocks;
             every value non-negative;  frame: only self.model_ is written."""

    assignable = ('model_',)  # frame: transform stores the compiled filter in model_ and nothing else

    key = "formak.python:SklearnEKFAdapter.transform"
    prefix = "C16.py.transform"
    inline = ("formak.python:force_to_ndarray",)

    def __init__(self, include_states=False):
        # include_states (optional, off by default; mahalanobis turns it on): the same NIS array comes first, then the estimates after
        # 0..n rows (the initial estimate and one per row)
        self.include_states = include_states
        if include_states:
            self.prefix = "C16.py.transform[include_states]"

        def inv(I, kk, env, call):
            W = call.W
            kz = to_int(kk)
            I.path.define(W.unfold(kz), "run unfolding (recursive spec function)")
            if not (z3.is_int_value(z3.simplify(kz)) and z3.simplify(kz).as_long() == 0):
                I.path.define(W.unfold(kz - 1), "run unfolding (recursive spec function)")
            st, cv, inn = env["state"], env["covariance"], env["innovations"]
            out = [("state_is_run", st.term == W.run_x(kz)), ("covariance_is_run", cv.term == W.run_P(kz))]
            j = z3.Int("row_any")
            from pvc.interp import as_seq2

            innseq = as_seq2(inn) if not isinstance(inn, SSeq) else inn
            out.append(("rows_so_far", innseq.len_z() == kz))
            # the estimates kept for include_states: the initial one and one per finished row
            for nm, spec in (("states", W.run_x), ("covariances", W.run_P)):
                kept = env.get(nm)
                if kept is None:
                    continue
                kseq = as_seq2(kept) if not isinstance(kept, SSeq) else kept
                out.append((f"{nm}_kept_so_far", kseq.len_z() == kz + 1))
                if isinstance(kept, PyList):
                    vals_ok = [v.term == spec(z3.IntVal(q)) for q, v in enumerate(kept.items) if isinstance(v, EstObj)]
                    out.append((f"{nm}_kept_values", z3.And(*vals_ok) if len(vals_ok) == len(kept.items) else z3.BoolVal(False)))
                else:
                    q = z3.Int("kept_any")
                    el = kseq.at(q)
                    I.path.define(W.unfold(q - 1), "run unfolding (recursive spec function)")
                    out.append((f"{nm}_kept_values", z3.Implies(z3.And(q >= 0, q <= kz), el.term == spec(q)) if isinstance(el, EstObj) else z3.BoolVal(False)))
            if isinstance(inn, PyList) and not inn.items:
                return out
            rowv = innseq.at(j)
            vals = rowv.items if isinstance(rowv, PyList) else None
            if vals is None or len(vals) != 2:
                out.append(("row_shape", z3.BoolVal(False)))
                return out
            I.path.define(W.unfold(j), "run unfolding (recursive spec function)")
            outs, _, _ = W.row(j)
            out.append(("row_values", z3.Implies(z3.And(j >= 0, j < kz), z3.And(to_real(vals[0]) == outs[0], to_real(vals[1]) == outs[1]))))
            return out

        def mk_rows(I, tag, k):
            W = I.path.ghost["world"]
            kz = to_int(k)

            def at(i):
                outs, _, _ = W.row(i)
                return PyList([SReal(outs[0]), SReal(outs[1])])

            s = SSeq(wrap(kz), at, "innovations")
            s.pvc_type = "list"
            return s

        def mk_list(fn):
            def f(I, tag, k):
                W = I.path.ghost["world"]
                s = SSeq(wrap(z3.simplify(to_int(k) + 1)), lambda i: EstObj(fn(W)(i)), tag)
                s.pvc_type = "list"
                return s

            return f

        self.loops = {
            "X.shape[0]": LoopInv(
                carried={
                    "state": lambda I, tag, k: EstObj(I.path.ghost["world"].run_x(to_int(k))),
                    "covariance": lambda I, tag, k: EstObj(I.path.ghost["world"].run_P(to_int(k))),
                    "innovations": mk_rows,
                    "states": mk_list(lambda W: W.run_x),
                    "covariances": mk_list(lambda W: W.run_P),
                },
                inv=inv,
                name="rows",
                pass_k=True,
            )
        }

    def setup(self, I):
        from contracts.sklearn import ALLOWED, adapter_class

        P = I.path
        W = World(I)
        P.ghost["world"] = W
        P.ghost["site"] = self.prefix
        W.adapter = SObj(adapter_class(I), {k: SObj("Val", {}, k) for k in ALLOWED}, "adapter")
        for c in (FilterPM(), FilterSM(), FilterMakeReading(), ControlFromData(), CompileEkfStub(), GateStub(), ClampStub()):
            I.contracts[c.key] = c
        install_np(I)
        # S = H P H^T + Q is positive definite for the exported filter (C05 + Lean/Mathlib): nu^T S^-1 nu >= 0 for every recorded pair
        kq, zq, xq, Pq = z3.Const("qk", Str), z3.Const("qz", Mat), z3.Const("qx", Mat), z3.Const("qP", Mat)
        P.definitions.add("S positive definite => nu^T S^-1 nu >= 0 (Lean/Mathlib)")
        P.facts.append(z3.ForAll([kq, zq, xq, Pq], nis_f(inn_f(kq, zq, xq, Pq), mat_inv(spu_f(kq, zq, xq, Pq))) >= 0, patterns=[inn_f(kq, zq, xq, Pq)]))
        return Call([W.adapter, W.X], ({"include_states": True} if self.include_states else {}), W=W, old=dict(W.adapter.fields))

    def post(self, I, call, outcome):
        P, pre, W = I.path, self.prefix, call.W
        if outcome[0] == "raise":
            P.oblige(f"{pre}.no_exception_for_matching_width", z3.BoolVal(False), note=f"raises {outcome[1]}")
            return
        rv = outcome[1]
        if self.include_states:
            triple = isinstance(rv, tuple) and len(rv) == 3
            P.oblige(f"{pre}.returns_innovations_states_covariances", z3.BoolVal(triple))
            if not triple:
                return
            for nm, arr, spec in (("states", rv[1], W.run_x), ("covariances", rv[2], W.run_P)):
                good_arr = isinstance(arr, Arr2D)
                P.oblige(f"{pre}.{nm}.is_array", z3.BoolVal(good_arr))
                if good_arr:
                    i2 = z3.Int("est_any")
                    P.define(W.unfold(i2 - 1), "run unfolding (recursive spec function)")
                    el = arr.rows.at(i2)
                    P.oblige(f"{pre}.{nm}.one_per_row_plus_the_initial", arr.rows.len_z() == W.n + 1)
                    P.oblige(f"{pre}.{nm}.estimate_after_i_rows", z3.Implies(z3.And(i2 >= 0, i2 <= W.n), el.term == spec(i2)) if isinstance(el, EstObj) else z3.BoolVal(False), theory="euf")
            rv = rv[0]
        ok = isinstance(rv, Arr2D)
        P.oblige(f"{pre}.returns_array", z3.BoolVal(ok))
        if ok:
            i = z3.Int("row_any")
            P.define(W.unfold(i), "run unfolding (recursive spec function)")
            outs, _, _ = W.row(i)
            row = rv.rows.at(i)
            good = isinstance(row, PyList) and len(row.items) == 2
            P.oblige(f"{pre}.one_value_per_sensor", z3.BoolVal(good))
            if good:
                P.oblige(f"{pre}.one_row_per_sample", rv.rows.len_z() == W.n)
                for j in range(2):
                    P.oblige(f"{pre}.value_is_hand_run_NIS.sensor{j}", z3.Implies(z3.And(i >= 0, i < W.n), to_real(row.items[j]) == outs[j]), theory="euf")
                    P.oblige(f"{pre}.non_negative.sensor{j}", z3.Implies(z3.And(i >= 0, i < W.n), to_real(row.items[j]) >= 0))
        for f, v in call.old.items():
            P.oblige(f"{pre}.frame.{f}", z3.BoolVal(W.adapter.fields.get(f) is v))
        extra = set(W.adapter.fields) - set(call.old) - {"model_"}
        P.oblige(f"{pre}.frame.only_model__added", z3.BoolVal(not extra))


class Arr2D(SV):
    def __init__(self, rows):
        self.rows = rows

    def pvc_compare(self, I, op, other, swapped):
        import ast

        if swapped or not isinstance(op, ast.Lt):
            return NotImplemented
        return ArrCmp(self, to_real(other))


class ArrCmp(SV):
    def __init__(self, arr, bound):
        self.arr, self.bound = arr, bound


class Vec1D(SV):
    def __init__(self, items):
        self.items = items

    def pvc_compare(self, I, op, other, swapped):
        import ast

        if swapped or not isinstance(op, ast.Lt):
            return NotImplemented
        b = to_real(other)
        return wrap(z3.Or(*[to_real(v) < b for v in self.items])) if self.items else False


def install_np(I):
    """numpy pieces used by transform on top of pvc.np_model."""
    npm = I.models.modules["numpy"]
    base_array = npm.attrs["array"]
    base_any = npm.attrs["any"]

    def np_array(I2, args, kw):
        v = args[0]
        if isinstance(v, PyList) and all(isinstance(x, (SReal, float, int)) for x in v.items):
            return Vec1D(list(v.items))
        if isinstance(v, SSeq):
            probe = v.at(z3.Int("probe!r"))
            if isinstance(probe, PyList):
                return Arr2D(v)
            if isinstance(probe, EstObj):
                return Arr2D(v)
        if isinstance(v, PyList) and all(isinstance(x, (PyList, EstObj)) for x in v.items):
            return Arr2D(SSeq.from_list(v.items))
        return base_array.fn(I2, args, kw)

    def np_any(I2, args, kw):
        v = args[0]
        if isinstance(v, (bool,)):
            return v
        from pvc.sym import SBool

        if isinstance(v, SBool):
            return v
        if isinstance(v, ArrCmp):
            i = z3.Int(I2.path.names.fresh("ri"))
            row = v.arr.rows.at(i)
            if isinstance(row, PyList):
                body = z3.Or(*[to_real(x) < v.bound for x in row.items]) if row.items else z3.BoolVal(False)
                return wrap(z3.Exists([i], z3.And(i >= 0, i < v.arr.rows.len_z(), body)))
            raise Unsupported("np.any over rows")
        return base_any.fn(I2, args, kw)

    def np_reshape(I2, args, kw):
        raise Unsupported("np.reshape")

    npm.attrs["array"] = Builtin("np.array", np_array)
    npm.attrs["any"] = Builtin("np.any", np_any)
    npm.attrs["reshape"] = Builtin("np.reshape", np_reshape)
    nd = npm.attrs["ndarray"]
    old_pred = nd.pred
    nd.pred = lambda I2, v: isinstance(v, DataX) or old_pred(I2, v)


# ------------------------------------------------------------------------------------------------
# mahalanobis / score on a vector of fixed small length with symbolic entries


class VecL(SV):
    """1-d float array of concrete length with symbolic entries."""

    def __init__(self, items):
        self.items = list(items)

    def pvc_len(self, I):
        return len(self.items)

    def pvc_getattr(self, I, name):
        if name == "shape":
            return (len(self.items),)
        if name == "flatten":
            return Builtin("flatten", lambda I2, a, k: self)
        return NotImplemented

    def pvc_binop(self, I, op, other, swapped):
        import ast

        if isinstance(op, ast.Mult) and isinstance(other, VecL) and len(other.items) == len(self.items):
            return VecL([SReal(to_real(a) * to_real(b)) for a, b in zip(self.items, other.items)])
        return NotImplemented


def install_np_score(I):
    from pvc.models import sqrt_f

    npm = I.models.modules["numpy"]

    def vec(v):
        if isinstance(v, VecL):
            return v.items
        if isinstance(v, PyList):
            return v.items
        if isinstance(v, SSeq) and isinstance(v.length, int):
            return [v.at(z3.IntVal(i)) for i in range(v.length)]
        return None

    def np_sqrt(I2, args, kw):
        items = vec(args[0])
        if items is None:
            raise Unsupported("np.sqrt of a non-vector")
        out = []
        for x in items:
            xz = to_real(x)
            r = sqrt_f(xz)
            I2.path.define(z3.Implies(xz >= 0, z3.And(r >= 0, r * r == xz)), "sqrt law")
            out.append(SReal(r))
        return VecL(out)

    def np_mean(I2, args, kw):
        items = vec(args[0])
        if not items:
            raise Unsupported("np.mean of empty / unknown")
        s = to_real(items[0])
        for x in items[1:]:
            s = s + to_real(x)
        return SReal(s / len(items))

    def np_square(I2, args, kw):
        v = args[0]
        items = vec(v)
        if items is not None:
            return VecL([SReal(to_real(x) * to_real(x)) for x in items])
        return SReal(to_real(v) * to_real(v))

    def np_sum(I2, args, kw):
        v = args[0]
        items = vec(v)
        if items is None:
            return SReal(to_real(v))
        s = z3.RealVal(0)
        for x in items:
            s = s + to_real(x)
        return SReal(s)

    npm.attrs.update({"sqrt": Builtin("np.sqrt", np_sqrt), "mean": Builtin("np.mean", np_mean), "square": Builtin("np.square", np_square), "sum": Builtin("np.sum", np_sum), "isfinite": Builtin("np.isfinite", lambda I2, a, k: True)})


class Score(Contract):
    """SklearnEKFAdapter.score(X, explain_score=True) for a Mahalanobis vector of length 3 with symbolic entries d >= 0, sum d != 0, one control and
    two sensors with one reading each:  result = 10 * mean(sqrt d)^2 + 1 * (1/sum d + sum d)/2 + 0.01 * (sum of squared noise magnitudes), and the
    explanation tuple lists exactly these weights and components;  frame: no parameter is modified."""

    key = "formak.python:SklearnEKFAdapter.score"
    prefix = "C16.py.score"
    inline = ("formak.python:force_to_ndarray",)

    def __init__(self, explain=True):
        # explain_score is optional and off by default (scikit-learn calls score(X) / score(X, y)): then the bare total is returned
        self.explain = explain
        if not explain:
            self.prefix = "C16.py.score[plain]"

    def setup(self, I):
        from contracts.sklearn import ALLOWED, DiagFlatten, adapter_class
        from pvc.symtheory import SDictV, Sym, SymV, real_wrap

        P = I.path
        P.ghost["site"] = self.prefix
        install_np(I)
        install_np_score(I)
        d = [P.fresh_real(f"d{i}") for i in range(3)]
        P.assume(z3.And(*[x >= 0 for x in d]))
        P.assume(d[0] + d[1] + d[2] != 0)
        self.d = d
        obj = SObj(adapter_class(I), {k: SObj("Val", {}, k) for k in ALLOWED}, "adapter")
        u = SymV(z3.Const("u0", Sym))
        self.q = [P.fresh_real("q_u"), P.fresh_real("q_s0"), P.fresh_real("q_s1")]
        obj.fields["process_noise"] = PyDict({u: SReal(self.q[0])})
        obj.fields["sensor_noises"] = PyDict({"b": PyDict({"r": SReal(self.q[2])}), "a": PyDict({"r": SReal(self.q[1])})})
        obj.fields["model_"] = SObj("FilterX", {"arglist_control": PyList([u])}, "model_")

        class MahaStub(Contract):
            key = "formak.python:SklearnEKFAdapter.mahalanobis"

            def apply(self2, I2, args, kwargs):
                return VecL([SReal(x) for x in d])

        I.contracts[MahaStub.key] = MahaStub()
        I.inline |= {"formak.python:SklearnEKFAdapter._flatten_dict_diagonal"}
        X = DataX(z3.Const("X", DataS), z3.IntVal(3), z3.IntVal(3))
        old = dict(obj.fields)
        return Call([obj, X], ({"explain_score": True} if self.explain else {}), obj=obj, old=old)

    def post(self, I, call, outcome):
        from pvc.models import sqrt_f

        P, pre = I.path, self.prefix
        if outcome[0] == "raise":
            P.oblige(f"{pre}.no_exception_for_positive_finite_input", z3.BoolVal(False), note=f"raises {outcome[1]}")
            return
        rv = outcome[1]
        if not self.explain:
            from pvc.sym import is_numeric

            plain = is_numeric(rv) and not isinstance(rv, bool)
            P.oblige(f"{pre}.returns_a_number", z3.BoolVal(plain))
            if plain:
                d, q = self.d, self.q
                mean = (sqrt_f(d[0]) + sqrt_f(d[1]) + sqrt_f(d[2])) / 3
                var = d[0] + d[1] + d[2]
                total = 10 * (mean * mean) + 1 * ((1 / var + var) / 2) + z3.RealVal("1/100") * (q[0] * q[0] + q[1] * q[1] + q[2] * q[2])
                P.oblige(f"{pre}.total_is_weighted_sum", to_real(rv) == total)
            for f, v in call.old.items():
                P.oblige(f"{pre}.frame.{f}", z3.BoolVal(call.obj.fields.get(f) is v))
            return
        ok = isinstance(rv, tuple) and len(rv) == 2 and isinstance(rv[1], tuple) and len(rv[1]) == 6
        P.oblige(f"{pre}.explained_result_shape", z3.BoolVal(ok))
        if ok:
            d, q = self.d, self.q
            mean = (sqrt_f(d[0]) + sqrt_f(d[1]) + sqrt_f(d[2])) / 3
            bias = mean * mean
            var = d[0] + d[1] + d[2]
            variance = (1 / var + var) / 2
            size = q[0] * q[0] + q[1] * q[1] + q[2] * q[2]
            total = 10 * bias + 1 * variance + z3.RealVal("1/100") * size
            w = rv[1]
            P.oblige(f"{pre}.weights", z3.And(to_real(w[0]) == 10, to_real(w[2]) == 1, to_real(w[4]) == z3.RealVal("1/100")))
            P.oblige(f"{pre}.bias_component", to_real(w[1]) == bias)
            P.oblige(f"{pre}.variance_component", to_real(w[3]) == variance)
            P.oblige(f"{pre}.size_component", to_real(w[5]) == size)
            P.oblige(f"{pre}.total_is_weighted_sum", to_real(rv[0]) == total)
        for f, v in call.old.items():
            P.oblige(f"{pre}.frame.{f}", z3.BoolVal(call.obj.fields.get(f) is v))


# ------------------------------------------------------------------------------------------------
# mahalanobis: the same numbers, flattened

Arr = z3.DeclareSort("NdArray")
anyneg_f = z3.Function("any_entry_negative", Arr, z3.BoolSort())


class OpaqueArr(SV):
    """An n-d float array as an opaque term with a shape; only the operations mahalanobis needs."""

    def __init__(self, z, shape, kind="T"):
        self.z, self.shape, self.kind = z, shape, kind

    def pvc_getattr(self, I, name):
        if name == "shape":
            return self.shape
        if name == "reshape":

            def f(I2, args, kw):
                shp = args[0]
                return OpaqueArr(self.z, tuple(shp), self.kind + ".reshape")

            return Builtin("reshape", f)
        if name == "flatten":
            return Builtin("flatten", lambda I2, a, k: OpaqueArr(self.z, (wrap(z3.simplify(to_int(self.shape[0]) * to_int(self.shape[1]))),), "flatten"))
        return NotImplemented

    def pvc_compare(self, I, op, other, swapped):
        import ast

        if not swapped and isinstance(op, ast.Lt) and isinstance(other, (int, float)) and other == 0:
            return ArrNeg(self)
        return NotImplemented

    def pvc_iter(self, I):
        if len(self.shape) != 1:
            raise Unsupported("iteration over a multi-dimensional array")
        z = self.z
        return SSeq(self.shape[0], lambda i: SReal(arr_el(z, i)), "flat entries")


arr_el = z3.Function("flat_entry", Arr, z3.IntSort(), R)


class ArrNeg(SV):
    def __init__(self, arr):
        self.arr = arr


class Mahalanobis(Contract):
    """SklearnEKFAdapter.mahalanobis(X) = transform(X) flattened (same numbers, row-major); AssertionError iff some entry is negative."""

    key = "formak.python:SklearnEKFAdapter.mahalanobis"
    prefix = "C16.py.mahalanobis"

    def setup(self, I):
        from contracts.sklearn import ALLOWED, adapter_class

        P = I.path
        P.ghost["site"] = self.prefix
        n, s = P.fresh_int("n_samples"), P.fresh_int("n_sensors")
        P.assume(z3.And(n >= 0, s >= 1))
        t = OpaqueArr(z3.Const("T", Arr), (SInt(n), SInt(s)))
        self.t = t
        obj = SObj(adapter_class(I), {k: SObj("Val", {}, k) for k in ALLOWED}, "adapter")
        contract = self

        class TransformStub(Contract):
            key = "formak.python:SklearnEKFAdapter.transform"

            def apply(self2, I2, args, kwargs):
                contract.called_with = (args[1], kwargs.get("include_states"))
                return (t, OpaqueArr(z3.Const("states", Arr), (SInt(n + 1),), "states"), OpaqueArr(z3.Const("covs", Arr), (SInt(n + 1),), "covs"))

        I.contracts[TransformStub.key] = TransformStub()
        npm = I.models.modules["numpy"]
        base_any = npm.attrs["any"]
        npm.attrs["array"] = Builtin("np.array", lambda I2, a, k: a[0] if isinstance(a[0], OpaqueArr) else (_ for _ in ()).throw(Unsupported("np.array")))
        npm.attrs["any"] = Builtin("np.any", lambda I2, a, k: wrap(anyneg_f(a[0].arr.z)) if isinstance(a[0], ArrNeg) else base_any.fn(I2, a, k))
        X = OpaqueArr(z3.Const("Xarr", Arr), (SInt(n), SInt(P.fresh_int("n_features"))), "X")
        return Call([obj, X], {}, obj=obj, X=X, old=dict(obj.fields), n=n, s=s)

    def post(self, I, call, outcome):
        P, pre = I.path, self.prefix
        if outcome[0] == "raise":
            P.oblige(f"{pre}.only_AssertionError_when_negative", z3.And(z3.BoolVal(outcome[1] == "AssertionError"), anyneg_f(self.t.z)))
            return
        P.oblige(f"{pre}.raises_if_negative", z3.Not(anyneg_f(self.t.z)))
        rv = outcome[1]
        ok = isinstance(rv, OpaqueArr) and z3.eq(rv.z, self.t.z) and rv.kind == "flatten" and len(rv.shape) == 1
        P.oblige(f"{pre}.is_transform_flattened", z3.BoolVal(ok))
        if ok:
            P.oblige(f"{pre}.length", to_int(rv.shape[0]) == call.n * call.s)
        P.oblige(f"{pre}.transform_called_on_X", z3.BoolVal(getattr(self, "called_with", (None, None))[0] is call.X))
        for f, v in call.old.items():
            P.oblige(f"{pre}.frame.{f}", z3.BoolVal(call.obj.fields.get(f) is v))
