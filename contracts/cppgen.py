"""Contracts on py/formak/cpp.py (code generator) - C08 C++ half, C02(a).

AST node classes of formak.ast_tools are modelled as free constructors (structural equality): the generator's
output is compared as a TREE of (class, fields); the printer (ast_tools.*.compile) is not under functional
contract - its output is what the per-program translation validation of C02(b) parses.
Dependency: D-ccode  ccode(e) prints a C expression whose value under the accessor valuation is ev(e).
"""
from __future__ import annotations

import z3

from contracts.pyblock import BlockWorld, simp_f
from pvc.contract import Call, Contract
from pvc.interp import Builtin, GenV, PyList, as_seq2
from pvc.sym import SInt, SObj, SSeq, SV, Unsupported, subst, to_int, wrap
from pvc.symtheory import Expr, ExprV, Str, StrV, Sym, SymV

CStr = z3.DeclareSort("CStr")
ccode_f = z3.Function("ccode", Expr, CStr)


class CStrV(SV):
    def __init__(self, z):
        self.z = z

    def pvc_subst(self, pairs):
        return CStrV(z3.substitute(self.z, *pairs))

    def pvc_eq(self, I, other):
        if isinstance(other, CStrV):
            return wrap(self.z == other.z)
        return NotImplemented


class AstNode(SV):
    """Free constructor term for a formak.ast_tools node."""

    def __init__(self, cls, args, kwargs=None):
        self.cls, self.args, self.kwargs = cls, tuple(args), dict(kwargs or {})

    def pvc_subst(self, pairs):
        return AstNode(self.cls, subst(self.args, pairs), {k: subst(v, pairs) for k, v in self.kwargs.items()})

    def pvc_eq(self, I, other):
        if isinstance(other, AstNode):
            if self.cls != other.cls or len(self.args) != len(other.args) or set(self.kwargs) != set(other.kwargs):
                return False
            return I.equals((self.args, tuple(self.kwargs[k] for k in sorted(self.kwargs))), (other.args, tuple(other.kwargs[k] for k in sorted(other.kwargs))))
        return NotImplemented

    def __repr__(self):
        return f"{self.cls}{self.args}"


AST_CLASSES = ["Arg", "BaseAst", "ClassDef", "CompileState", "ConstructorDeclaration", "ConstructorDefinition", "EnumClassDef", "ForwardClassDeclaration", "FromFileTemplate", "FunctionDeclaration", "FunctionDef", "HeaderFile", "MemberDeclaration", "Namespace", "Private", "Public", "Return", "SourceFile", "Templated", "UsingDeclaration"]


def install_ast_models(I):
    for n in AST_CLASSES:
        I.models.froms[("formak.ast_tools", n)] = Builtin(f"ast_tools.{n}", lambda I2, a, k, n=n: AstNode(n, a, k))


def install_codegen_models(I, W):
    from contracts.pyblock import install_sympy_models

    install_sympy_models(I, W)
    install_ast_models(I)

    def m_ccode(I2, args, kw):
        e = args[0]
        if isinstance(e, ExprV):
            from contracts.pyblock import finite_f

            # premise of D-ccode: the expression can be printed (no ComplexInfinity)
            I2.path.oblige(f"{I2.path.ghost.get('site', 'ccode')}.printed_expression_has_no_complex_infinity", finite_f(e.z), theory="euf")
            return CStrV(ccode_f(e.z))
        raise Unsupported("ccode of a non-expression")

    I.models.froms[("sympy", "ccode")] = Builtin("sympy.ccode", m_ccode)


class CCode(Contract):
    """cpp._ccode(expr): the C text of expr (D-ccode: sympy's C99 printer, with Mod printed as the floored modulo it means).
    Caller-side form only; what the printed text computes is validated per program (C02(b))."""

    key = "formak.cpp:_ccode"

    def apply(self, I, args, kwargs):
        from contracts.pyblock import finite_f

        e = args[0]
        if not isinstance(e, ExprV):
            raise Unsupported("_ccode of a non-expression")
        I.path.oblige(f"{I.path.ghost.get('site', 'ccode')}.printed_expression_has_no_complex_infinity", finite_f(e.z), theory="euf")
        return CStrV(ccode_f(e.z))


class CppBlockCompile(Contract):
    """cpp.BasicBlock.compile()                                                     [C08 C++ half]
    ensures  yields, in this order: one `double t_i = ccode(simplify(rhs_i))` declaration per cse replacement, in cse order (so every temporary
             is declared exactly once, before the targets and after the temporaries its definition may use, by D-cse); then one assignment
             `target_j = ccode(simplify(reduced_j))` per statement, in statement order.  Without CSE: only the assignments, `ccode(expr_j)`."""

    key = "formak.cpp:BasicBlock.compile"

    def __init__(self, cse=True):
        self.cse = cse
        self.prefix = f"C08.cxxgen.BasicBlock.compile[cse_{'on' if cse else 'off'}]"

    def setup(self, I):
        P = I.path
        W = BlockWorld(I, self.cse)
        P.ghost["world"] = W
        P.ghost["site"] = self.prefix
        install_codegen_models(I, W)
        mod = I.load_module("formak.cpp")
        cls = I.module_attr(mod, "BasicBlock")
        self.tgt_f = z3.Function("target", z3.IntSort(), Str)
        targets = SSeq(SInt(W.q), lambda j: StrV(self.tgt_f(j)), "targets")
        targets.pvc_type = "list"
        blk = SObj(cls, {"_targets": targets, "_exprs": W.exprs, "_indent": 4, "_config": SObj("Config", {"common_subexpression_elimination": self.cse}, "config")}, "block")

        def temporaries_must_avoid(I2, site, tmpl):
            """a temporary `double _t<i>` must not redeclare one of the block's own targets (`double <state name>`)"""
            ok = tmpl.avoid is targets and tmpl.avoid_prefix == "double "
            I2.path.oblige(f"{site}.cse_temporaries_avoid_the_blocks_target_names", z3.BoolVal(ok), note="cse temporaries are not kept apart from the block's targets: a model symbol called _t0 gives `double _t0` twice (does not compile)")

        P.ghost["temporaries_must_avoid"] = temporaries_must_avoid
        return Call([blk], {}, W=W, blk=blk)

    def post(self, I, call, outcome):
        P = I.path
        W, pre = call.W, self.prefix
        if outcome[0] == "raise":
            P.oblige(f"{pre}.no_exception", z3.BoolVal(False), note=f"raises {outcome[1]}")
            return
        rv = outcome[1]
        seq = rv.seq if isinstance(rv, GenV) else rv
        ok = isinstance(seq, (SSeq, PyList))
        P.oblige(f"{pre}.yields_a_sequence", z3.BoolVal(ok))
        if not ok:
            return
        seq = as_seq2(seq)
        i = z3.Int("i_any")
        p, q = W.p, W.q
        P.oblige(f"{pre}.emission_count", seq.len_z() == p + q)
        parts = list(getattr(seq, "parts", [seq]))

        def eqz(a, b):
            r = I.equals(a, b) if isinstance(a, AstNode) else False
            return r if z3.is_expr(r) else (r.z if hasattr(r, "z") else z3.BoolVal(bool(r)))

        j = z3.Int("j_any")
        e = simp_f(W.red_f(j)) if self.cse else W.expr_f(j)
        want = AstNode("MemberDeclaration", ("", StrV(self.tgt_f(j)), CStrV(ccode_f(e))))
        if self.cse:
            ok2 = len(parts) == 2
            P.oblige(f"{pre}.two_emission_segments", z3.BoolVal(ok2))
            if not ok2:
                return
            want_t = AstNode("MemberDeclaration", ("double", SymV(W.t_f(i)), CStrV(ccode_f(simp_f(W.rhs_f(i))))))
            P.oblige(f"{pre}.temporaries_first_in_cse_order", z3.And(parts[0].len_z() == p, z3.Implies(z3.And(i >= 0, i < p), eqz(parts[0].at(i), want_t))))
            P.oblige(f"{pre}.targets_after_in_statement_order", z3.And(parts[1].len_z() == q, z3.Implies(z3.And(j >= 0, j < q), eqz(parts[1].at(j), want))))
        else:
            P.oblige(f"{pre}.targets_after_in_statement_order", z3.Implies(z3.And(j >= 0, j < q), eqz(seq.at(j), want)))
