"""Contracts on cpp/runtime/include/formak/runtime/ManagedFilter.h (C10, C11, C12 - C++ side).

The class template is dumped by clang (JSON AST) from the working tree on every run and lowered to Python
(pvc/front_cxx.py) once per configuration (has_control x has_calibration): `if constexpr` conditions and
static_asserts are evaluated on the configuration flags, overloads are resolved among the viable ones by arity.
The wrapped filter Impl is opaque and pure:  PMx(dt, est, cal, ctl) -> est,  SMx(reading, est, cal) -> est.
The SAME canonical-move / fold specs as the Python runtime are used (contracts/rt.py), instantiated on the C++
estimate sort, which is how 'Python and C++ issue the same sequence of filter calls' becomes a lemma.
"""
from __future__ import annotations

import ast
import os

import z3

from contracts import rt
from pvc import front_cxx
from pvc.contract import Call, Contract, LoopInv
from pvc.interp import Builtin, ModuleV
from pvc.models import floor_f
from pvc.sym import PyRaise, SInt, SObj, SOpaque, SReal, SSeq, Unsupported, to_int, to_real, wrap

R = z3.RealSort()
Est = z3.DeclareSort("EstX")
CalX = z3.DeclareSort("CalX")
CtlX = z3.DeclareSort("CtlX")
RdX = z3.DeclareSort("ReadingX")
pmx = z3.Function("PMx", R, Est, CalX, CtlX, Est)
powx = z3.Function("PMxpow", z3.IntSort(), R, Est, CalX, CtlX, Est)
smx = z3.Function("SMx", RdX, Est, CalX, Est)
cal_none = z3.Const("cal_absent", CalX)
ctl_none = z3.Const("ctl_absent", CtlX)
EPS = rt.EPS

HEADER = "cpp/runtime/include/formak/runtime/ManagedFilter.h"


def pow_unfold(k, dt, e0, cal, ctl):
    kz = to_int(k)
    return z3.And(powx(0, dt, e0, cal, ctl) == e0, powx(kz + 1, dt, e0, cal, ctl) == pmx(dt, powx(kz, dt, e0, cal, ctl), cal, ctl))


def canonical_move(t0, t1, mx, e0, cal, ctl):
    """Same stepping as contracts/rt.canonical_move (n = floor(d/step) full steps of signed max, remainder if >= 1e-9)."""
    d = t1 - t0
    step = z3.If(t0 > t1, -mx, mx)
    n = floor_f(d / step)
    rem = d - z3.ToReal(n) * step
    en = powx(n, step, e0, cal, ctl)
    take = z3.If(rem >= 0, rem, -rem) >= EPS
    est = z3.If(take, pmx(rem, en, cal, ctl), en)
    fax = z3.And(z3.ToReal(n) <= d / step, d / step < z3.ToReal(n) + 1)
    return est, n, step, rem, fax


class Lowered:
    """The ManagedFilter class template lowered for one configuration."""

    cache = {}

    def __init__(self, repo, has_control, has_calibration):
        self.flags = {"HAS_CONTROL": has_control, "HAS_CALIBRATION": has_calibration}
        path = os.path.join(repo, HEADER)
        self.src = open(path).read()
        tu = '#include "formak/runtime/ManagedFilter.h"\n'
        key = (repo, os.path.getmtime(path), len(self.src))
        if key not in Lowered.cache:
            Lowered.cache[key] = front_cxx.run_clang(tu, [os.path.join(repo, "cpp/runtime/include")], "ManagedFilter")
        objs, self.stderr = Lowered.cache[key]
        ct = [o for o in objs if o.get("kind") == "ClassTemplateDecl" and o.get("name") == "ManagedFilter"]
        if not ct:
            raise Unsupported("ManagedFilter class template not found in clang's dump")
        rec = [c for c in ct[0]["inner"] if c.get("kind") == "CXXRecordDecl" and c.get("name") == "ManagedFilter"][0]
        self.methods = {}  # name -> list of decl
        for c in rec["inner"]:
            if c.get("kind") == "CXXMethodDecl" and c.get("name") in ("tick", "processUpdate"):
                self.methods.setdefault(c["name"], []).append(c)
            if c.get("kind") == "FunctionTemplateDecl":
                for d in c.get("inner", []):
                    if d.get("kind") == "CXXConstructorDecl" and any(x.get("kind") == "CompoundStmt" for x in d.get("inner", [])):
                        self.methods.setdefault("construct", []).append(d)
        self.info = {}  # pyname -> dict(params, viable, const)
        self.dropped = set()
        fns = []
        # pass 1: static_assert viability + arity
        for name, decls in self.methods.items():
            for k, d in enumerate(decls):
                pyname = f"{name}_{k}"
                params = [c["name"] for c in d.get("inner", []) if c.get("kind") == "ParmVarDecl"]
                viable = self.static_asserts_hold(d)
                self.info[pyname] = {"params": params, "viable": viable, "const": d.get("type", {}).get("qualType", "").rstrip().endswith("const"), "decl": d, "name": name}
        for pyname, inf in self.info.items():
            low = front_cxx.Lowerer(self.src, self.flags, method_resolver=self.resolve)
            fd, _ = low.function(inf["decl"], pyname)
            self.dropped |= low.dropped
            fns.append(fd)
        prelude = "from math import floor\n" + "".join(f"{k} = {v}\n" for k, v in self.flags.items())
        self.modname = f"cxx_ManagedFilter_u{int(has_control)}c{int(has_calibration)}"
        self.source = front_cxx.python_module_source(prelude, "ManagedFilter", fns)

    def static_asserts_hold(self, decl):
        low = front_cxx.Lowerer(self.src, self.flags)
        ok = True

        def walk(n, depth=0):
            nonlocal ok
            if n.get("kind") == "LambdaExpr":
                pass
            if n.get("kind") == "StaticAssertDecl":
                cond = low.expr([c for c in n["inner"] if c][0])
                e = ast.Expression(cond)
                ast.fix_missing_locations(e)
                if not eval(compile(e, "<static_assert>", "eval"), dict(self.flags)):
                    ok = False
            for c in n.get("inner", []) or []:
                if c:
                    walk(c, depth + 1)

        walk(decl)
        return ok

    def resolve(self, name, nargs):
        cands = [p for p, inf in self.info.items() if inf["name"] == name and inf["viable"] and len(inf["params"]) == nargs]
        if len(cands) != 1:
            # not resolvable in this configuration: the call is ill-formed here (reported by the contract using it)
            return f"{name}__unresolved_{nargs}"
        return cands[0]

    def module(self):
        return ModuleV(self.modname, os.path.join("<lowered from>", HEADER), ast.parse(self.source), self.source)


def install(I, low):
    """Make the lowered module loadable and provide the C++ builtins."""
    I.modules[low.modname] = low.module()
    b = I.models.builtins

    def static_assert(I2, args, kw):
        t = I2.truth(args[0])
        if t is not True:
            raise PyRaise("StaticAssertFailure")
        return None

    b["static_assert"] = Builtin("static_assert", static_assert)
    b["mk_struct"] = Builtin("mk_struct", lambda I2, a, k: SObj("Struct", dict(k), "struct"))
    b["floor"] = I.models.froms[("math", "floor")]
    b["sqrt"] = I.models.froms[("math", "sqrt")]

    def c_fmod(I2, args, kw):
        """std::fmod over the reals (A-REAL): a - b * trunc(a / b), b != 0 - the remainder has the sign of the dividend."""
        from pvc.models import floor_f

        a, bb = to_real(args[0]), to_real(args[1])
        q = a / bb
        fl, fn = floor_f(q), floor_f(-q)
        I2.path.assume(z3.And(z3.ToReal(fl) <= q, q < z3.ToReal(fl) + 1, z3.ToReal(fn) <= -q, -q < z3.ToReal(fn) + 1))
        tr = z3.If(q >= 0, z3.ToReal(fl), -z3.ToReal(fn))
        return SReal(a - bb * tr)

    b["fmod"] = Builtin("fmod", c_fmod)


class ImplX:
    """Opaque C++ filter implementation (Impl): arity of the calls is checked against the configuration."""

    def __init__(self, has_control, has_calibration):
        self.hc, self.hk = has_control, has_calibration


class ImplXProcessModel(Contract):
    """ASSUMED: Impl::process_model(dt, est[, calibration][, control]) is a pure function; ill-formed (does not compile)
    when the number of arguments does not match the configuration."""

    key = "ImplX.process_model"
    kind = "assumed"

    def apply(self, I, args, kwargs):
        impl = args[0]
        flags = impl.fields["_flags"]
        expected = 2 + int(flags["HAS_CALIBRATION"]) + int(flags["HAS_CONTROL"])
        rest = args[1:]
        site = I.path.ghost.get("site", "cxx")
        if len(rest) != expected:
            I.path.oblige(f"{site}.call_well_formed.process_model", z3.BoolVal(False), note=f"Impl::process_model called with {len(rest)} arguments, the configuration's signature has {expected}")
            raise PyRaise("IllFormedCall")
        dt, est = rest[0], rest[1]
        idx = 2
        cal = cal_none
        ctl = ctl_none
        if flags["HAS_CALIBRATION"]:
            cal = rest[idx].z
            idx += 1
        if flags["HAS_CONTROL"]:
            ctl = rest[idx].z
        dtz = to_real(dt)
        tr = I.path.ghost.get("trace")
        if tr is not None:
            mon = I.path.ghost["monitor"]
            I.path.ghost["trace"] = rt.Trace(tr.count + 1, tr.total + dtz, z3.And(tr.ok, mon(dtz)), tr.events + [("pm", dtz)])
        return SOpaque(pmx(dtz, est.z, cal, ctl), "EstX")


class ReadingSensorModel(Contract):
    """ASSUMED: stampedReading.data->sensor_model(impl, est[, calibration]) is a pure function SMx."""

    key = "ReadingDataX.sensor_model"
    kind = "assumed"

    def apply(self, I, args, kwargs):
        rd = args[0]
        flags = rd.fields["_flags"]
        rest = args[1:]
        expected = 2 + int(flags["HAS_CALIBRATION"])
        site = I.path.ghost.get("site", "cxx")
        if len(rest) != expected:
            I.path.oblige(f"{site}.call_well_formed.sensor_model", z3.BoolVal(False), note=f"sensor_model called with {len(rest)} arguments, expected {expected}")
            raise PyRaise("IllFormedCall")
        est = rest[1]
        cal = rest[2].z if flags["HAS_CALIBRATION"] else cal_none
        return SOpaque(smx(rd.fields["_z"], est.z, cal), "EstX")


def make_cxx_filter(I, low):
    P = I.path
    mod = I.load_module(low.modname)
    cls = I.module_attr(mod, "ManagedFilter")
    flags = low.flags
    max_dt = P.fresh_real("max_dt_sec")
    I.models.builtins["Impl_Tag"] = SObj("Tag", {"max_dt_sec": SReal(max_dt)}, "Impl::Tag")
    impl = SObj("ImplX", {"_flags": flags}, "impl")
    state = SObj("Struct", {"currentTime": SReal(P.fresh_real("t0")), "state": SOpaque(P.fresh_const("est0", Est), "EstX")}, "_state")
    cal = SOpaque(P.fresh_const("calibration", CalX), "CalX") if flags["HAS_CALIBRATION"] else SOpaque(cal_none, "CalX")
    obj = SObj(cls, {"_impl": impl, "_calibration": cal, "_state": state, "_timeLog": SObj("TimeLog", {}, "timelog")}, "mf")
    return obj, max_dt


CXX_IMPL = {c.key: c for c in (ImplXProcessModel(), ReadingSensorModel())}


class ProcessUpdate(Contract):
    """ManagedFilter<Impl>::processUpdate (both overloads), one configuration.
    requires Impl::Tag::max_dt_sec > 0 (ManagedFilter::compatible).
    ensures  (C10) every Impl::process_model call has dt pointing from _state.currentTime to outputTime with |dt| <= max_dt_sec, the dts sum to the
             difference within 1e-9, no call when the times coincide; returns {outputTime, canonical MOVE of the held estimate}; every Impl call is
             well-formed for the configuration (C12);  frame: the method is const and modifies nothing."""

    def __init__(self, low, overload):
        self.low = low
        self.overload = overload
        self.pyname = f"processUpdate_{overload}"
        self.key = f"{low.modname}:ManagedFilter.{self.pyname}"
        cfg = f"u{int(low.flags['HAS_CONTROL'])}c{int(low.flags['HAS_CALIBRATION'])}"
        self.cfg = cfg
        self.prefix = f"C10.cxx.processUpdate#{overload}[{cfg}]"

        def inv(I, k, env, call):
            kz = to_int(k)
            loc = I.frame.locals
            max_dt = to_real(loc["max_dt"])
            tr = I.path.ghost["trace"]
            tr0 = call.trace0
            mon = I.path.ghost["monitor"]
            I.path.define(z3.Implies(kz >= 0, pow_unfold(kz, max_dt, call.e0, call.cal, call.ctl)), "PMxpow unfolding (recursive spec function)")
            st = env["state"]
            if not isinstance(st, SOpaque):
                raise Unsupported("loop-carried estimate is not opaque")
            return [
                ("count", tr.count == tr0.count + kz),
                ("sum", tr.total == tr0.total + z3.ToReal(kz) * max_dt),
                ("monitor", tr.ok == z3.And(tr0.ok, z3.Or(kz == 0, mon(max_dt)))),
                ("chain", st.z == powx(kz, max_dt, call.e0, call.cal, call.ctl)),
            ]

        def havoc(I, tag):
            I.path.ghost["trace"] = rt.fresh_trace(I, tag)

        self.loops = {0: LoopInv(carried={"state": lambda I, tag: SOpaque(I.path.fresh_const(tag, Est), "EstX")}, inv=inv, extra_havoc=havoc, name="loop0")}

    def setup(self, I):
        P = I.path
        install(I, self.low)
        P.ghost["site"] = self.prefix
        obj, max_dt = make_cxx_filter(I, self.low)
        P.assume(max_dt > 0)
        t1 = P.fresh_real("t1")
        t0 = obj.fields["_state"].fields["currentTime"].z
        args = [obj, SReal(t1)]
        ctl = ctl_none
        if self.overload == 0:
            c = SOpaque(P.fresh_const("ctl", CtlX), "CtlX")
            args.append(c)
            ctl = c.z
        tr0 = rt.Trace(z3.IntVal(0), z3.RealVal(0), z3.BoolVal(True))
        P.ghost["trace"] = tr0

        def monitor(dt):
            d = t1 - t0
            absdt = z3.If(dt >= 0, dt, -dt)
            return z3.And(z3.Implies(d > 0, dt > 0), z3.Implies(d < 0, dt < 0), absdt <= max_dt)

        P.ghost["monitor"] = monitor
        st = obj.fields["_state"]
        return Call(args, {}, obj=obj, old=dict(obj.fields), old_state=dict(st.fields), t0=t0, t1=t1, max_dt=max_dt, trace0=tr0, e0=st.fields["state"].z, cal=obj.fields["_calibration"].z, ctl=ctl)

    def post(self, I, call, outcome):
        P = I.path
        pre = self.prefix
        viable = self.low.info[self.pyname]["viable"]
        if outcome[0] == "raise":
            if outcome[1] == "StaticAssertFailure":
                # the overload is excluded for this configuration by its own static_assert: nothing to prove
                P.oblige(f"{pre}.static_assert_excludes_only_other_configurations", z3.BoolVal(not viable))
                return
            if outcome[1] == "IllFormedCall":
                return  # already reported as call_well_formed
            P.oblige(f"{pre}.no_exception", z3.BoolVal(False), note=f"raises {outcome[1]}")
            return
        rv = outcome[1]
        tr = P.ghost["trace"]
        d = call.t1 - call.t0
        err = tr.total - d
        P.oblige(f"{pre}.direction_and_bound", tr.ok)
        P.oblige(f"{pre}.sum", z3.And(err < EPS, -err < EPS))
        P.oblige(f"{pre}.no_step_when_equal", z3.Implies(d == 0, tr.count == 0))
        ok = isinstance(rv, SObj) and set(rv.fields) == {"currentTime", "state"} and isinstance(rv.fields["state"], SOpaque)
        P.oblige(f"{pre}.result_shape", z3.BoolVal(ok))
        if ok:
            P.oblige(f"{pre}.result_time", to_real(rv.fields["currentTime"]) == call.t1)
            est, n, step, rem, fax = canonical_move(call.t0, call.t1, call.max_dt, call.e0, call.cal, call.ctl)
            P.oblige(f"{pre}.helper.canonical_estimate", z3.Implies(fax, rv.fields["state"].z == est), theory="euf")
        P.oblige(f"{pre}.declared_const", z3.BoolVal(self.low.info[self.pyname]["const"]))
        for f, v in call.old.items():
            P.oblige(f"{pre}.frame.{f}", z3.BoolVal(call.obj.fields.get(f) is v))
        for f, v in call.old_state.items():
            P.oblige(f"{pre}.frame._state.{f}", z3.BoolVal(call.obj.fields["_state"].fields.get(f) is v))

    def apply(self, I, args, kwargs):
        obj, t1 = args[0], args[1]
        ctl = args[2].z if len(args) > 2 else ctl_none
        mx = to_real(I.models.builtins["Impl_Tag"].fields["max_dt_sec"])
        st = obj.fields["_state"]
        t0 = to_real(st.fields["currentTime"])
        if not self.low.info[self.pyname]["viable"]:
            I.path.oblige(f"{I.path.ghost.get('site', 'cxx')}.call_well_formed.processUpdate", z3.BoolVal(False), note=f"{self.pyname} is excluded by its static_assert in configuration {self.cfg}")
            raise PyRaise("IllFormedCall")
        est, n, step, rem, fax = canonical_move(t0, to_real(t1), mx, st.fields["state"].z, obj.fields["_calibration"].z, ctl)
        I.path.assume(fax)
        return SObj("Struct", {"currentTime": t1, "state": SOpaque(est, "EstX")}, "moved")


class Construct(Contract):
    """ManagedFilter<Impl>::ManagedFilter(initialTimestamp, initialState[, calibration])    (two SFINAE-selected constructors)
    ensures  establishes the representation invariant the tick / processUpdate contracts assume: _state.currentTime = initialTimestamp,
             _state.state = initialState, _calibration = calibration (when the filter has calibration), _impl default-constructed;
             the constructor without calibration is viable exactly for filters without calibration and vice versa."""

    def __init__(self, low, overload):
        self.low, self.overload = low, overload
        self.pyname = f"construct_{overload}"
        self.key = f"{low.modname}:ManagedFilter.{self.pyname}"
        self.cfg = f"u{int(low.flags['HAS_CONTROL'])}c{int(low.flags['HAS_CALIBRATION'])}"
        self.prefix = f"C12.cxx.constructor#{overload}[{self.cfg}]"
        self.params = low.info[self.pyname]["params"]

    def setup(self, I):
        P = I.path
        install(I, self.low)
        I.models.builtins["default_construct"] = Builtin("default_construct", lambda I2, a, k: SObj("ImplX", {"_flags": self.low.flags, "_default": True}, "impl"))
        P.ghost["site"] = self.prefix
        mod = I.load_module(self.low.modname)
        cls = I.module_attr(mod, "ManagedFilter")
        obj = SObj(cls, {}, "mf")
        t0 = SReal(P.fresh_real("initialTimestamp"))
        st0 = SOpaque(P.fresh_const("initialState", Est), "EstX")
        args = [obj, t0, st0]
        cal = None
        if "calibration" in self.params:
            cal = SOpaque(P.fresh_const("calibration", CalX), "CalX")
            args.append(cal)
        return Call(args, {}, obj=obj, t0=t0, st0=st0, cal=cal)

    def post(self, I, call, outcome):
        P, pre = I.path, self.prefix
        want_viable = ("calibration" in self.params) == bool(self.low.flags["HAS_CALIBRATION"])
        if outcome[0] == "raise":
            if outcome[1] == "StaticAssertFailure":
                P.oblige(f"{pre}.excluded_only_in_the_other_configurations", z3.BoolVal(not want_viable))
                return
            P.oblige(f"{pre}.no_exception", z3.BoolVal(False), note=f"raises {outcome[1]}")
            return
        P.oblige(f"{pre}.viable_only_in_its_configuration", z3.BoolVal(want_viable))
        f = call.obj.fields
        st = f.get("_state")
        ok = isinstance(st, SObj) and set(st.fields) == {"currentTime", "state"}
        P.oblige(f"{pre}.holds_a_time_and_an_estimate", z3.BoolVal(ok), note=f"_state = {getattr(st, 'fields', st)}")
        if ok:
            P.oblige(f"{pre}.held_time_is_the_initial_timestamp", to_real(st.fields["currentTime"]) == call.t0.z)
            P.oblige(f"{pre}.held_estimate_is_the_initial_state", z3.BoolVal(st.fields["state"] is call.st0))
        if call.cal is not None:
            P.oblige(f"{pre}.calibration_is_stored", z3.BoolVal(f.get("_calibration") is call.cal))
        impl = f.get("_impl")
        P.oblige(f"{pre}.impl_is_default_constructed", z3.BoolVal(isinstance(impl, SObj) and impl.fields.get("_default") is True))


class FoldX:
    def __init__(self, P, t0, e0, mx, cal, ctl, ts, rd):
        self.ft = z3.Function(P.names.fresh("foldx_time"), z3.IntSort(), R)
        self.fe = z3.Function(P.names.fresh("foldx_est"), z3.IntSort(), Est)
        self.t0, self.e0, self.mx, self.cal, self.ctl, self.ts, self.rd = t0, e0, mx, cal, ctl, ts, rd

    def base(self):
        return z3.And(self.ft(0) == self.t0, self.fe(0) == self.e0)

    def step(self, i):
        est, n, stp, rem, fax = canonical_move(self.ft(i), self.ts(i), self.mx, self.fe(i), self.cal, self.ctl)
        return fax, z3.And(self.ft(i + 1) == self.ts(i), self.fe(i + 1) == smx(self.rd(i), est, self.cal))


class Tick(Contract):
    """ManagedFilter<Impl>::tick (four overloads), one configuration.
    ensures  (C11) _state after the call = fold(_state before, readings) [for each reading in order: MOVE to its timestamp, sensor update,
             hold at that timestamp]; result = MOVE(_state after, outputTime).state, which is not stored; a reading-less tick stores nothing;
             overloads whose static_assert excludes the configuration are ill-formed there (a filter with control inputs cannot be ticked without them)."""

    def __init__(self, low, overload):
        self.low = low
        self.overload = overload
        self.pyname = f"tick_{overload}"
        self.key = f"{low.modname}:ManagedFilter.{self.pyname}"
        cfg = f"u{int(low.flags['HAS_CONTROL'])}c{int(low.flags['HAS_CALIBRATION'])}"
        self.cfg = cfg
        self.prefix = f"C11.cxx.tick#{overload}[{cfg}]"
        self.params = low.info[self.pyname]["params"]
        self.with_readings = "readings" in self.params
        self.with_control = "control" in self.params

        def inv(I, k, env, call):
            kz = to_int(k)
            f = call.fold
            st = call.obj.fields["_state"]
            fax, stepeq = f.step(kz)
            I.path.define(z3.And(f.base(), z3.Implies(kz >= 0, z3.And(fax, stepeq))), "fold unfolding (recursive spec function) + floor law")
            if not isinstance(st, SObj) or not isinstance(st.fields.get("state"), SOpaque):
                raise Unsupported("held state shape")
            return [("held_time", to_real(st.fields["currentTime"]) == f.ft(kz)), ("held_estimate", st.fields["state"].z == f.fe(kz))]

        def havoc(I, tag):
            call = self._call
            call.obj.fields["_state"] = SObj("Struct", {"currentTime": SReal(I.path.fresh_real(f"time_{tag}")), "state": SOpaque(I.path.fresh_const(f"est_{tag}", Est), "EstX")}, "_state")

        self.loops = {0: LoopInv(carried={}, inv=inv, extra_havoc=havoc, name="loop0")}

    def setup(self, I):
        P = I.path
        install(I, self.low)
        P.ghost["site"] = self.prefix
        obj, max_dt = make_cxx_filter(I, self.low)
        P.assume(max_dt > 0)
        t_out = P.fresh_real("t_out")
        args = [obj, SReal(t_out)]
        ctl = ctl_none
        if self.with_control:
            c = SOpaque(P.fresh_const("ctl", CtlX), "CtlX")
            args.append(c)
            ctl = c.z
        n = P.fresh_int("n_readings")
        P.assume(n >= 0)
        ts = z3.Function("rdx_ts", z3.IntSort(), R)
        rdz = z3.Function("rdx_data", z3.IntSort(), RdX)
        flags = self.low.flags
        if self.with_readings:
            readings = SSeq(SInt(n), lambda i: SObj("Struct", {"timestamp": SReal(ts(i)), "data": SObj("ReadingDataX", {"_z": rdz(i), "_flags": flags}, "data")}, "stampedReading"), "readings")
            args.append(readings)
        st = obj.fields["_state"]
        fold = FoldX(P, st.fields["currentTime"].z, st.fields["state"].z, max_dt, obj.fields["_calibration"].z, ctl, ts, rdz)
        call = Call(args, {}, obj=obj, old=dict(obj.fields), old_state=st, fold=fold, n=n, t_out=t_out, max_dt=max_dt, ctl=ctl)
        self._call = call
        return call

    def post(self, I, call, outcome):
        P = I.path
        pre = self.prefix
        viable = self.low.info[self.pyname]["viable"]
        if outcome[0] == "raise":
            if outcome[1] == "StaticAssertFailure":
                P.oblige(f"{pre}.static_assert_excludes_only_other_configurations", z3.BoolVal(not viable))
                return
            if outcome[1] == "IllFormedCall":
                return
            P.oblige(f"{pre}.no_exception", z3.BoolVal(False), note=f"raises {outcome[1]}")
            return
        P.oblige(f"{pre}.viable_overload_runs", z3.BoolVal(viable))
        rv = outcome[1]
        f = call.fold
        n = call.n if self.with_readings else z3.IntVal(0)
        P.define(f.base(), "fold unfolding (recursive spec function) + floor law")
        st = call.obj.fields["_state"]
        okst = isinstance(st, SObj) and isinstance(st.fields.get("state"), SOpaque)
        P.oblige(f"{pre}.fold.held_shape", z3.BoolVal(okst))
        if okst:
            P.oblige(f"{pre}.fold.held_time", to_real(st.fields["currentTime"]) == f.ft(n))
            P.oblige(f"{pre}.fold.held_estimate", st.fields["state"].z == f.fe(n), theory="euf")
        est, _, _, _, fax = canonical_move(f.ft(n), call.t_out, call.max_dt, f.fe(n), call.obj.fields["_calibration"].z, call.ctl)
        ok = isinstance(rv, SOpaque)
        P.oblige(f"{pre}.result.shape", z3.BoolVal(ok))
        if ok:
            P.oblige(f"{pre}.result.estimate_at_output_time", z3.Implies(fax, rv.z == est), theory="euf")
        for fld in ("_impl", "_calibration"):
            P.oblige(f"{pre}.frame.{fld}", z3.BoolVal(call.obj.fields.get(fld) is call.old[fld]))
        if not self.with_readings:
            P.oblige(f"{pre}.no_readings.nothing_held", z3.BoolVal(call.obj.fields["_state"] is call.old_state))
