"""Contracts on python.SklearnEKFAdapter (parameters, flattening, fit) - C17; transform/score helpers - C16."""
from __future__ import annotations

import itertools

import z3

from pvc.contract import Call, Contract
from pvc.interp import Builtin, GenV, PyDict, PyList, as_seq2
from pvc.sym import PyRaise, SInt, SObj, SReal, SSeq, SV, Unsupported, to_int, to_real, wrap
from pvc.symtheory import SDictV, SSetV, SeqDict, Str, StrV, Sym, SymV, card_f, ord_f, real_wrap, srt_f

ALLOWED = ["symbolic_model", "process_noise", "sensor_models", "sensor_noises", "calibration_map", "config"]
CONFIG_FIELDS = ["common_subexpression_elimination", "python_modules", "extra_validation", "max_dt_sec", "innovation_filtering"]
TOL = z3.RealVal("1/1000000")


def adapter_class(I):
    mod = I.load_module("formak.python")
    return I.module_attr(mod, "SklearnEKFAdapter")


class FieldVal(SObj):
    """An opaque Config field value whose truth value is symbolic (flags such as extra_validation are tested by the code)."""

    def __init__(self, I, tag):
        super().__init__("Val", {}, tag)
        self.truth = I.path.fresh_bool(f"{tag.split('.')[-1]}_is_truthy")

    def pvc_truth(self, I):
        return self.truth


def config_obj(I, tag="cfg", filtering_disabled=False):
    """filtering_disabled: the Optional field innovation_filtering currently holds None (a legal value: filtering off)"""
    mod = I.load_module("formak.python")
    cls = I.module_attr(mod, "Config")
    return SObj(cls, {f: (None if filtering_disabled and f == "innovation_filtering" else FieldVal(I, f"{tag}.{f}")) for f in CONFIG_FIELDS}, tag)


class DiagFlatten(Contract):
    """_flatten_dict_diagonal(mapping, arglist): yields, for each a in arglist in order, mapping[a] if present else 0.0
    (mappings with Symbol/str keys only; (a, a) tuple keys are outside the accepted definitions)."""

    key = "formak.python:SklearnEKFAdapter._flatten_dict_diagonal"

    def __init__(self, keykind="Sym"):
        self.keykind = keykind
        self.prefix = f"C17.py._flatten_dict_diagonal[{keykind}]"

    def setup(self, I):
        P = I.path
        sort, wrapk = (Sym, SymV) if self.keykind == "Sym" else (Str, StrV)
        mp = SDictV(P, "mapping", sort, z3.RealSort(), wrapk, real_wrap)
        n = P.fresh_int("n_args")
        P.assume(n >= 0)
        f = z3.Function("flat_arg", z3.IntSort(), sort)
        arglist = SSeq(SInt(n), lambda i: wrapk(f(i)), "arglist")
        obj = SObj(adapter_class(I), {}, "adapter")
        return Call([obj, mp, arglist], {}, mp=mp, f=f, n=n)

    def post(self, I, call, outcome):
        P, pre = I.path, self.prefix
        if outcome[0] == "raise":
            P.oblige(f"{pre}.no_exception", z3.BoolVal(False), note=f"raises {outcome[1]}")
            return
        seq = outcome[1].seq if isinstance(outcome[1], GenV) else outcome[1]
        ok = isinstance(seq, (SSeq, PyList))
        P.oblige(f"{pre}.yields_sequence", z3.BoolVal(ok))
        if ok:
            seq = as_seq2(seq)
            i = z3.Int("i_any")
            a = call.f(i)
            P.oblige(f"{pre}.one_value_per_name_in_order", z3.And(seq.len_z() == call.n, z3.Implies(z3.And(i >= 0, i < call.n), to_real(seq.at(i)) == z3.If(call.mp.has(a), call.mp.get(a), z3.RealVal(0)))))

    def apply(self, I, args, kwargs):
        mp, arglist = args[1], args[2]
        al = as_seq2(arglist) if not isinstance(arglist, SSeq) else arglist
        if not hasattr(mp, "has"):
            raise Unsupported("flatten of a non-symbolic mapping")
        return GenV(SSeq(al.length, lambda i: SReal(z3.If(mp.has(al.at(i).z), mp.get(al.at(i).z), z3.RealVal(0))), "flat_diag"))


class DiagInverse(Contract):
    """_inverse_flatten_dict_diagonal(vector, arglist): yields (arglist[i], vector[i]) for every i; IndexError iff vector is shorter."""

    key = "formak.python:SklearnEKFAdapter._inverse_flatten_dict_diagonal"
    prefix = "C17.py._inverse_flatten_dict_diagonal"

    def setup(self, I):
        P = I.path
        n, L = P.fresh_int("n_args"), P.fresh_int("n_vec")
        P.assume(z3.And(n >= 0, L >= 0))
        f = z3.Function("inv_arg", z3.IntSort(), Sym)
        v = z3.Function("vec", z3.IntSort(), z3.RealSort())
        arglist = SSeq(SInt(n), lambda i: SymV(f(i)), "arglist")
        vec = SSeq(SInt(L), lambda i: SReal(v(i)), "vector")
        obj = SObj(adapter_class(I), {}, "adapter")
        return Call([obj, vec, arglist], {}, f=f, v=v, n=n, L=L)

    def post(self, I, call, outcome):
        P, pre = I.path, self.prefix
        if outcome[0] == "raise":
            P.oblige(f"{pre}.only_IndexError_when_vector_short", z3.And(z3.BoolVal(outcome[1] == "IndexError"), call.L < call.n))
            return
        P.oblige(f"{pre}.raises_if_vector_short", call.L >= call.n)
        seq = outcome[1].seq if isinstance(outcome[1], GenV) else outcome[1]
        seq = as_seq2(seq)
        i = z3.Int("i_any")
        el = seq.at(i)
        good = isinstance(el, tuple) and len(el) == 2 and isinstance(el[0], SymV)
        P.oblige(f"{pre}.pairs", z3.BoolVal(good))
        if good:
            P.oblige(f"{pre}.name_value_pairs_in_order", z3.And(seq.len_z() == call.n, z3.Implies(z3.And(i >= 0, i < call.n), z3.And(el[0].z == call.f(i), to_real(el[1]) == call.v(i)))))

    def apply(self, I, args, kwargs):
        vec, arglist = args[1], args[2]
        al = as_seq2(arglist) if not isinstance(arglist, SSeq) else arglist
        vs = as_seq2(vec) if not isinstance(vec, SSeq) else vec
        I.raise_if(vs.len_z() < al.len_z(), "IndexError")
        return GenV(SSeq(al.length, lambda i: (al.at(i), vs.at(i)), "inv_diag"))


class NearestPD(Contract):
    """nearest_positive_definite(covariance): same keys; every (diagonal) value raised to at least 1e-6, so strictly positive."""

    key = "formak.python:nearest_positive_definite"

    def __init__(self, keykind="Sym"):
        self.keykind = keykind
        self.prefix = f"C17.py.nearest_positive_definite[{keykind}]"

    def setup(self, I):
        sort, wrapk = (Sym, SymV) if self.keykind == "Sym" else (Str, StrV)
        mp = SDictV(I.path, "covariance", sort, z3.RealSort(), wrapk, real_wrap)
        I.path.ghost["site"] = self.prefix
        return Call([mp], {}, mp=mp, sort=sort)

    def post(self, I, call, outcome):
        P, pre, mp = I.path, self.prefix, call.mp
        if outcome[0] == "raise":
            P.oblige(f"{pre}.no_exception", z3.BoolVal(False), note=f"raises {outcome[1]}")
            return
        rv = outcome[1]
        ok = hasattr(rv, "has") and hasattr(rv, "get")
        P.oblige(f"{pre}.returns_dict", z3.BoolVal(ok))
        if ok:
            k = z3.Const("k_any", call.sort)
            P.oblige(f"{pre}.same_keys", rv.has(k) == mp.has(k))
            P.oblige(f"{pre}.values_clamped_positive", z3.Implies(mp.has(k), z3.And(rv.get(k) == z3.If(mp.get(k) >= TOL, mp.get(k), TOL), rv.get(k) > 0)))
            P.oblige(f"{pre}.same_size", rv.n == mp.n)

    def apply(self, I, args, kwargs):
        mp = args[0]
        if hasattr(mp, "key_at"):
            key_at, val_at = mp.key_at, mp.val_at
        elif isinstance(mp, SDictV):
            key_at, val_at = mp.kkey, (lambda i: mp.get(mp.kkey(i)))
        else:
            raise Unsupported("nearest_positive_definite of an unmodelled mapping at a call site")
        P = I.path
        ksort = key_at(z3.IntVal(0)).sort()
        return SeqDict(P, "npd", mp.n, key_at, lambda i: z3.If(val_at(i) >= TOL, val_at(i), TOL), ksort, z3.RealSort())


class AdapterWorld:
    """A symbolic estimator with two generic sensors (inserted in reverse key order) and any number of controls / readings."""

    def __init__(self, I):
        P = I.path
        self.U = SSetV(P, "control_set", "set")
        self.ui = SObj("UiModel", {"control": self.U, "state": SSetV(P, "state_set", "set"), "calibration": SSetV(P, "calibration_set", "set")}, "ui_model")
        self.pn = SDictV(P, "process_noise", Sym, z3.RealSort(), SymV, real_wrap)
        self.keys = [StrV(z3.Const(f"sensor_key_{i}", Str)) for i in range(2)]
        P.assume(ord_f(self.keys[0].z) < ord_f(self.keys[1].z))
        P.assume(self.keys[0].z != self.keys[1].z)
        self.noises = [SDictV(P, f"sensor_noise_{i}", Str, z3.RealSort(), StrV, real_wrap) for i in range(2)]
        self.sn = PyDict()
        self.sn.d[self.keys[1]] = self.noises[1]
        self.sn.d[self.keys[0]] = self.noises[0]
        self.sm = SObj("SensorModels", {}, "sensor_models")
        self.cm = SObj("CalibrationMap", {}, "calibration_map")
        self.config = config_obj(I)
        self.obj = SObj(adapter_class(I), {"symbolic_model": self.ui, "process_noise": self.pn, "sensor_models": self.sm, "sensor_noises": self.sn, "calibration_map": self.cm, "config": self.config}, "adapter")
        self.k = card_f(self.U.term)
        self.AU = lambda i: srt_f(self.U.term, i)
        self.m = [d.n for d in self.noises]
        self.sk = [d.sorted_key_fn(P) for d in self.noises]
        self.snapshot = dict(self.obj.fields)
        self.sn_snapshot = dict(self.sn.d)

    def frame(self, P, pre, allow=()):
        for f, v in self.snapshot.items():
            if f in allow:
                continue
            P.oblige(f"{pre}.frame.{f}", z3.BoolVal(self.obj.fields.get(f) is v))
        if "sensor_noises" not in allow:
            same = set(map(id, self.sn.d.keys())) == set(map(id, self.sn_snapshot.keys())) and all(self.sn.d[k] is v for k, v in self.sn_snapshot.items())
            P.oblige(f"{pre}.frame.sensor_noises_contents", z3.BoolVal(same))


class FlattenScoring(Contract):
    """_flatten_scoring_params(): [process noise of each control in name order] + for each sensor in key order [noise of each reading in name order]."""

    key = "formak.python:SklearnEKFAdapter._flatten_scoring_params"
    prefix = "C17.py._flatten_scoring_params"

    def setup(self, I):
        W = AdapterWorld(I)
        I.path.ghost["site"] = self.prefix
        return Call([W.obj], {}, W=W)

    def post(self, I, call, outcome):
        P, pre, W = I.path, self.prefix, call.W
        if outcome[0] == "raise":
            P.oblige(f"{pre}.no_exception", z3.BoolVal(False), note=f"raises {outcome[1]}")
            return
        rv = outcome[1]
        ok = isinstance(rv, (SSeq, PyList))
        P.oblige(f"{pre}.returns_list", z3.BoolVal(ok))
        if ok:
            seq = as_seq2(rv)
            i = z3.Int("i_any")
            k, m0, m1 = W.k, W.m[0], W.m[1]
            want = z3.If(i < k, z3.If(W.pn.has(W.AU(i)), W.pn.get(W.AU(i)), z3.RealVal(0)), z3.If(i < k + m0, W.noises[0].get(W.sk[0](i - k)), W.noises[1].get(W.sk[1](i - k - m0))))
            P.oblige(f"{pre}.layout", z3.And(seq.len_z() == k + m0 + m1, z3.Implies(z3.And(i >= 0, i < k + m0 + m1), to_real(seq.at(i)) == want)))
        W.frame(P, pre)


class InverseFlattenScoring(Contract):
    """_inverse_flatten_scoring_params(x) with len(x) = k + sum of reading counts:
    returns params with process_noise = {control i (name order): max(1e-6, x[i])}, sensor_noises[s] = {reading j (name order): x[k + offset(s) + j]}
    (raised to >= 1e-6 so that every candidate the optimiser tries is a valid noise), the other four entries the estimator's own;
    frame: the estimator's attributes and the contents of ITS sensor_noises dict are untouched."""

    key = "formak.python:SklearnEKFAdapter._inverse_flatten_scoring_params"
    prefix = "C17.py._inverse_flatten_scoring_params"

    def setup(self, I):
        W = AdapterWorld(I)
        P = I.path
        P.ghost["site"] = self.prefix
        x = z3.Function("x", z3.IntSort(), z3.RealSort())
        L = W.k + W.m[0] + W.m[1]
        vec = SSeq(wrap(z3.simplify(L)), lambda i: SReal(x(i)), "x")
        return Call([W.obj, vec], {}, W=W, x=x)

    def post(self, I, call, outcome):
        P, pre, W, x = I.path, self.prefix, call.W, call.x
        if outcome[0] == "raise":
            P.oblige(f"{pre}.no_exception", z3.BoolVal(False), note=f"raises {outcome[1]}")
            return
        rv = outcome[1]
        ok = isinstance(rv, PyDict) and set(rv.d) == set(ALLOWED)
        P.oblige(f"{pre}.returns_the_six_parameters", z3.BoolVal(ok))
        if not ok:
            return
        for f in ("symbolic_model", "sensor_models", "calibration_map", "config"):
            P.oblige(f"{pre}.keeps.{f}", z3.BoolVal(rv.d[f] is W.snapshot[f]))
        pn = rv.d["process_noise"]
        okp = hasattr(pn, "has")
        P.oblige(f"{pre}.process_noise_is_dict", z3.BoolVal(okp))
        i = z3.Int("i_any")
        s = z3.Const("s_any", Sym)
        clamp = lambda v: z3.If(v >= TOL, v, TOL)
        if okp:
            P.oblige(f"{pre}.process_noise.names_exactly_the_controls", pn.has(s) == W.U.has(s))
            P.oblige(f"{pre}.process_noise.values_by_name_positive", z3.Implies(z3.And(i >= 0, i < W.k), z3.And(pn.get(W.AU(i)) == clamp(x(i)), pn.get(W.AU(i)) > 0)))
        sn = rv.d["sensor_noises"]
        oks = isinstance(sn, PyDict) and len(sn.d) == 2
        P.oblige(f"{pre}.sensor_noises_is_dict_of_the_sensors", z3.BoolVal(oks))
        if oks:
            r = z3.Const("r_any", Str)
            off = [W.k, W.k + W.m[0]]
            for idx, kx in enumerate(W.keys):
                ent = [v for k2, v in sn.d.items() if k2 is kx]
                good = len(ent) == 1 and hasattr(ent[0], "has")
                P.oblige(f"{pre}.sensor{idx}.entry", z3.BoolVal(good))
                if good:
                    d = ent[0]
                    P.oblige(f"{pre}.sensor{idx}.names_exactly_the_readings", d.has(r) == W.noises[idx].has(r))
                    P.oblige(f"{pre}.sensor{idx}.values_by_name", z3.Implies(z3.And(i >= 0, i < W.m[idx]), d.get(W.sk[idx](i)) == clamp(x(off[idx] + i))))
            P.oblige(f"{pre}.returned_sensor_noises_is_a_new_dict", z3.BoolVal(sn is not W.sn))
        W.frame(P, pre)


def set_params_cases():
    vocab = ALLOWED + CONFIG_FIELDS + ["not_a_parameter"]
    singles = [(k,) for k in vocab]
    pairs = [p for p in itertools.permutations(vocab, 2)]
    triples = [("max_dt_sec", "innovation_filtering", "extra_validation"), ("config", "max_dt_sec", "innovation_filtering"), ("max_dt_sec", "config", "process_noise")]
    return singles + pairs + triples


def run_set_params(I, keys, filtering_disabled=False):
    """Execute the real set_params(**{k: fresh value}) in the interpreter; returns (adapter, values, outcome)."""
    cls = adapter_class(I)
    cfg = config_obj(I, filtering_disabled=filtering_disabled)
    obj = SObj(cls, {k: SObj("Val", {}, f"old.{k}") for k in ALLOWED}, "adapter")
    obj.fields["config"] = cfg
    vals = {}
    for k in keys:
        vals[k] = config_obj(I, "newcfg") if k == "config" else SObj("Val", {}, f"new.{k}")
    try:
        rv = I.call(I.getattr(obj, "set_params"), [], dict(vals))
        return obj, cfg, vals, ("return", rv)
    except PyRaise as e:
        return obj, cfg, vals, ("raise", e.exc_type)


def expected_after(keys, cfg, vals, old):
    """Spec of set_params: keys applied in order; a Config field rewrites exactly that field of the current config."""
    attrs = dict(old)
    cur_cfg = {f: cfg.fields[f] for f in CONFIG_FIELDS}
    cfg_obj = cfg
    for k in keys:
        if k in ALLOWED:
            attrs[k] = vals[k]
            if k == "config":
                cur_cfg = {f: vals[k].fields[f] for f in CONFIG_FIELDS}
                cfg_obj = vals[k]
        elif k in CONFIG_FIELDS:
            cur_cfg = dict(cur_cfg)
            cur_cfg[k] = vals[k]
            cfg_obj = None
        else:
            return "raise", attrs, cur_cfg, cfg_obj
    return "return", attrs, cur_cfg, cfg_obj


# ------------------------------------------------------------------------------------------------
# fit


class VecV(SV):
    """A parameter vector of the right length handed to the objective by the optimiser (D-opt: arbitrary values)."""

    def __init__(self, tag):
        self.tag = tag


class OptResult(SV):
    def __init__(self, success, x):
        self.success, self.x = success, x

    def pvc_getattr(self, I, name):
        if name == "success":
            return self.success
        if name == "x":
            return self.x
        if name == "message":
            return "message"
        return NotImplemented


class Fit(Contract):
    """SklearnEKFAdapter.fit(X, y=None, sample_weight=None)
    D-opt: scipy.optimize.minimize(f, x0, ...) calls f on arbitrary vectors of len(x0), any number of times, and returns a result with
           .success, .x (len(x0)), .message.
    ensures  every call of the objective leaves the estimator's six parameters as they were, also when score() raises;
             fit raises MinimizationFailure (iff not result.success) or returns self; on return only process_noise and sensor_noises were
             rebound, to _inverse_flatten_scoring_params(result.x) (whose contract gives: same names, clamped positive values)."""

    key = "formak.python:SklearnEKFAdapter.fit"

    def __init__(self, score_raises=False):
        self.score_raises = score_raises
        self.prefix = f"C17.py.fit[score_{'raises' if score_raises else 'returns'}]"

    def setup(self, I):
        P = I.path
        P.ghost["site"] = self.prefix
        cls = adapter_class(I)
        # the mapping-valued parameters may legitimately be EMPTY (a model without controls has process_noise == {}): their
        # truth value is symbolic, so a guard written as `if not self.process_noise` is seen to trip on valid estimators
        class MappingVal(SObj):
            def __init__(self2, tag):
                super().__init__("Val", {}, tag)
                self2.nonempty = P.fresh_bool(f"{tag.split('.')[-1]}_nonempty")

            def pvc_truth(self2, I2):
                return self2.nonempty

        self.vals = {k: (MappingVal(f"orig.{k}") if k in ("process_noise", "sensor_models", "sensor_noises", "calibration_map") else (config_obj(I, "orig.config") if k == "config" else SObj("Val", {}, f"orig.{k}"))) for k in ALLOWED}
        obj = SObj(cls, dict(self.vals), "adapter")
        self.log = []
        contract = self

        class FlattenStub(Contract):
            key = "formak.python:SklearnEKFAdapter._flatten_scoring_params"

            def apply(self, I2, args, kwargs):
                return VecV("x0")

        class InverseStub(Contract):
            key = "formak.python:SklearnEKFAdapter._inverse_flatten_scoring_params"

            def apply(self, I2, args, kwargs):
                x = args[1]
                contract.log.append(("inverse", x))
                d = PyDict({k: args[0].fields[k] for k in ALLOWED})
                d.d["process_noise"] = SObj("Val", {}, f"pn_of_{getattr(x, 'tag', '?')}")
                d.d["sensor_noises"] = SObj("Val", {}, f"sn_of_{getattr(x, 'tag', '?')}")
                return d

        class ScoreStub(Contract):
            key = "formak.python:SklearnEKFAdapter.score"

            def apply(self, I2, args, kwargs):
                o = args[0]
                contract.log.append(("score", {k: o.fields[k] for k in ALLOWED}))
                if contract.score_raises and len([e for e in contract.log if e[0] == "score"]) >= 2:
                    raise PyRaise("ValueError")
                return SReal(I2.path.fresh_real("score"))

        for c in (FlattenStub(), InverseStub(), ScoreStub()):
            I.contracts[c.key] = c
        I.inline |= {"formak.python:SklearnEKFAdapter.set_params", "formak.python:SklearnEKFAdapter.get_params"}
        success = P.fresh_bool("minimize_success")

        def m_minimize(I2, args, kw):
            f, x0 = args[0], args[1]
            # an arbitrary call of the objective by the optimiser, checked against the objective's contract
            before = {k: obj.fields[k] for k in ALLOWED}
            try:
                I2.call(f, [VecV("trial")], {})
            finally:
                contract.after_objective = {k: obj.fields[k] for k in ALLOWED}
                contract.before_objective = before
            return OptResult(wrap(success), VecV("solution"))

        I.models.froms[("scipy.optimize", "minimize")] = Builtin("scipy.optimize.minimize", m_minimize)
        X = SObj("Data", {}, "X")
        return Call([obj, X], {}, obj=obj, success=success)

    def post(self, I, call, outcome):
        P, pre, obj = I.path, self.prefix, call.obj
        restored = getattr(self, "after_objective", None)
        if restored is not None:
            P.oblige(f"{pre}.objective_restores_parameters", z3.BoolVal(all(restored[k] is self.before_objective[k] for k in ALLOWED)))
        if outcome[0] == "raise":
            if self.score_raises and outcome[1] == "ValueError":
                # score() itself failed (outside fit's control); the parameters must still be the originals
                P.oblige(f"{pre}.parameters_restored_when_score_raises", z3.BoolVal(all(obj.fields[k] is self.vals[k] for k in ALLOWED)))
                return
            P.oblige(f"{pre}.only_MinimizationFailure", z3.BoolVal(outcome[1] == "MinimizationFailure"), note=f"raises {outcome[1]}")
            P.oblige(f"{pre}.fails_only_if_not_success", z3.Not(call.success))
            P.oblige(f"{pre}.failed_fit_leaves_parameters", z3.BoolVal(all(obj.fields[k] is self.vals[k] for k in ALLOWED)))
            return
        P.oblige(f"{pre}.fails_if_not_success", call.success)
        P.oblige(f"{pre}.returns_self", z3.BoolVal(outcome[1] is obj))
        for k in ("symbolic_model", "sensor_models", "calibration_map", "config"):
            P.oblige(f"{pre}.keeps.{k}", z3.BoolVal(obj.fields[k] is self.vals[k]))
        sol = [x for kind, x in self.log if kind == "inverse" and getattr(x, "tag", None) == "solution"]
        P.oblige(f"{pre}.noise_from_the_optimisers_solution", z3.BoolVal(len(sol) >= 1 and getattr(obj.fields["process_noise"], "name", "") == "pn_of_solution" and getattr(obj.fields["sensor_noises"], "name", "") == "sn_of_solution"))
