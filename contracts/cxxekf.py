"""Contracts on the TEMPLATED parts of the generated C++ filter (C07, C06 C++ half).

py/formak/templates/process_model.cpp, sensor_model.hpp, innovations.hpp are rendered by the real generator into a
header/source pair (one program per control x calibration combination, every run, from the working tree); clang dumps
the rendered `ExtendedKalmanFilter::process_model`, `ExtendedKalmanFilter::sensor_model<ReadingT>`,
`ExtendedKalmanFilter::innovations<ReadingT>`, the per-reading `sensor_model(impl, state, calibration)` forwarder and
cpp/include/formak/innovation_filtering.h's `removeInnovation<reading_size>`; pvc/front_cxx.py lowers the clang trees to
Python ast and the same interpreter executes them.  The templates' only jinja inputs are enable_control /
enable_calibration (checked), so one rendering per combination stands for every model of that combination; dimensions
n, m, k are symbolic.  The per-model static functions (ProcessModel::model / process_jacobian / control_jacobian /
covariance, SensorModel::model / jacobian / covariance) are opaque pure callees here: they are what C02 validates
per program.  Postconditions use the SAME spec terms as the Python filter's contracts (contracts/pyekf.py):
that is how `Python and C++ agree step for step` becomes a lemma over the two sets of contracts.
Eigen's `*` is the matrix product; the C++ groups products to the left, the spec to the right: associativity of the
matrix product is the one algebraic law used (exact arithmetic; floating point: D-float).
"""
from __future__ import annotations

import ast
import os
import re

import z3

from contracts import pyekf
from pvc import front_cxx
from pvc.contract import Call, Contract
from pvc.interp import Builtin, ModuleV
from pvc.models import sqrt_f
from pvc.sym import Mat, PyRaise, SBool, SInt, SMat, SObj, SReal, SV, Unsupported, is_numeric, mat_add, mat_el, mat_inv, mat_mm, mat_sub, mm, mat_T, to_bool, to_int, to_real, wrap

TEMPLATES = ("py/formak/templates/process_model.cpp", "py/formak/templates/sensor_model.hpp", "py/formak/templates/innovations.hpp")
HELPER = "cpp/include/formak/innovation_filtering.h"


# ---- shared spec terms (the same functions state the Python contracts) ---------------------------------------
spec_predict_cov = pyekf.spec_predict_cov
spec_S = pyekf.spec_S
spec_K = pyekf.spec_K
spec_state = pyekf.spec_state
spec_cov = pyekf.spec_cov
nis_f = pyekf.nis_f
threshold = pyekf.threshold


def assoc_axiom(P):
    A, B, C = z3.Const("A_", Mat), z3.Const("B_", Mat), z3.Const("C_", Mat)
    P.definitions.add("matrix product is associative (exact arithmetic)")
    P.facts.append(z3.ForAll([A, B, C], mat_mm(mat_mm(A, B), C) == mat_mm(A, mat_mm(B, C)), patterns=[mat_mm(mat_mm(A, B), C)]))


def template_inputs(repo):
    """jinja variables used by the three templates (must be only the two flags)."""
    used = set()
    for t in TEMPLATES:
        txt = open(os.path.join(repo, t)).read()
        for m in re.finditer(r"\{\{(.*?)\}\}|\{%(.*?)%\}", txt, re.S):
            body = (m.group(1) or m.group(2) or "").strip()
            for w in re.findall(r"[A-Za-z_]\w*", body):
                if w not in ("if", "endif", "else", "elif", "not", "and", "or"):
                    used.add(w)
    return used


class LoweredFilter:
    cache = {}

    def __init__(self, repo, has_control, has_calibration):
        from replay import cppgen, scenarios

        self.flags = {"HAS_CONTROL": bool(has_control), "HAS_CALIBRATION": bool(has_calibration)}
        self.cfg = f"u{int(has_control)}c{int(has_calibration)}"
        key = (repo, self.cfg)
        if key in LoweredFilter.cache:
            self.__dict__.update(LoweredFilter.cache[key].__dict__)
            return
        texts = []
        for shape, seed in (((2, int(has_calibration), int(has_control), [2]), 11), ((3, 2 * int(has_calibration), 2 * int(has_control), [1, 3]), 23)):
            sc = scenarios.Scenario(shape[0], shape[1], shape[2], shape[3], seed=seed)
            header, source, _ = cppgen.generate(sc, innovation_filtering=5.0)
            texts.append(self.lower(repo, header, source))
        self.source, self.info, self.dropped = texts[0]
        # the lowered bodies must not depend on the model beyond the flags
        self.model_independent = texts[0][0] == texts[1][0]
        self.other_source = texts[1][0]
        self.modname = f"cxx_EKF_{self.cfg}"
        LoweredFilter.cache[key] = self

    def lower(self, repo, header, source):
        from replay.cppgen import STANDIN
        import tempfile

        info, dropped = {}, set()
        with tempfile.TemporaryDirectory(prefix="pvc-gen-") as d:
            os.makedirs(os.path.join(d, "formak"))
            open(os.path.join(d, "formak", "model.h"), "w").write(header)
            incs = [d, STANDIN, os.path.join(repo, "cpp/include")]
            objs, _ = front_cxx.run_clang(source, incs, "process_model")
            pm = [o for o in objs if o.get("kind") == "CXXMethodDecl" and o.get("name") == "process_model" and any(c.get("kind") == "CompoundStmt" for c in o.get("inner", []))]
            objs2, _ = front_cxx.run_clang(source, incs, "sensor_model")
            objs3, _ = front_cxx.run_clang(source, incs, "innovations")
            helper_text = open(os.path.join(repo, HELPER)).read()
            objs4, _ = front_cxx.run_clang('#include "formak/innovation_filtering.h"\n', incs, "removeInnovation")
        if len(pm) != 1:
            raise Unsupported("ExtendedKalmanFilter::process_model definition not found in clang's dump")
        ekf_methods, rd_methods, free = [], [], []

        def low(text, decl, pyname, is_method=True):
            L = front_cxx.Lowerer(text, self.flags, eigen=True)
            fd, params = L.function(decl, pyname, is_method=is_method)
            dropped.update(L.dropped)
            info[pyname] = {"params": params, "const": decl.get("type", {}).get("qualType", "").rstrip().endswith("const")}
            return fd

        ekf_methods.append(low(source, pm[0], "process_model"))
        ft = [o for o in objs2 if o.get("kind") == "FunctionTemplateDecl" and o.get("name") == "sensor_model"]
        if len(ft) != 1:
            raise Unsupported("sensor_model<ReadingT> template not found")
        ekf_methods.append(low(header, [c for c in ft[0]["inner"] if c.get("kind") == "CXXMethodDecl"][0], "sensor_model"))
        ft = [o for o in objs3 if o.get("kind") == "FunctionTemplateDecl" and o.get("name") == "innovations"]
        if len(ft) != 1:
            raise Unsupported("innovations<ReadingT> template not found")
        ekf_methods.append(low(header, [c for c in ft[0]["inner"] if c.get("kind") == "CXXMethodDecl"][0], "innovations"))
        # per-reading forwarders: every reading struct's sensor_model(impl, state[, calibration]) override
        fw = [o for o in objs2 if o.get("kind") == "CXXMethodDecl" and o.get("name") == "sensor_model" and any(c.get("kind") == "CompoundStmt" for c in o.get("inner", [])) and [c.get("name") for c in o.get("inner", []) if c.get("kind") == "ParmVarDecl"][:1] == ["impl"]]
        texts = set()
        for k, o in enumerate(fw):
            fd = low(header, o, "forward_sensor_model")
            texts.add(ast.unparse(ast.fix_missing_locations(ast.Module([fd], []))))
        if len(texts) != 1:
            raise Unsupported(f"per-reading sensor_model forwarders: {len(texts)} distinct bodies")
        rd_methods.append(fd)
        ft = [o for o in objs4 if o.get("kind") == "FunctionTemplateDecl" and o.get("name") == "removeInnovation"]
        if len(ft) != 1:
            raise Unsupported("removeInnovation template not found")
        free.append(low(helper_text, [c for c in ft[0]["inner"] if c.get("kind") == "FunctionDecl"][0], "removeInnovation", is_method=False))

        def cls(name, body):
            c = ast.ClassDef(name, [], [], body, [])
            if hasattr(c, "type_params"):
                c.type_params = []
            return c

        mod = ast.Module([cls("ExtendedKalmanFilter", ekf_methods), cls("ReadingStruct", rd_methods)] + free, [])
        ast.fix_missing_locations(mod)
        return ast.unparse(mod) + "\n", info, dropped

    def module(self):
        return ModuleV(self.modname, "<lowered from the rendered templates>", ast.parse(self.source), self.source)


# ---- C++ value helpers ------------------------------------------------------------------------------------


def struct(tag, **fields):
    return SObj("Struct", dict(fields), tag)


def need_shapes(I, what, cond):
    """Eigen fixed-size operands of mismatching dimensions do not compile: reported as an obligation."""
    site = I.path.ghost.get("site", "cxx")
    I.path.oblige(f"{site}.well_formed.{what}", cond, note="Eigen fixed-size dimensions must agree (otherwise the program is ill-formed)")


def install(I, low, world):
    I.modules[low.modname] = low.module()
    b = I.models.builtins

    def cxx_mul(I2, a, k):
        x, y = a
        if isinstance(x, SMat) and isinstance(y, SMat):
            need_shapes(I2, "product", to_int(x.cols()) == to_int(y.rows()))
            return SMat(mm(x.term, y.term), shape=(x.rows(), y.cols()), ident=object())
        if is_numeric(x) and is_numeric(y):
            return I2.arith(ast.Mult(), x, y)
        raise Unsupported("scalar * matrix in lowered C++")

    def addsub(fn, pyop, what):
        def f(I2, a, k):
            x, y = a
            if isinstance(x, SMat) and isinstance(y, SMat):
                need_shapes(I2, what, z3.And(to_int(x.rows()) == to_int(y.rows()), to_int(x.cols()) == to_int(y.cols())))
                return SMat(fn(x.term, y.term), shape=(x.rows(), x.cols()), ident=object())
            if is_numeric(x) and is_numeric(y):
                return I2.arith(pyop, x, y)
            raise Unsupported(f"{what} of {x!r}, {y!r}")

        return f

    def cxx_transpose(I2, a, k):
        (x,) = a
        if not isinstance(x, SMat):
            raise Unsupported("transpose of a non-matrix")
        return SMat(mat_T(x.term), shape=(x.cols(), x.rows()), ident=object())

    def cxx_inverse(I2, a, k):
        (x,) = a
        if not isinstance(x, SMat):
            raise Unsupported("inverse of a non-matrix")
        need_shapes(I2, "inverse", to_int(x.rows()) == to_int(x.cols()))
        return SMat(mat_inv(x.term), shape=(x.rows(), x.cols()), ident=object())

    b["cxx_mul"] = Builtin("cxx_mul", cxx_mul)
    b["cxx_add"] = Builtin("cxx_add", addsub(mat_add, ast.Add(), "sum"))
    b["cxx_sub"] = Builtin("cxx_sub", addsub(mat_sub, ast.Sub(), "difference"))
    b["cxx_transpose"] = Builtin("cxx_transpose", cxx_transpose)
    b["cxx_inverse"] = Builtin("cxx_inverse", cxx_inverse)
    b["default_construct"] = Builtin("default_construct", lambda I2, a, k: SObj("Struct", {}, str(a[0])))
    b["mk_struct"] = Builtin("mk_struct", lambda I2, a, k: SObj("Struct", dict(k), "struct"))
    b["any_cast"] = Builtin("any_cast", lambda I2, a, k: a[0])
    b["sqrt"] = I.models.froms[("math", "sqrt")]
    b["ExtendedKalmanFilter_ProcessModel"] = SObj("ProcessModelX", {"_world": world}, "ExtendedKalmanFilter::ProcessModel")
    b["ReadingT_SensorModel"] = SObj("SensorModelX", {"_world": world}, "ReadingT::SensorModel")
    b["ReadingT"] = struct("ReadingT", Identifier=SInt(world.sensor_id))
    b["cpp_Config"] = struct("cpp::Config", innovation_filtering=world.k_edit)
    b["reading_size"] = SInt(world.m)


class InnovMap(SV):
    """std::unordered_map<SensorId, std::any> _innovations: presence and stored matrix per key (z3 arrays)."""

    pvc_type = "dict"

    def __init__(self, P, m):
        self.present = z3.Const(P.names.fresh("inn_present"), z3.ArraySort(z3.IntSort(), z3.BoolSort()))
        self.vals = z3.Const(P.names.fresh("inn_vals"), z3.ArraySort(z3.IntSort(), Mat))
        self.m = m
        self.writes = 0

    def pvc_setitem(self, I, k, v):
        if I.merge_depth:
            raise Unsupported("map store in summarised loop")
        if not isinstance(v, SMat):
            raise Unsupported("innovation map stores a non-matrix")
        kz = to_int(k)
        self.present = z3.Store(self.present, kz, z3.BoolVal(True))
        self.vals = z3.Store(self.vals, kz, v.term)
        self.writes += 1

    def pvc_getitem(self, I, k):
        kz = to_int(k)
        # operator[] on an absent key default-inserts an empty std::any, whose any_cast throws
        I.raise_if(z3.Not(z3.Select(self.present, kz)), "bad_any_cast")
        return SMat(z3.Select(self.vals, kz), shape=(SInt(self.m), 1), ident=object())

    def pvc_getattr(self, I, name):
        if name == "count":
            return Builtin("unordered_map.count", lambda I2, a, k: SInt(z3.If(z3.Select(self.present, to_int(a[0])), z3.IntVal(1), z3.IntVal(0))))
        return NotImplemented


class World:
    """Symbolic inputs of one filter call, for every model of the configuration (dimensions n, m, k symbolic)."""

    def __init__(self, I, low, filtering):
        P = I.path
        self.low = low
        self.n, self.m, self.k = P.fresh_int("n_state"), P.fresh_int("m_reading"), P.fresh_int("k_control")
        P.assume(z3.And(self.n >= 1, self.m >= 1, self.k >= 0))
        if not low.flags["HAS_CONTROL"]:
            P.assume(self.k == 0)
        self.sensor_id = P.fresh_int("sensor_id")
        if filtering:
            kz = P.fresh_real("editing_threshold")
            P.assume(kz > 0)
            self.k_edit = SReal(kz)
        else:
            self.k_edit = 0.0
        self.filtering = filtering
        n, m, k = SInt(self.n), SInt(self.m), SInt(self.k)
        mk = lambda nm, r, c: SMat(z3.Const(nm, Mat), shape=(r, c), ident=object())
        self.x, self.P = mk("x_in", n, 1), mk("P_in", n, n)
        self.state_obj = struct("State", data=self.x)
        self.cov_obj = struct("Covariance", data=self.P)
        self.state = struct("StateAndVariance", state=self.state_obj, covariance=self.cov_obj)
        self.calibration = struct("Calibration")
        self.control = struct("Control")
        self.dt = SReal(P.fresh_real("dt"))
        self.z = mk("z_in", m, 1)
        self.reading = SObj("ReadingStruct", {"data": self.z}, "reading")
        # results of the opaque per-model functions at exactly these inputs
        self.G, self.V, self.M = mk("G_x", n, n), mk("V_x", n, k), mk("M_x", k, k)
        self.fx = mk("f_x", n, 1)
        self.hx, self.H, self.Q = mk("h_x", m, 1), mk("H_x", m, n), mk("Q_x", m, m)
        self.calls = []
        self.innov = InnovMap(P, self.m)
        self.innov0 = (self.innov.present, self.innov.vals)
        mod = I.load_module(low.modname) if low.modname in I.modules else None
        self.ekf = None

    def make_filter(self, I):
        mod = I.load_module(self.low.modname)
        cls = I.module_attr(mod, "ExtendedKalmanFilter")
        self.ekf = SObj(cls, {"_innovations": self.innov}, "ekf")
        self.reading.cls = I.module_attr(mod, "ReadingStruct")
        return self.ekf

    def snapshot(self):
        return {"state.state": self.state.fields["state"], "state.covariance": self.state.fields["covariance"], "state.state.data": self.state_obj.fields["data"], "state.covariance.data": self.cov_obj.fields["data"], "reading.data": self.reading.fields["data"]}

    def frame(self, P, pre, snap):
        cur = self.snapshot()
        for f, v in snap.items():
            P.oblige(f"{pre}.frame.{f}", z3.BoolVal(cur[f] is v))


class StaticCallee(Contract):
    """ASSUMED here, validated per program by C02: the generated per-model static functions are pure functions of their
    arguments.  The call is ill-formed unless it has the configuration's arity; the arguments are recorded (the
    filter must pass ITS inputs)."""

    kind = "assumed"

    def __init__(self, cls, name, proc):
        self.key = f"{cls}.{name}"
        self.name, self.proc = name, proc

    def apply(self, I, args, kwargs):
        W = args[0].fields["_world"]
        rest = args[1:]
        fl = W.low.flags
        site = I.path.ghost.get("site", "cxx")
        if self.proc:
            expected = [("dt", W.dt), ("state", W.state)] + ([("calibration", W.calibration)] if fl["HAS_CALIBRATION"] else []) + ([("control", W.control)] if fl["HAS_CONTROL"] else [])
        else:
            expected = [("state", W.state)] + ([("calibration", W.calibration)] if fl["HAS_CALIBRATION"] else []) + [("reading", W.reading)]
        if len(rest) != len(expected):
            I.path.oblige(f"{site}.call_well_formed.{self.name}", z3.BoolVal(False), note=f"{self.key} called with {len(rest)} arguments, the configuration's signature has {len(expected)}")
            raise PyRaise("IllFormedCall")
        ok = True
        for (nm, want), got in zip(expected, rest):
            if nm == "dt":
                same = is_numeric(got) and z3.is_true(z3.simplify(to_real(got) == to_real(want)))
            else:
                same = got is want
            ok = ok and same
        W.calls.append((self.key, ok))
        res = {
            "ProcessModelX.model": lambda: struct("State", data=W.fx),
            "ProcessModelX.process_jacobian": lambda: W.G,
            "ProcessModelX.control_jacobian": lambda: W.V,
            "ProcessModelX.covariance": lambda: W.M,
            "SensorModelX.model": lambda: SObj(W.reading.cls, {"data": W.hx}, "reading_est"),
            "SensorModelX.jacobian": lambda: W.H,
            "SensorModelX.covariance": lambda: W.Q,
        }[self.key]()
        return res


STATIC = {c.key: c for c in [StaticCallee("ProcessModelX", n, True) for n in ("model", "process_jacobian", "control_jacobian", "covariance")] + [StaticCallee("SensorModelX", n, False) for n in ("model", "jacobian", "covariance")]}


def sqrt_law(P, m):
    sq = sqrt_f(z3.ToReal(2 * m))
    P.define(z3.And(sq >= 0, sq * sq == z3.ToReal(2 * m)), "sqrt law")


class RemoveInnovationX(Contract):
    """formak::innovation_filtering::edit::removeInnovation<reading_size>(k, innovation, S_inv)       [C06]
    requires innovation is (m,1), S_inv (m,m), m = reading_size >= 1.
    ensures  result  <=>  innovation^T S_inv innovation  >  k*sqrt(2m) + m   (strictly) - the SAME spec term as
             python.ExtendedKalmanFilter.remove_innovation;  pure."""

    def __init__(self, low):
        self.low = low
        self.key = f"{low.modname}:removeInnovation"
        self.prefix = "C06.cxx.removeInnovation"

    def setup(self, I):
        P = I.path
        W = World(I, self.low, True)
        install(I, self.low, W)
        P.ghost["site"] = self.prefix
        kz = P.fresh_real("k_any")
        nu = SMat(z3.Const("innovation", Mat), shape=(SInt(W.m), 1), ident=object())
        sinv = SMat(z3.Const("S_inv", Mat), shape=(SInt(W.m), SInt(W.m)), ident=object())
        return Call([SReal(kz), nu, sinv], {}, W=W, k=kz, nu=nu, sinv=sinv)

    def post(self, I, call, outcome):
        P, pre = I.path, self.prefix
        if outcome[0] == "raise":
            if outcome[1] != "IllFormedCall":
                P.oblige(f"{pre}.no_exception", z3.BoolVal(False), note=f"raises {outcome[1]}")
            return
        rv = outcome[1]
        ok = isinstance(rv, (SBool, bool))
        P.oblige(f"{pre}.scalar_result", z3.BoolVal(ok))
        if ok:
            sqrt_law(P, call.W.m)
            P.oblige(f"{pre}.decision", to_bool(rv) == (nis_f(call.nu.term, call.sinv.term) > threshold(call.k, call.W.m)), theory="euf")

    def apply(self, I, args, kwargs):
        k, nu, sinv = args
        if not (isinstance(nu, SMat) and isinstance(sinv, SMat)):
            raise Unsupported("removeInnovation arguments")
        site = I.path.ghost.get("site", "cxx")
        # template argument deduction: innovation is Matrix<m,1>, S_inv Matrix<m,m> for ONE m
        I.path.oblige(f"{site}.well_formed.removeInnovation_deduction", z3.And(to_int(nu.cols()) == 1, to_int(sinv.rows()) == to_int(nu.rows()), to_int(sinv.cols()) == to_int(nu.rows())))
        m = to_int(nu.rows())
        sqrt_law(I.path, m)
        return wrap(nis_f(nu.term, sinv.term) > threshold(to_real(k), m))


class ProcessModelX(Contract):
    """generated ExtendedKalmanFilter::process_model(dt, state[, calibration][, control]) const      [C07]
    ensures  calls ProcessModel::model / process_jacobian / control_jacobian / covariance with exactly its own inputs (arity of the configuration);
             result.state = ProcessModel::model(...);  result.covariance.data = G P G^T + V M V^T  (the Python contract's spec term);
             (n,n) result;  frame: inputs untouched, method is const."""

    def __init__(self, low):
        self.low = low
        self.key = f"{low.modname}:ExtendedKalmanFilter.process_model"
        self.prefix = f"C07.cxx.process_model[{low.cfg}]"

    def setup(self, I):
        P = I.path
        W = World(I, self.low, True)
        install(I, self.low, W)
        ekf = W.make_filter(I)
        P.ghost["site"] = self.prefix
        assoc_axiom(P)
        fl = self.low.flags
        args = [ekf, W.dt, W.state] + ([W.calibration] if fl["HAS_CALIBRATION"] else []) + ([W.control] if fl["HAS_CONTROL"] else [])
        want = ["dt", "state"] + (["calibration"] if fl["HAS_CALIBRATION"] else []) + (["control"] if fl["HAS_CONTROL"] else [])
        return Call(args, {}, W=W, snap=W.snapshot(), want=want)

    def post(self, I, call, outcome):
        P, pre, W = I.path, self.prefix, call.W
        P.oblige(f"{pre}.signature", z3.BoolVal(self.low.info["process_model"]["params"] == call.want), note=f"parameters {self.low.info['process_model']['params']}")
        if outcome[0] == "raise":
            if outcome[1] != "IllFormedCall":
                P.oblige(f"{pre}.no_exception", z3.BoolVal(False), note=f"raises {outcome[1]}")
            return
        rv = outcome[1]
        called = {k for k, ok in W.calls}
        P.oblige(f"{pre}.callees_get_own_inputs", z3.BoolVal(all(ok for _, ok in W.calls)))
        ok = isinstance(rv, SObj) and set(rv.fields) == {"state", "covariance"} and all(isinstance(rv.fields[f], SObj) and isinstance(rv.fields[f].fields.get("data"), SMat) for f in ("state", "covariance"))
        P.oblige(f"{pre}.result_shape", z3.BoolVal(ok))
        if ok:
            sd, cd = rv.fields["state"].fields["data"], rv.fields["covariance"].fields["data"]
            P.oblige(f"{pre}.state", z3.And(z3.BoolVal("ProcessModelX.model" in called), sd.term == W.fx.term), theory="euf")
            P.oblige(f"{pre}.covariance", z3.And(z3.BoolVal({"ProcessModelX.process_jacobian", "ProcessModelX.control_jacobian", "ProcessModelX.covariance"} <= called), cd.term == spec_predict_cov(W.G.term, W.P.term, W.V.term, W.M.term)), theory="euf")
            P.oblige(f"{pre}.covariance_dimensions", z3.And(to_int(cd.rows()) == W.n, to_int(cd.cols()) == W.n, to_int(sd.rows()) == W.n, to_int(sd.cols()) == 1))
        P.oblige(f"{pre}.declared_const", z3.BoolVal(self.low.info["process_model"]["const"]))
        W.frame(P, pre, call.snap)


class SensorModelX(Contract):
    """generated ExtendedKalmanFilter::sensor_model<ReadingT>(state[, calibration], reading) const      [C07, C06]
    ensures  _innovations[ReadingT::Identifier] = z - h(x) (only that key changes);
             if Config::innovation_filtering > 0 and removeInnovation(k, z - h(x), S^-1): returns the input `state` unchanged;
             else x+ = x + K (z - h(x)),  P+ = P - K H P,  K = P H^T S^-1,  S = H P H^T + Q   (the Python contract's spec terms);
    frame    inputs untouched."""

    def __init__(self, low, filtering):
        self.low, self.filtering = low, filtering
        self.key = f"{low.modname}:ExtendedKalmanFilter.sensor_model"
        self.tag = f"{low.cfg},filtering_{'on' if filtering else 'off'}"
        self.prefix = f"C07.cxx.sensor_model[{self.tag}]"

    def setup(self, I):
        P = I.path
        W = World(I, self.low, self.filtering)
        install(I, self.low, W)
        ekf = W.make_filter(I)
        P.ghost["site"] = self.prefix
        assoc_axiom(P)
        fl = self.low.flags
        args = [ekf, W.state] + ([W.calibration] if fl["HAS_CALIBRATION"] else []) + [W.reading]
        want = ["state"] + (["calibration"] if fl["HAS_CALIBRATION"] else []) + ["reading"]
        return Call(args, {}, W=W, snap=W.snapshot(), want=want)

    def post(self, I, call, outcome):
        P, pre, W = I.path, self.prefix, call.W
        c6 = f"C06.cxx.sensor_model[{self.tag}]"
        P.oblige(f"{pre}.signature", z3.BoolVal(self.low.info["sensor_model"]["params"] == call.want), note=f"parameters {self.low.info['sensor_model']['params']}")
        if outcome[0] == "raise":
            if outcome[1] != "IllFormedCall":
                P.oblige(f"{pre}.no_exception", z3.BoolVal(False), note=f"raises {outcome[1]}")
            return
        rv = outcome[1]
        called = {k for k, ok in W.calls}
        P.oblige(f"{pre}.callees_get_own_inputs", z3.BoolVal(all(ok for _, ok in W.calls) and {"SensorModelX.model", "SensorModelX.jacobian", "SensorModelX.covariance"} <= called))
        H, Pt, xt, zt, Qt = W.H.term, W.P.term, W.x.term, W.z.term, W.Q.term
        S = spec_S(H, Pt, Qt)
        Sinv = mat_inv(S)
        nu = mat_sub(zt, W.hx.term)
        K = spec_K(Pt, H, Sinv)
        p0, v0 = W.innov0
        P.oblige(f"{pre}.records_innovation", z3.And(W.innov.present == z3.Store(p0, W.sensor_id, z3.BoolVal(True)), W.innov.vals == z3.Store(v0, W.sensor_id, nu)), theory="euf")
        discard = z3.BoolVal(False)
        if self.filtering:
            sqrt_law(P, W.m)
            discard = nis_f(nu, Sinv) > threshold(to_real(W.k_edit), W.m)
        if rv is W.state:
            P.oblige(f"{c6}.discard_only_if_nis_exceeds", discard, theory="euf")
        else:
            P.oblige(f"{c6}.discard_leaves_estimate_untouched", z3.Not(discard), theory="euf")
            ok = isinstance(rv, SObj) and set(rv.fields) == {"state", "covariance"} and all(isinstance(rv.fields[f], SObj) and isinstance(rv.fields[f].fields.get("data"), SMat) for f in ("state", "covariance"))
            P.oblige(f"{pre}.result_shape", z3.BoolVal(ok))
            if ok:
                sd, cd = rv.fields["state"].fields["data"], rv.fields["covariance"].fields["data"]
                P.oblige(f"{pre}.state_update", sd.term == spec_state(xt, K, nu), theory="euf")
                P.oblige(f"{pre}.covariance_update", cd.term == spec_cov(Pt, K, H), theory="euf")
                P.oblige(f"{pre}.dimensions", z3.And(to_int(cd.rows()) == W.n, to_int(cd.cols()) == W.n, to_int(sd.rows()) == W.n, to_int(sd.cols()) == 1))
        W.frame(P, pre, call.snap)


class InnovationsX(Contract):
    """generated ExtendedKalmanFilter::innovations<ReadingT>()                                          [C07]
    ensures  returns the matrix stored under ReadingT::Identifier if one is stored, an empty optional otherwise; the map is unchanged."""

    def __init__(self, low):
        self.low = low
        self.key = f"{low.modname}:ExtendedKalmanFilter.innovations"
        self.prefix = f"C07.cxx.innovations[{low.cfg}]"

    def setup(self, I):
        W = World(I, self.low, True)
        install(I, self.low, W)
        ekf = W.make_filter(I)
        I.path.ghost["site"] = self.prefix
        return Call([ekf], {}, W=W)

    def post(self, I, call, outcome):
        P, pre, W = I.path, self.prefix, call.W
        if outcome[0] == "raise":
            P.oblige(f"{pre}.no_exception", z3.BoolVal(False), note=f"raises {outcome[1]}")
            return
        rv = outcome[1]
        p0, v0 = W.innov0
        present = z3.Select(p0, W.sensor_id)
        if isinstance(rv, SMat):
            P.oblige(f"{pre}.value_is_the_stored_innovation", z3.And(present, rv.term == z3.Select(v0, W.sensor_id)), theory="euf")
        else:
            P.oblige(f"{pre}.empty_only_if_nothing_stored", z3.And(z3.BoolVal(isinstance(rv, SObj) and not rv.fields), z3.Not(present)))
        P.oblige(f"{pre}.map_unchanged", z3.BoolVal(W.innov.writes == 0))


class ImplSensorModel(Contract):
    key = "ImplFilterX.sensor_model"
    kind = "assumed"

    def apply(self, I, args, kwargs):
        impl = args[0]
        impl.fields["_calls"].append(args[1:])
        return impl.fields["_result"]


class ForwardX(Contract):
    """generated <Reading>::sensor_model(impl, state[, calibration]) const override
    ensures  returns impl.sensor_model(state[, calibration], *this) - exactly one call, with its own arguments."""

    def __init__(self, low):
        self.low = low
        self.key = f"{low.modname}:ReadingStruct.forward_sensor_model"
        self.prefix = f"C07.cxx.reading_forwarder[{low.cfg}]"

    def setup(self, I):
        W = World(I, self.low, True)
        install(I, self.low, W)
        W.make_filter(I)
        I.path.ghost["site"] = self.prefix
        res = struct("result")
        impl = SObj("ImplFilterX", {"_calls": [], "_result": res}, "impl")
        fl = self.low.flags
        args = [W.reading, impl, W.state] + ([W.calibration] if fl["HAS_CALIBRATION"] else [])
        return Call(args, {}, W=W, impl=impl, res=res)

    def post(self, I, call, outcome):
        P, pre, W = I.path, self.prefix, call.W
        if outcome[0] == "raise":
            P.oblige(f"{pre}.no_exception", z3.BoolVal(False), note=f"raises {outcome[1]}")
            return
        calls = call.impl.fields["_calls"]
        fl = self.low.flags
        want = [W.state] + ([W.calibration] if fl["HAS_CALIBRATION"] else []) + [W.reading]
        P.oblige(f"{pre}.forwards_own_arguments", z3.BoolVal(len(calls) == 1 and len(calls[0]) == len(want) and all(a is b for a, b in zip(calls[0], want))))
        P.oblige(f"{pre}.returns_the_filters_result", z3.BoolVal(outcome[1] is call.res))


def callees(low):
    d = dict(STATIC)
    d[ImplSensorModel.key] = ImplSensorModel()
    r = RemoveInnovationX(low)
    d[r.key] = r
    return d
