"""C04 - prediction step is x' = f(x,u), P' = G P G^T + V M V^T."""
from __future__ import annotations

import z3

from checks.ekf_common import COMMON_ASSUMPTIONS, TRUSTED, magnitude_native, nice_sizes, noise_contracts, triage_generic
from contracts import pyekf
from pvc import driver
from pvc.driver import Finding
from replay import kalman

PROPERTY = "C04"
EXPLANATION = (
    "ExtendedKalmanFilter.process_model (py/formak/python.py) is symbolically executed for symbolic model sizes with the callee contracts of "
    "Model.model (C01), process_jacobian / control_jacobian (C03), the covariance gate (C09) and the named containers (C13); the returned state "
    "is proved to be the model's value by name and the returned covariance to be the term G P G^T + V M V^T over uninterpreted matrix algebra, "
    "with a frame condition on all inputs and filter fields (repeatability is a corollary). The noise matrix assembly in _construct_process is "
    "verified separately: the symmetric double-store loop is summarised by a last-writer-wins closed form and proved to give M[i,j] = noise[control i] "
    "on the diagonal and 0 elsewhere for any number of controls."
)
ASSUMPTIONS = COMMON_ASSUMPTIONS + ["exact-arithmetic PSD preservation (Lean/Mathlib) makes the internal validity gates pass: psd(P), psd(M) => psd(G P G^T), psd(V M V^T), psd(sum)"]
TRUSTED_BASE = TRUSTED


def native(shape, seed, control_none=False, container="set"):
    return kalman.native_predict(shape, seed, control_none, container=container)


def check(run):
    cs = pyekf.filter_callees()
    for c in (pyekf.ProcessModel(False), pyekf.ProcessModel(True)):
        rep = run.verify(c, cs)
        triage_generic(run, rep, lambda shape, seed, container="set": native((shape[0], shape[1], shape[2]), seed, c.control_none, container=container), "process_model")
    from checks import C03

    for c in (pyekf.JacobianContract("process_jacobian"), pyekf.JacobianContract("control_jacobian")):
        rep = run.verify(c, cs)
        C03.triage(run, rep)
    for c in (pyekf.ModelModel(False), pyekf.ModelModel(True)):
        rep = run.verify(c, cs)
        triage_generic(run, rep, lambda shape, seed, container="set": native((shape[0], shape[1], shape[2]), seed, container=container), "Model.model")
    for c in noise_contracts("C04"):
        rep = run.verify(c, pyekf.construct_callees())
        triage_generic(run, rep, lambda shape, seed, container="set": native((shape[0], shape[1], max(shape[2], 2)), seed, container=container), "_construct_process", extra_native=[magnitude_native(run.seed)])
    if run.tier == "thorough" or any(r.status != "ok" for r in run.reports) or run.undecided:
        shapes = [(2, 0, 1), (3, 1, 2), (1, 0, 0), (3, 2, 3), (4, 0, 2)] if run.tier == "thorough" else [(3, 1, 2), (2, 0, 1)]
        fails = 0
        for shp in shapes:
            for cn in (False, True):
                run.native_runs += 1
                problems, sc = native(shp, run.seed, cn)
                if problems:
                    fails += 1
                    run.findings.append(Finding("C04.py.native_sweep", problems[0].split("[")[0][:40], f"shape n,c,k={shp} control_none={cn}: {problems[0]}", {"language": "python", "inputs": {"shape": list(shp), "seed": run.seed, "control_none": cn}, "model_definition": sc.describe(), "oracle_verdict": problems[:5]}, True))
        run.bounded.append({"what": "native process_model on generic models vs exact rational textbook prediction; repeat call; inputs unmodified", "bound": f"{len(shapes)} shapes x control given/None, one point each", "failures": fails, "counted_as_proved": False})

    # principal-branch folding (asin(sin a), atan(tan b), sqrt(a^2), acos(cos(a+b))) at points outside the principal range (always run):
    # a rewrite that is only valid on the principal branch moves the predicted state away from f(x, u)
    run.native_runs += 1
    bp, bsc = kalman.native_predict((3, 1, 2), run.seed, branchy=True)
    run.bounded.append({"what": "native process_model of a model with principal-branch folding, at a point outside the principal range and away from the kinks, vs the exact prediction", "bound": "1 model, one point", "failures": len(bp), "counted_as_proved": False})
    for p in bp[:1]:
        run.findings.append(Finding("C04.py.native_branch_folding", "branchy", f"model with asin(sin a), atan(tan b), sqrt(a^2), acos(cos(a+b)) terms: {p}", {"language": "python", "inputs": {"shape": [3, 1, 2], "seed": run.seed, "branchy": True}, "model_definition": bsc.describe(), "oracle_verdict": bp[:4]}, True))

    from checks.ekf_common import dtype_sweep, stateful_sweep

    dtype_sweep(run, "C04", ("predicted",))
    stateful_sweep(run, "C04", ('prediction',), run.tier == "thorough" or any(r.status != "ok" for r in run.reports) or bool(run.undecided) or bool(run.findings))


def replay_file(payload):
    inp = payload["inputs"]
    if inp.get("dtypes"):
        from checks.ekf_common import replay_dtypes

        return replay_dtypes(inp)
    if inp.get("magnitude_jacobians"):
        from checks.ekf_common import replay_magnitude

        return replay_magnitude(inp)
    if inp.get("sequence"):
        from checks.ekf_common import replay_sequence

        return replay_sequence(inp)
    if inp.get("branchy"):
        problems, sc = kalman.native_predict(tuple(inp["shape"][:3]), inp.get("seed", 0), branchy=True)
        print("replay C04 (principal-branch folding):", problems[:4] if problems else "prediction equals the textbook formulas")
        return not problems
    problems, sc = native(tuple(inp["shape"][:3]), inp.get("seed", 0), inp.get("control_none", False))
    print("replay C04:", problems[:4] if problems else "prediction equals the textbook formulas")
    return not problems
