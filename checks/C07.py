"""C07 - Python and generated C++ filters agree step for step."""
from __future__ import annotations

from checks import cxx_filter
from replay import cxxcompare, scenarios

PROPERTY = "C07"
EXPLANATION = (
    "The templated parts of the generated C++ filter (templates process_model.cpp, sensor_model.hpp, innovations.hpp, and the per-reading forwarder "
    "fragment) are rendered by the real generator from the working tree for each of the four control x calibration combinations, dumped by clang and "
    "lowered to the interpreter that also verifies the Python filter. ExtendedKalmanFilter::process_model and sensor_model<ReadingT> are proved, for "
    "symbolic dimensions and opaque per-model functions, to compute the SAME spec terms as python.ExtendedKalmanFilter.process_model / sensor_model "
    "(G P G^T + V M V^T; S = H P H^T + Q, K = P H^T S^-1, x + K nu, P - K H P; stored innovation nu = z - h(x); discard decision via the C06 helper "
    "contract), to call the per-model functions with exactly their own inputs and the configuration's arity, and to leave inputs untouched; "
    "innovations<ReadingT>() returns what was stored under ReadingT::Identifier. The templates' only jinja inputs are the two flags (checked), so one "
    "rendering per combination covers every model. Equality of the per-model functions (values, Jacobians, noise, named layout) is C02/C03/C13; "
    "two explicit lemmas compose the contracts into 'equal results for equal inputs'. Agreement of the compiled artefacts is additionally "
    "compared natively, by name, on a bounded corpus (labelled bounded)."
)
ASSUMPTIONS = [
    "D-float: real arithmetic; the C++ groups matrix products to the left, Python to the right - equal by associativity in exact arithmetic, up to rounding in floating point (the property's 'up to floating-point rounding')",
    "matrix product/inverse/transpose uninterpreted (shape rules + associativity); Eigen `*` on fixed-size matrices is the matrix product; dimension mismatches are ill-formed programs (obligation)",
    "per-model static functions (ProcessModel::*, SensorModel::*) are pure functions of their arguments - validated per program by C02",
    "template argument deduction / overload resolution / std::any / std::optional semantics as modelled (any_cast of the stored type; operator[] on a present key)",
    "clang 14's JSON AST of the rendered templates against the vendored Eigen stand-in (D-eigen: real Eigen is not available offline)",
    "S invertible (well-conditioned inputs, premise of the property)",
]
TRUSTED_BASE = ["pvc (own VC generator: /verif/pvc) + pvc/front_cxx.py lowering", "clang 14 JSON AST dump", "z3 5.1", "g++ 12 + vendored Eigen stand-in (native comparison only)"]


def check(run):
    cxx_filter.check_c07(run)


def replay_file(payload):
    inp = payload.get("inputs") or {}
    if not inp:
        print("replay C07: no concrete input (structural obligation on the lowered C++)")
        return True
    shp = inp["shape"]
    sc = scenarios.Scenario(shp[0], shp[1], shp[2], shp[3], seed=inp["seed"], share_reading=inp.get("share_reading", False))
    problems, det = cxxcompare.compare(sc, k_edit=inp.get("k_edit"), cse=inp.get("cse", True), seed=inp.get("point_seed", 0), container=inp.get("container", "set"))
    print("replay C07:", problems[:4] or "python and compiled C++ agree")
    return not problems
