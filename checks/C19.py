"""C19 - strapdown IMU reference model obeys rigid-body kinematics."""
from __future__ import annotations

import random
from fractions import Fraction

import sympy
import z3

from pvc import driver, smt
from pvc.driver import Finding
from pvc.sympy2z3 import Translator
from replay import native

PROPERTY = "C19"
EXPLANATION = (
    "py/formak/reference_models/strapdown_imu.py is straight-line code over sympy values: importing the real module IS its "
    "symbolic execution, and the resulting state_model expressions describe the function exactly for all inputs. Each is translated "
    "mechanically to z3 reals and proved equal, for all real arguments with |q|^2 != 0, to an independently written spec (Hamilton "
    "product by hand, textbook rotation matrix). Rational identities are proved after generalising the composed quaternion's four "
    "component sub-expressions to free variables (sound: a universally valid identity in the generalised variables implies the instance)."
)
ASSUMPTIONS = [
    "A-REAL: real arithmetic (floats in the model, 0.5, are exact rationals)",
    "sympy's Quaternion.mul / to_rotation_matrix / integrate are not trusted: only their OUTPUT expressions are checked against the hand-written spec",
    "the compiled model evaluates these expressions: C01's contract (python.compile) instantiated at this program; additionally sampled natively (bounded, not counted as proved)",
    "|q_active (x) q_mount|^2 != 0 (premise of the property: the rotation is undefined otherwise)",
]
TRUSTED_BASE = ["pvc.sympy2z3 (sympy -> z3 translation)", "z3 5.1", "sympy expression tree accessors (args/func), not its algebra"]

S = sympy.Symbol
ACT = ["oriw", "orix", "oriy", "oriz"]
CAL = ["coriw", "corix", "coriy", "coriz"]
GYRO = [r"\omega_{%d}" % i for i in (1, 2, 3)]
ACC = ["f_{%d}" % i for i in (1, 2, 3)]
BIAS = ["f_bias_{%d}" % i for i in (1, 2, 3)]
POS = ["x_{A}_{%d}" % i for i in (1, 2, 3)]
VEL = [r"\dot{x}_{A}_{%d}" % i for i in (1, 2, 3)]
ACCEL = [r"\ddot{x}_{A}_{%d}" % i for i in (1, 2, 3)]
YAW, PITCH, ROLL = r"\dot{\psi}", r"\dot{\theta}", r"\dot{\phi}"
EXPECTED_STATE = set(ACT + [YAW, PITCH, ROLL] + POS + VEL + ACCEL)
EXPECTED_CONTROL = set(GYRO + ACC)
EXPECTED_CALIBRATION = set(["g"] + CAL + BIAS)


def hamilton(p, q):
    a1, b1, c1, d1 = p
    a2, b2, c2, d2 = q
    return (
        a1 * a2 - b1 * b2 - c1 * c2 - d1 * d2,
        a1 * b2 + b1 * a2 + c1 * d2 - d1 * c2,
        a1 * c2 - b1 * d2 + c1 * a2 + d1 * b2,
        a1 * d2 + b1 * c2 - c1 * b2 + d1 * a2,
    )


def rot_unnormalised(q):
    """|q|^2 * R(q): textbook rotation matrix of a quaternion, before division by |q|^2."""
    A, B, C, D = q
    return [
        [A * A + B * B - C * C - D * D, 2 * (B * C - A * D), 2 * (B * D + A * C)],
        [2 * (B * C + A * D), A * A - B * B + C * C - D * D, 2 * (C * D - A * B)],
        [2 * (B * D - A * C), 2 * (C * D + A * B), A * A - B * B - C * C + D * D],
    ]


def matvec(M, v):
    return [M[i][0] * v[0] + M[i][1] * v[1] + M[i][2] * v[2] for i in range(3)]


def spec(val):
    """The property's spec as a function from symbol names to values; works over z3 terms and Fractions."""
    qa = [val(n) for n in ACT]
    qc = [val(n) for n in CAL]
    w = [val(n) for n in GYRO]
    f = [val(n) for n in ACC]
    b = [val(n) for n in BIAS]
    x = [val(n) for n in POS]
    v = [val(n) for n in VEL]
    g, dt = val("g"), val("dt")
    q = hamilton(qa, qc)
    N = q[0] * q[0] + q[1] * q[1] + q[2] * q[2] + q[3] * q[3]
    M = rot_unnormalised(q)
    rates = matvec(M, w)  # = |q|^2 R(q) w  (x->roll, y->pitch, z->yaw)
    rot_f = matvec(M, [f[i] - b[i] for i in range(3)])
    if isinstance(N, Fraction) and N == 0:
        return {}, N  # outside the property's premise |q|^2 != 0
    acc = [rot_f[0] / N, rot_f[1] / N, rot_f[2] / N - g]
    half = Fraction(1, 2) if isinstance(dt, Fraction) else z3.RealVal("1/2")
    dq = hamilton(qa, [0 * dt, w[0], w[1], w[2]])
    out = {ROLL: rates[0], PITCH: rates[1], YAW: rates[2]}
    for i in range(3):
        out[ACCEL[i]] = acc[i]
        out[VEL[i]] = v[i] + acc[i] * dt
        out[POS[i]] = x[i] + v[i] * dt + half * acc[i] * dt * dt
    for i, n in enumerate(ACT):
        out[n] = qa[i] + half * dq[i] * dt
    return out, N


def generalise(expr):
    """Replace the composed quaternion's component sub-expressions by free symbols Qa..Qd (sound generalisation)."""
    H = hamilton([S(n) for n in ACT], [S(n) for n in CAL])
    Q = [S("Qa"), S("Qb"), S("Qc"), S("Qd")]
    rep = {}
    for h, q in zip(H, Q):
        rep[h] = q
        rep[-h] = -q
    return expr.xreplace(rep), Q


def exact_eval(expr, point):
    return Fraction(str(sympy.nsimplify(expr.subs({S(k): sympy.Rational(v.numerator, v.denominator) for k, v in point.items()}), rational=True)))


def random_point(rng):
    names = ACT + CAL + GYRO + ACC + BIAS + POS + VEL + ["g", "dt"]
    return {n: Fraction(rng.randint(-9, 9), rng.randint(1, 4)) for n in names}


def model_point(model, T):
    pt = {}
    for sym, zc in T.symbol_map.items():
        v = model.eval(zc, model_completion=True)
        if z3.is_rational_value(v):
            pt[sym.name] = Fraction(v.numerator_as_long(), v.denominator_as_long())
        elif z3.is_algebraic_value(v):
            a = v.approx(30)
            pt[sym.name] = Fraction(a.numerator_as_long(), a.denominator_as_long())
    return pt


def native_point_check(module, name, point):
    """Exact rational evaluation of the REAL module's expression vs the spec at a point."""
    sm = {k.name: v for k, v in module.state_model.items()}
    sp, N = spec(lambda n: point[n])
    if N == 0:
        return True, "degenerate point"
    got = exact_eval(sm[name], point)
    want = sp[name]
    return got == want, f"state_model[{name}] = {got} but rigid-body kinematics gives {want}"


def check(run):
    m = native.repo_import("formak.reference_models.strapdown_imu")
    fn = "formak.reference_models.strapdown_imu:<module>"
    # --- declared symbol sets -------------------------------------------------------------
    sets_ok = {
        "state": {s.name for s in m.state} == EXPECTED_STATE,
        "control": {s.name for s in m.control} == EXPECTED_CONTROL,
        "calibration": {s.name for s in m.calibration} == EXPECTED_CALIBRATION,
        "model_state": {s.name for s in m.symbolic_model.state} == EXPECTED_STATE and {s.name for s in m.symbolic_model.control} == EXPECTED_CONTROL and {s.name for s in m.symbolic_model.calibration} == EXPECTED_CALIBRATION,
        "state_model_keys": {s.name for s in m.state_model} == EXPECTED_STATE and {s.name for s in m.symbolic_model.state_model} == EXPECTED_STATE,
        "symbolic_model_uses_state_model": all(m.symbolic_model.state_model[k] == v for k, v in m.state_model.items()),
        "dt": m.symbolic_model.dt == S("dt"),
    }
    for k, ok in sets_ok.items():
        ob = run.prove(f"C19.symbol_sets.{k}", [], z3.BoolVal(bool(ok)), function=fn)
        if not ok:
            run.findings.append(Finding(ob.name, k, f"strapdown_imu declares a different {k} symbol set than the rigid-body state/control/calibration", {"declared": {"state": sorted(s.name for s in m.state), "control": sorted(s.name for s in m.control), "calibration": sorted(s.name for s in m.calibration)}}, True))
    sm = {k.name: v for k, v in m.state_model.items()}
    rng = random.Random(run.seed)
    for name in sorted(EXPECTED_STATE):
        if name not in sm:
            continue
        expr = sm[name]
        extra = expr.free_symbols - {S(n) for n in ACT + CAL + GYRO + ACC + BIAS + POS + VEL + ["g", "dt"]}
        gen, Q = generalise(expr)
        T = Translator()
        code = T.tr(gen)
        spec_terms, _ = spec(lambda n: T.sym(S(n)))
        target = spec_terms[name]
        # spec over the generalised quaternion where the code was generalised
        if not (gen.free_symbols & {S(n) for n in CAL}):
            qz = [T.sym(q) for q in Q]

            def val(n, T=T, qz=qz):
                return T.sym(S(n))

            # rebuild spec with q := (Qa..Qd) directly
            target = spec_generalised(T, qz)[name]
            N = qz[0] * qz[0] + qz[1] * qz[1] + qz[2] * qz[2] + qz[3] * qz[3]
        else:
            _, N = spec(lambda n: T.sym(S(n)))
        # only the property's own premise |q|^2 != 0 is assumed; the nonvanishing of every denominator that
        # occurs in the module's expression has to follow from it
        hyps = [N != 0]
        big = sympy.count_ops(gen) > 300
        ob = run.prove(f"C19.kinematics.{short(name)}", hyps, code == target, function=fn, timeout_ms=8000, ring_first=big)
        if extra:
            run.findings.append(Finding(ob.name, "free-symbols", f"state_model[{name}] depends on undeclared symbols {extra}", {"name": name}, True))
        if ob.result.status == "sat" or ob.result.status == "unknown":
            # replay / decide natively in exact rational arithmetic
            pts = []
            if ob.result.status == "sat" and ob.result.model is not None and not (gen.free_symbols & set(Q)):
                pts.append(model_point(ob.result.model, T))
            pts += [random_point(rng) for _ in range(25)]
            bad = None
            for pt in pts:
                full = random_point(rng)
                full.update({k: v for k, v in pt.items() if k in full})
                run.native_runs += 1
                ok, why = native_point_check(m, name, full)
                if not ok:
                    bad = (full, why)
                    break
            if bad:
                run.findings.append(Finding(ob.name, name, why, {"language": "python", "name": name, "inputs": {k: str(v) for k, v in bad[0].items()}, "solver_result": ob.result.status, "counter_model": smt.model_to_dict(ob.result.model), "oracle_verdict": bad[1]}, True))
            elif ob.result.status == "sat":
                run.findings.append(Finding(ob.name, name, f"{ob.name} refuted by the solver", {"name": name, "solver_result": "sat", "counter_model": smt.model_to_dict(ob.result.model)}, False))
            else:
                run.undecided.append(ob.name)
    # --- compiled model returns these values (C01 instantiated; sampled natively) ---------------
    n = 40 if run.tier == "thorough" else 6
    fails = compiled_model_samples(run, m, n, rng)
    run.bounded.append({"what": "python.compile(symbolic_model).model(...) evaluated natively (numpy-1.x shim) vs the spec in floating point, rel. tol 1e-9", "bound": f"{n} random points, CSE on and off", "failures": fails, "counted_as_proved": False})


def short(name):
    return name.replace("\\", "").replace("{", "").replace("}", "").replace("_", "")


def spec_generalised(T, q):
    val = lambda n: T.sym(S(n))
    qa = [val(n) for n in ACT]
    w = [val(n) for n in GYRO]
    f = [val(n) for n in ACC]
    b = [val(n) for n in BIAS]
    x = [val(n) for n in POS]
    v = [val(n) for n in VEL]
    g, dt = val("g"), val("dt")
    N = q[0] * q[0] + q[1] * q[1] + q[2] * q[2] + q[3] * q[3]
    M = rot_unnormalised(q)
    rates = matvec(M, w)
    rot_f = matvec(M, [f[i] - b[i] for i in range(3)])
    acc = [rot_f[0] / N, rot_f[1] / N, rot_f[2] / N - g]
    half = z3.RealVal("1/2")
    dq = hamilton(qa, [z3.RealVal(0), w[0], w[1], w[2]])
    out = {ROLL: rates[0], PITCH: rates[1], YAW: rates[2]}
    for i in range(3):
        out[ACCEL[i]] = acc[i]
        out[VEL[i]] = v[i] + acc[i] * dt
        out[POS[i]] = x[i] + v[i] * dt + half * acc[i] * dt * dt
    for i, n in enumerate(ACT):
        out[n] = qa[i] + half * dq[i] * dt
    return out


def compiled_model_samples(run, m, n, rng):
    from replay import shim

    py = shim.install()
    fails = 0
    cal_syms = sorted(m.symbolic_model.calibration, key=lambda s: s.name)
    for cse in (True, False):
        # every calibration's model is compiled FIRST, from the one reference definition, and all of them stay alive; only then is each
        # evaluated against the kinematics with ITS OWN calibration (a later compile must not reach into an earlier model)
        alive = []
        for cal_round in range(max(2, n // 6)):
            cal = {kk: float(v) for kk, v in random_point(rng).items()}
            # the calibration map is written in an order of the caller's choosing (here: shuffled, never the name-sorted one)
            order = list(cal_syms)
            rng.shuffle(order)
            if order == cal_syms and len(order) > 1:
                order.reverse()
            model = py.compile(m.symbolic_model, calibration_map={s: cal.get(s.name, 0.25) for s in order}, config={"common_subexpression_elimination": cse})
            alive.append((model, cal))
        for model, cal in alive:
            held = []  # every state the model returned stays in use: it is compared only after ALL calls on this model were made
            for k in range(min(n, 6)):
                pt = {kk: float(v) for kk, v in random_point(rng).items()}
                pt.update({s.name: cal.get(s.name, 0.25) for s in cal_syms})
                if abs(sum(x * x for x in hamilton([pt[a] for a in ACT], [pt[c] for c in CAL]))) < 1e-6:
                    continue
                state = model.State(**{nme: pt.get(nme, 0.0) for nme in [str(s) for s in model.arglist_state]})
                control = model.Control(**{str(s): pt[s.name] for s in model.arglist_control})
                run.native_runs += 1
                out = model.model(pt["dt"], state, control)
                sp, N = spec(lambda nme, pt=pt: Fraction(pt[nme]) if nme in pt else Fraction(0))
                held.append((out, sp, pt))
            for out, sp, pt in held:
                for idx, s in enumerate(model.arglist_state):
                    want = float(sp[s.name])
                    got = float(out.data[idx, 0])
                    if abs(got - want) > 1e-9 * max(1.0, abs(want)):
                        fails += 1
                        run.findings.append(Finding("C19.compiled_model.sample", s.name, f"compiled strapdown model (cse={cse}) returns {got} for {s.name}, kinematics gives {want}", {"language": "python", "name": s.name, "inputs": pt, "cse": cse, "got": got, "want": want, "compiled": True}, True))
                        return fails
    return fails


def replay_file(payload):
    m = native.repo_import("formak.reference_models.strapdown_imu")
    if payload.get("compiled"):
        print("re-run the compiled-model sample:", payload.get("name"), payload.get("got"), payload.get("want"))
        return False
    pt = {k: Fraction(v) for k, v in payload["inputs"].items()}
    ok, why = native_point_check(m, payload["name"], pt)
    print("replay:", why if not ok else "agrees with the spec at this point")
    return ok
