"""C01 - compiled Python model computes exactly the user's symbolic state model."""
from __future__ import annotations

import random
from fractions import Fraction

import z3

from checks.ekf_common import triage_generic
from contracts import pyblock, pyekf
from pvc import driver, smt
from pvc.driver import Finding
from pvc.sympy2z3 import Translator
from replay import scenarios

PROPERTY = "C01"
EXPLANATION = (
    "python.Model.__init__, BasicBlock._compile, BasicBlock.execute and Model.model (py/formak/python.py) are symbolically executed with the "
    "model's symbol sets, expressions and the CSE program all symbolic (any number of states/controls/calibrations, any expressions, any number of "
    "temporaries). Model.__init__: argument layout [dt]+sorted state+sorted calibration+sorted control, calibration vector by name, statements by "
    "state name. _compile: prefix entry i is lambdified over arglist + temporaries[:i], body entries over arglist + all temporaries (both CSE "
    "settings). execute: loop invariant 'temporary_values holds exactly the first j temporaries with their values in the extended environment'; every "
    "lambdified call binds every parameter exactly once; the yielded values are ev(original statement, E) - the same term with CSE on and off. "
    "Model.model: positional alignment of the call with the arglist and storage by name. sympy's cse/simplify/lambdify are assumed contracts "
    "(D-cse, D-simp, D-lam), discharged per program on a seeded corpus: back-substituted CSE output is proved equal to the original expression for "
    "all real inputs (z3), and the real compiled model is compared with exact sympy evaluation (bounded over programs, not counted as proved)."
)
ASSUMPTIONS = [
    "D-cse, D-simp, D-lam (contracts/pyblock.py docstring) - sympy internals are out of reach; spot-checked per corpus program",
    "A-REAL: floats as reals ('to floating-point accuracy' is not decided)",
    "accepted model: symbols pairwise distinct with distinct names; free symbols of the update expressions are declared symbols (else lambdify's NameError at call time)",
    "A-PY: set iteration order is arbitrary (order token); sorted(..., key=name) is total on distinct names",
]
TRUSTED_BASE = ["pvc (own VC generator: /verif/pvc)", "z3 5.1", "python ast module", "pvc.sympy2z3 for the per-program dependency checks"]


def native_model(shape, seed, container="set", cse=True, transcendental=False, branchy=False, passthrough=False, rename=None, proactive_simplify=False, rename_assumptions=False):
    """Real compiled model vs exact sympy evaluation, by name."""
    from replay import shim
    from replay.native import repo_import

    n, c, k = shape[0], shape[1], shape[2]
    sc = scenarios.Scenario(n, c, k, [1], seed=seed, transcendental=transcendental, branchy=branchy, passthrough=passthrough)
    transcendental = transcendental or branchy
    if rename:
        sc = scenarios.renamed(sc, rename, seed, unused_control=True, assumptions=rename_assumptions)
        k = sc.k
    problems = []
    try:
        py = shim.install()
        ui = repo_import("formak.ui")
        model = py.compile(sc.ui_model(ui, container, proactive_simplify=proactive_simplify), calibration_map=dict(reversed(list(sc.calibration_map.items()))), config={"common_subexpression_elimination": cse})
        from fractions import Fraction

        pts = [sc.point(seed), sc.point(seed + 1)]
        # the SAME compiled object again at nearby operating points (state kept between calls must not leak)
        fixed = set(sc.calibration) | {sc.dt}  # calibration values are baked into the compiled model
        near = {kk: (v * Fraction(1000004, 1000000) if kk not in fixed else v) for kk, v in pts[1].items()}
        near2 = {kk: (v + Fraction(1, 2**28) if kk not in fixed else v) for kk, v in near.items()}
        pts += [near, near2, pts[0]]
        kept = []  # (call number, returned object, expected values): a returned state is the caller's - later calls must not change it
        for call_no, pt in enumerate(pts):
            state = model.State(**{s.name: float(pt[s]) for s in sc.state})
            control = model.Control(**{u.name: float(pt[u]) for u in sc.control}) if k else None
            out = model.model(float(pt[sc.dt]), state, control) if k else model.model(float(pt[sc.dt]), state)
            wants = []
            for idx, s in enumerate(model.arglist_state):
                want = float(scenarios.exact(sc.state_model[s], pt)) if not transcendental else float(sc.state_model[s].subs({kk: float(v) for kk, v in pt.items()}))
                wants.append(want)
                got = float(out.data[idx, 0])
                if abs(got - want) > 1e-9 * max(1.0, abs(want)):
                    problems.append(f"compiled model (cse={cse}, {container} containers) returns {got} for state {s.name}, its update expression evaluates to {want}")
            for idx, s in enumerate(model.arglist_state):
                if float(state.data[idx, 0]) != float(pt[s]):
                    problems.append(f"compiled model (cse={cse}) changed its INPUT state {s.name} during call {call_no}")
            kept.append((call_no, out, wants))
        # a stepped trajectory: feed the output back in as the next input, keeping every returned state
        traj_pt = dict(pts[0])
        cur = model.State(**{s.name: float(traj_pt[s]) for s in sc.state})
        for step in range(3):
            control = model.Control(**{u.name: float(traj_pt[u]) for u in sc.control}) if k else None
            env = {kk: float(v) for kk, v in traj_pt.items()}
            env.update({s: float(cur.data[idx, 0]) for idx, s in enumerate(model.arglist_state)})
            wants = [float(sc.state_model[s].subs(env)) for s in model.arglist_state]
            nxt = model.model(float(traj_pt[sc.dt]), cur, control) if k else model.model(float(traj_pt[sc.dt]), cur)
            for idx, s in enumerate(model.arglist_state):
                if abs(float(nxt.data[idx, 0]) - wants[idx]) > 1e-7 * max(1.0, abs(wants[idx])):
                    problems.append(f"compiled model (cse={cse}) fed its own previous output: returns {float(nxt.data[idx, 0])} for state {s.name} at step {step}, its update expression evaluates to {wants[idx]}")
                    break
            kept.append((f"trajectory step {step}", nxt, wants))
            cur = nxt
        # inputs of another dtype: a State built with from_data from an INTEGER (and a float32) array is a finite input like any other
        import numpy as np

        ipt = {kk: (Fraction(round(float(v)) or 1) if kk in sc.state else v) for kk, v in pts[0].items()}
        for dtype in (np.int64, np.float32):
            data = np.zeros((n, 1), dtype=dtype)
            for idx, s in enumerate(model.arglist_state):
                data[idx, 0] = int(ipt[s])
            st = model.State.from_data(data)
            control = model.Control(**{u.name: float(ipt[u]) for u in sc.control}) if k else None
            out = model.model(float(ipt[sc.dt]), st, control) if k else model.model(float(ipt[sc.dt]), st)
            for idx, s in enumerate(model.arglist_state):
                want = float(scenarios.exact(sc.state_model[s], ipt)) if not transcendental else float(sc.state_model[s].subs({kk: float(v) for kk, v in ipt.items()}))
                got = float(out.data[idx, 0])
                if abs(got - want) > 1e-9 * max(1.0, abs(want)):
                    problems.append(f"compiled model (cse={cse}) given a State of dtype {np.dtype(dtype).name}: returns {got} for state {s.name}, its update expression evaluates to {want}")
                    break
        for call_no, out, wants in kept:
            for idx, s in enumerate(model.arglist_state):
                if abs(float(out.data[idx, 0]) - wants[idx]) > 1e-7 * max(1.0, abs(wants[idx])):
                    problems.append(f"the state returned by call {call_no} (cse={cse}) was changed by a LATER call: {s.name} now reads {float(out.data[idx, 0])}, it was returned as {wants[idx]}")
                    break
            else:
                continue
            break
    except Exception as e:
        problems.append(f"compiling/evaluating a valid model raised {type(e).__name__}: {(str(e).splitlines() or [''])[0]}")
    return problems, sc


def native_twin_models(seed=0):
    """Two models compiled in the SAME process from the same update expressions over the same symbols, but with one symbol declared
    as a control in the first and as a calibration value in the second (so the positional argument order of the compiled blocks
    differs): anything remembered across compilations and keyed without the argument ORDER hands the second model the first one's
    functions.  Each model is evaluated at its own inputs against the exact expressions.  Returns (problems, scenario)."""
    from replay import shim
    from replay.native import repo_import

    problems = []
    sc = scenarios.Scenario(3, 1, 2, [1], seed=seed + 9)
    py = shim.install()
    ui = repo_import("formak.ui")
    moved = sorted(sc.control, key=lambda q: q.name)[-1]  # moving the LAST control in front of the others changes the positional order
    pt = sc.point(seed)
    try:
        for cse in (True, False):
            # first: as declared;  second: `moved` is a calibration value;  third: the first declaration again
            variants = [(list(sc.control), list(sc.calibration)), ([u for u in sc.control if u is not moved], list(sc.calibration) + [moved]), (list(sc.control), list(sc.calibration))]
            for vi, (ctl, cal) in enumerate(variants):
                model_def = ui.Model(dt=sc.dt, state=set(sc.state), control=set(ctl), calibration=set(cal), state_model=dict(sc.state_model))
                cm = {cs: float(pt[cs]) for cs in cal}
                model = py.compile(model_def, calibration_map=cm, config={"common_subexpression_elimination": cse})
                state = model.State(**{s.name: float(pt[s]) for s in sc.state})
                control = model.Control(**{u.name: float(pt[u]) for u in ctl}) if ctl else None
                out = model.model(float(pt[sc.dt]), state, control) if ctl else model.model(float(pt[sc.dt]), state)
                for idx, s in enumerate(model.arglist_state):
                    want = float(scenarios.exact(sc.state_model[s], pt))
                    got = float(out.data[idx, 0])
                    if abs(got - want) > 1e-9 * max(1.0, abs(want)):
                        problems.append(f"model #{vi + 1} compiled in one process (cse={cse}; {moved.name} declared as {'calibration' if vi == 1 else 'control'}): returns {got} for state {s.name}, its update expression evaluates to {want}")
                        break
        # ONE definition object compiled twice with different calibration values; both compiled models stay alive and the FIRST is
        # evaluated after the second was compiled: each carries its own calibration
        for cse in (True, False):
            if not sc.calibration:
                break
            model_def = ui.Model(dt=sc.dt, state=set(sc.state), control=set(sc.control), calibration=set(sc.calibration), state_model=dict(sc.state_model))
            cals = [{cs: float(pt[cs]) for cs in sc.calibration}, {cs: float(pt[cs]) * -1.5 + 0.75 for cs in sc.calibration}]
            models = [py.compile(model_def, calibration_map=dict(cm), config={"common_subexpression_elimination": cse}) for cm in cals]
            for mi, (model, cm) in enumerate(zip(models, cals)):
                ptm = dict(pt)
                ptm.update({cs: Fraction(cm[cs]) for cs in sc.calibration})
                state = model.State(**{s.name: float(pt[s]) for s in sc.state})
                control = model.Control(**{u.name: float(pt[u]) for u in sc.control}) if sc.control else None
                out = model.model(float(pt[sc.dt]), state, control) if sc.control else model.model(float(pt[sc.dt]), state)
                for idx, s in enumerate(model.arglist_state):
                    want = float(scenarios.exact(sc.state_model[s], ptm))
                    got = float(out.data[idx, 0])
                    if abs(got - want) > 1e-9 * max(1.0, abs(want)):
                        problems.append(f"one definition compiled twice with different calibration values (cse={cse}): model #{mi + 1}, evaluated after both were compiled, returns {got} for state {s.name}; with ITS calibration {cm} the update expression evaluates to {want}")
                        break
    except Exception as e:
        problems.append(f"compiling/evaluating a valid model raised {type(e).__name__}: {(str(e).splitlines() or [''])[0]}")
    return problems, sc


def native_fn(shape, seed, container="set"):
    for cse in (True, False):
        problems, sc = native_model(shape, seed, container, cse)
        if problems:
            return problems, sc
    return [], sc


def native_branchy(run, pid="C01"):
    """Bounded: a program with principal-branch / sign sensitive sub-expressions, CSE on and off, evaluated at points outside the
    principal range - unsound rewriting anywhere in the compile pipeline shows up as a value difference."""
    fails = 0
    for cse in (True, False):
        run.native_runs += 1
        problems, sc = native_model((2, 1, 1), run.seed, "set", cse, branchy=True)
        if problems:
            fails += 1
            run.findings.append(Finding(f"{pid}.py.native_branch_sensitive_program", "branchy", problems[0], {"language": "python", "inputs": {"shape": [2, 1, 1], "seed": run.seed, "cse": cse, "branchy": True}, "model_definition": sc.describe(), "oracle_verdict": problems[:4]}, True))
            break
    run.bounded.append({"what": "real compiled model of a program with asin(sin u), atan(tan u), sqrt(u^2), acos(cos u) terms vs direct evaluation, CSE on and off, inputs beyond the principal range", "bound": "1 program x 2 CSE settings x 2 points", "failures": fails, "counted_as_proved": False})
    # symbols spelled like CSE temporaries (_t0, _t1, ... / x0, x1, ...), one of them a declared control that no expression mentions (an
    # argument of the block that is absent from its expressions): a valid definition, must compile and evaluate by name
    tf = 0
    for style, assume in (("_t", False), ("x", False), ("_t", True)):
        for cse in (True, False):
            run.native_runs += 1
            problems, sc = native_model((4, 1, 2), run.seed, "set", cse, rename=style, rename_assumptions=assume)
            if problems:
                tf += 1
                run.findings.append(Finding(f"{pid}.py.native_temporary_like_names", "names", f"symbols named {style}0, {style}1, ...{' declared real' if assume else ''}: {problems[0]}", {"language": "python", "inputs": {"shape": [4, 1, 2], "seed": run.seed, "cse": cse, "rename": style, "rename_assumptions": assume}, "model_definition": sc.describe(), "oracle_verdict": problems[:4]}, True))
                break
        if tf:
            break
    run.bounded.append({"what": "real compiled model whose symbols are spelled like CSE temporaries (_t<i>, x<i>), CSE on and off", "bound": "3 spellings (_t<i>, x<i>, _t<i> declared real) x 2 CSE settings x 8 calls", "failures": tf, "counted_as_proved": False})
    pf = 0
    for cse in (True, False):
        run.native_runs += 1
        problems, sc = native_model((5, 1, 2), run.seed, "set", cse, passthrough=True)
        if problems:
            pf += 1
            run.findings.append(Finding(f"{pid}.py.native_passthrough_program", "passthrough", problems[0], {"language": "python", "inputs": {"shape": [5, 1, 2], "seed": run.seed, "cse": cse, "passthrough": True}, "model_definition": sc.describe(), "oracle_verdict": problems[:4]}, True))
            break
    run.native_runs += 1
    tw, tsc = native_twin_models(run.seed)
    run.bounded.append({"what": "three models compiled in one process from the same expressions over the same symbols, one symbol moved between control and calibration (different positional argument order), each evaluated against the exact expressions", "bound": "3 models x 2 CSE settings", "failures": len(tw), "counted_as_proved": False})
    for p in tw[:1]:
        run.findings.append(Finding(f"{pid}.py.native_twin_models", "twin", p, {"language": "python", "inputs": {"twin_models": True, "seed": run.seed, "shape": [3, 1, 2]}, "model_definition": tsc.describe(), "oracle_verdict": tw[:4]}, True))
    # ui.Model(proactive_simplify=True): the definition is simplified per state BEFORE compilation; the oracle is the user's own dict
    sf = 0
    for cse in (True, False):
        run.native_runs += 1
        problems, sc = native_model((4, 1, 2), run.seed, "set", cse, proactive_simplify=True)
        if problems:
            sf += 1
            run.findings.append(Finding(f"{pid}.py.native_proactive_simplify", "proactive_simplify", f"ui.Model(proactive_simplify=True): {problems[0]}", {"language": "python", "inputs": {"shape": [4, 1, 2], "seed": run.seed, "cse": cse, "proactive_simplify": True}, "model_definition": sc.describe(), "oracle_verdict": problems[:4]}, True))
            break
    run.bounded.append({"what": "real compiled model of a definition built with ui.Model(proactive_simplify=True) (update expressions given in shuffled order) vs the user's own expressions", "bound": "1 program x 2 CSE settings x 8 calls", "failures": sf, "counted_as_proved": False})
    run.bounded.append({"what": "real compiled model of a program in which several statements only forward an input (identity-updated states, a state set to a control / calibration value)", "bound": "1 program x 2 CSE settings x 5 calls", "failures": pf, "counted_as_proved": False})
    if pid == "C01":
        # physically tiny constants (6.7e-11 ... 1.4e-23), each output compared relative to its OWN magnitude (C08 runs the same native)
        from checks import C08

        run.native_runs += 1
        tp, tsc2 = C08.native_tiny_constant(run.seed)
        run.bounded.append({"what": "filter of a model whose constants are physically tiny (6.674e-11, 3.3e-12, 1.6e-19, 1.4e-23): state update and Jacobians, CSE on and off, each entry relative to its own magnitude", "bound": "1 model x 2 CSE settings", "failures": len(tp), "counted_as_proved": False})
        for p in tp[:1]:
            run.findings.append(Finding("C01.py.native_tiny_constant", "tiny-constant", f"model with constants 6.674e-11 ... 1.38e-23: {p}", {"language": "python", "inputs": {"tiny_constant": True, "seed": run.seed}, "model_definition": tsc2.describe(), "oracle_verdict": tp[:4]}, True))


def dependency_checks(run, n_programs):
    """Per-program discharge of D-cse / D-simp: back-substitute the REAL cse+simplify output and prove equality for all reals."""
    import sympy
    from itertools import count

    rng = random.Random(run.seed)
    proved = undecided = refuted = 0
    for t in range(n_programs):
        shape = (rng.randint(1, 4), rng.randint(0, 2), rng.randint(0, 2))
        sc = scenarios.Scenario(*shape, [1], seed=run.seed + 17 * t, transcendental=(t % 3 == 2))
        exprs = [sc.state_model[s] for s in sorted(sc.state, key=lambda s: s.name)]
        # nested shared sub-expressions
        if len(exprs) >= 2:
            shared = (exprs[0] + 1) ** 2
            exprs = [e + shared * (i + 1) + sympy.sqrt(shared + 3) * 0 for i, e in enumerate(exprs)]
        repl, red = sympy.cse(exprs, symbols=(sympy.Symbol(f"_t{i}") for i in count()))
        sub = {}
        for tmp, rhs in repl:
            sub[tmp] = sympy.simplify(rhs).xreplace(sub)
        for j, (orig, r) in enumerate(zip(exprs, red)):
            back = sympy.simplify(r).xreplace(sub)
            T = Translator()
            try:
                a, b = T.tr(orig), T.tr(back)
            except ValueError:
                undecided += 1
                continue
            ob = run.prove(f"C01.dep.cse_simplify_backsubstitution.program{t}.expr{j}", list(T.side_conditions), a == b, function="sympy.cse + sympy.simplify (dependency contract, per program)", timeout_ms=6000, ring_first=True)
            if ob.result.status == "unsat":
                proved += 1
            elif ob.result.status == "sat":
                # decide natively in exact arithmetic
                pt = sc.point(t)
                va, vb = scenarios.exact(orig, pt), scenarios.exact(back, pt)
                if va != vb and not T.used_uf:
                    refuted += 1
                    run.findings.append(Finding(ob.name, "D-cse", f"sympy cse/simplify changed the value of {orig} at {pt}: {va} vs {vb}", {"program": sc.describe()}, True))
                else:
                    undecided += 1
                    ob.result.status = "unknown"
            else:
                undecided += 1
    run.bounded.append({"what": "D-cse/D-simp per program: real sympy.cse + simplify output back-substituted and proved equal to the original for all real inputs (z3 / ring normaliser; elementary functions uninterpreted)", "bound": f"{n_programs} seeded programs (1-4 states, 0-2 calibrations/controls, nested shared sub-expressions, every third with sin)", "proved": proved, "undecided": undecided, "refuted": refuted, "counted_as_proved": False})


def check(run):
    cs = pyekf.filter_callees()
    items = [(pyblock.ModelInit("set"), pyblock.model_init_callees()), (pyblock.ModelInit("list"), pyblock.model_init_callees())]
    items += [(c, pyblock.compile_callees("formak.python")) for c in (pyblock.Compile(True), pyblock.Compile(False), pyblock.Execute(True), pyblock.Execute(False))]
    items += [(pyekf.ModelModel(False), cs), (pyekf.ModelModel(True), cs)]
    for (c, _), rep in zip(items, run.verify_many(items)):
        triage_generic(run, rep, native_fn, c.key.split(".")[-1])
    dependency_checks(run, 12 if run.tier == "quick" else 60)
    native_branchy(run, "C01")
    # the dependency obligations are bounded over programs: keep them out of the proof count when undecided
    shapes = [(3, 2, 2), (2, 0, 1), (4, 1, 0), (1, 3, 3)] if run.tier == "thorough" else [(3, 2, 2)]
    fails = 0
    for shp in shapes:
        for cont in ("set", "list"):
            for cse in (True, False):
                for tr in (False, True) if run.tier == "thorough" else (False,):
                    run.native_runs += 1
                    problems, sc = native_model(shp, run.seed, cont, cse, tr)
                    if problems:
                        fails += 1
                        run.findings.append(Finding("C01.py.native_sweep", f"cse={cse}", f"shape n,c,k={shp}: {problems[0]}", {"language": "python", "inputs": {"shape": list(shp) + [1], "seed": run.seed, "container": cont, "cse": cse}, "model_definition": sc.describe(), "oracle_verdict": problems[:4]}, True))
    run.bounded.append({"what": "D-lam + end-to-end: real python.compile(...).model(...) vs exact sympy evaluation by name; set and list containers; calibration map in reverse order; CSE on/off", "bound": f"{len(shapes)} shapes x 2 containers x 2 CSE settings x 2 points", "failures": fails, "counted_as_proved": False})


def replay_file(payload):
    inp = payload["inputs"]
    if inp.get("tiny_constant"):
        from checks import C08

        return C08.replay_file(payload)
    if inp.get("twin_models"):
        tw, _ = native_twin_models(inp.get("seed", 0))
        print("replay C01 (twin models in one process):", tw[:3] or "every model computes its own expressions")
        return not tw
    problems = []
    for cse in ([inp["cse"]] if "cse" in inp else [True, False]):
        p, sc = native_model(tuple(inp["shape"][:3]), inp.get("seed", 0), inp.get("container", "set"), cse, branchy=inp.get("branchy", False), passthrough=inp.get("passthrough", False), rename=inp.get("rename"), proactive_simplify=inp.get("proactive_simplify", False), rename_assumptions=inp.get("rename_assumptions", False))
        problems += p
    print("replay C01:", problems[:3] or "compiled model equals the symbolic update expressions")
    return not problems
