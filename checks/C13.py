"""C13 - values are bound by name, never by position or spelling."""
from __future__ import annotations

import random

import z3

from contracts import common, pyekf
from pvc import driver, smt
from pvc.driver import Finding
from pvc.symtheory import Str
from replay import native, scenarios

PROPERTY = "C13"
EXPLANATION = (
    "The keyword constructors of named vectors / covariances (closures inside common.named_vector / named_covariance), from_data, "
    "from_dict and ExtendedKalmanFilter.make_reading are symbolically executed for an argument list of symbolic length and a symbolic "
    "keyword dict: the unknown-keyword loop becomes 'raises iff some keyword is not a name' (early-exit rule), the store loop a "
    "closed-form cell function (map rule), so 'each value lands in the slot of its own name, everything else is the default' is proved for "
    "all sizes. The renaming/ordering clause is a lemma over those contracts: every layout statement is by name, hence invariant "
    "under any injective renaming (two symbolic layouts related by a renaming), and the model/filter outputs are by-name statements "
    "of C01/C03/C04/C05. C++ half, for all programs: the generator's layout fragments (Options structs, accessor pairs, Options constructors; "
    "ast_fragments.py) are executed with symbolic layouts and proved to put options.<name> into the slot <name>() reads (contracts/cppfragments.py); how the "
    "nodes are printed is validated per program by C02."
)
ASSUMPTIONS = [
    "D-np: np.zeros / np.eye / cell stores (numpy model)",
    "str(symbol) is the symbol's name (sympy); str injective on the keys of a mapping passed to from_dict (requires)",
    "A-PY: dict iteration visits every key exactly once",
    "named outputs of model / filter operations are covered by C01, C03, C04, C05 (by-name postconditions); C++ side by C02",
]
TRUSTED_BASE = ["pvc (own VC generator: /verif/pvc)", "z3 5.1 (quantified dict axioms, E-matching)", "python ast module"]


def renaming_lemma(run):
    """Two layouts of the same named values: L1 (names nm1) and L2 (names nm2 = rho o nm1 for an injective rho,
    any permutation of positions).  With both vectors satisfying the proved slot_by_name clause, a value read back
    through the name of a symbol is the same in both."""
    n = z3.Int("n")
    nm1 = z3.Function("nm1", z3.IntSort(), Str)  # name at slot i of layout 1
    nm2 = z3.Function("nm2", z3.IntSort(), Str)
    rho = z3.Function("rho", Str, Str)
    perm = z3.Function("perm", z3.IntSort(), z3.IntSort())  # slot of the same symbol in layout 2
    has1 = z3.Function("has1", Str, z3.BoolSort())
    get1 = z3.Function("get1", Str, z3.RealSort())
    has2 = z3.Function("has2", Str, z3.BoolSort())
    get2 = z3.Function("get2", Str, z3.RealSort())
    d1 = z3.Function("data1", z3.IntSort(), z3.RealSort())
    d2 = z3.Function("data2", z3.IntSort(), z3.RealSort())
    i = z3.Int("i")
    s = z3.Const("s", Str)
    p = z3.Int("p")
    hyps = [
        n >= 0,
        z3.ForAll([i], z3.Implies(z3.And(i >= 0, i < n), z3.And(perm(i) >= 0, perm(i) < n, nm2(perm(i)) == rho(nm1(i))))),
        z3.ForAll([s], z3.And(has2(rho(s)) == has1(s), get2(rho(s)) == get1(s))),  # same named values, renamed
        # the proved constructor clause, for both layouts
        z3.ForAll([i], z3.Implies(z3.And(i >= 0, i < n), d1(i) == z3.If(has1(nm1(i)), get1(nm1(i)), 0))),
        z3.ForAll([i], z3.Implies(z3.And(i >= 0, i < n), d2(i) == z3.If(has2(nm2(i)), get2(nm2(i)), 0))),
        p >= 0,
        p < n,
    ]
    run.prove("C13.lemma.renaming_invariance", hyps, d1(p) == d2(perm(p)), function="lemma over C13.py.named_vector.__init__ clauses")


def native_checks(run, n_cases):
    import numpy as np

    common_mod = native.repo_import("formak.common")
    rng = random.Random(run.seed)
    fails = []
    for case in range(n_cases):
        k = rng.randint(0, 6)
        names = rng.sample(["zeta", "alpha", "Beta", "x9", "x10", "mass", "b", "a_1", "Z", "_k", "velocity"], k)
        for which in ("vector", "covariance"):
            cls = (common_mod.named_vector if which == "vector" else common_mod.named_covariance)("T", list(names))
            # named values include exact zeros, negative zeros and values equal to the defaults (0 for vectors, 1 on a covariance diagonal)
            given = {nm: rng.choice([float(rng.randint(-9, 9)) + 0.5, 0.0, -0.0, 1.0, float(rng.randint(-3, 3))]) for nm in names if rng.random() < 0.6}
            run.native_runs += 1
            obj = cls(**given)
            for idx, nm in enumerate(names):
                cell = obj.data[idx, 0] if which == "vector" else obj.data[idx, idx]
                want = given.get(nm, 0.0 if which == "vector" else 1.0)
                if cell != want:
                    fails.append(f"{which} {names}: value for {nm!r} is {cell}, expected {want}")
            # constructions must not share state: a second and third object of the same class, then the first one again
            snap = obj.data.copy()
            obj2 = cls()
            other = {nm: float(rng.randint(2, 9)) for nm in names if rng.random() < 0.5}
            obj3 = cls(**other)
            for idx, nm in enumerate(names):
                d2 = obj2.data[idx, 0] if which == "vector" else obj2.data[idx, idx]
                d3 = obj3.data[idx, 0] if which == "vector" else obj3.data[idx, idx]
                dflt = 0.0 if which == "vector" else 1.0
                if d2 != dflt:
                    fails.append(f"{which} {names}: a default-constructed object created after {given} has {nm!r} = {d2}, expected the default {dflt}")
                if d3 != other.get(nm, dflt):
                    fails.append(f"{which} {names}: an object created from {other} after {given} has {nm!r} = {d3}, expected {other.get(nm, dflt)}")
            if not np.array_equal(obj.data, snap):
                fails.append(f"{which} {names}: constructing further objects changed an existing one")
            exp_shape = (k, 1) if which == "vector" else (k, k)
            if obj.data.shape != exp_shape:
                fails.append(f"{which} shape {obj.data.shape} != {exp_shape}")
            if which == "covariance" and k:
                off = obj.data - np.diag(np.diag(obj.data))
                if np.any(off != 0):
                    fails.append(f"covariance {names}: off-diagonal entries set")
            try:
                cls(**{"not_a_name": 1.0})
                fails.append(f"{which} {names}: unknown keyword accepted")
            except TypeError:
                pass
            # unknown names that are PARTS of known ones or of their listing (a name is known only if it equals one of the names)
            parts = set()
            for nm in names:
                parts |= {nm[:-1], nm[1:], nm[: max(1, len(nm) // 2)], nm + ",", nm.upper() if nm.upper() != nm else nm.lower()}
            parts |= {", ".join(names), ", ", ",", " ", "", str(list(names))}
            for bad in sorted(p for p in parts if p not in names):
                try:
                    cls(**{bad: 1.0})
                    fails.append(f"{which} {names}: the unknown name {bad!r} (a part of a known name or of their listing) was accepted")
                    break
                except TypeError:
                    pass
            # an unknown name TOGETHER with known ones (before / after / between them) is refused just the same
            for pos in range(min(k, 2) + 1):
                items = [(nm, 2.0) for nm in names[:2]]
                items.insert(pos, ("not_a_name", 1.0))
                if len(items) < 2:
                    continue
                try:
                    cls(**dict(items))
                    fails.append(f"{which} {names}: the unknown name 'not_a_name' was accepted next to known names ({[a for a, _ in items]})")
                except TypeError:
                    pass
            try:
                cls.from_data(np.zeros((k + 1, 1)))
                fails.append(f"{which} {names}: wrong shape accepted by from_data")
            except ValueError:
                pass
            arr = np.ones(exp_shape)
            if cls.from_data(arr).data is not arr:
                fails.append(f"{which}: from_data does not hold the given array")
    for f in fails[:3]:
        run.findings.append(Finding("C13.py.native_sweep", f.split(":")[0][:40], f, {"language": "python", "oracle_verdict": f, "inputs": {"seed": run.seed}}, True))
    run.bounded.append({"what": "native construction of named vectors/covariances with random names and keyword subsets; unknown name; wrong shape", "bound": f"{n_cases} random argument lists of 0-6 names x 2 kinds", "failures": len(fails), "counted_as_proved": False})


def native_foreign_values(run):
    """Values bound to OTHER names of the same size: a reading made for sensor A handed to sensor B's update (both with two
    readings), a State / Covariance / Control of another model with equally many symbols handed to this filter.  Names decide where a
    value goes; such an object must be refused, never consumed by position."""
    import numpy as np
    import sympy

    from replay import shim
    from replay.native import repo_import

    py = shim.install()
    ui = repo_import("formak.ui")
    dt, pos, vel, acc = sympy.symbols("dt pos vel acc")
    model = ui.Model(dt=dt, state={pos, vel}, control={acc}, state_model={pos: pos + dt * vel, vel: vel + dt * acc})
    ekf = py.compile_ekf(model, {acc: 1.0}, {"gps": {"p": pos, "p_rate": vel}, "wheel": {"speed": vel, "travel": 2 * pos}}, {"gps": {"p": 1.0, "p_rate": 1.0}, "wheel": {"speed": 0.5, "travel": 0.5}}, config={"innovation_filtering": None})
    east, north, thr = sympy.symbols("east north throttle")
    other = ui.Model(dt=dt, state={east, north}, control={thr}, state_model={east: east + dt * north, north: north + dt * thr})
    ekf2 = py.compile_ekf(other, {thr: 1.0}, {"fix": {"e": east, "n": north}}, {"fix": {"e": 1.0, "n": 1.0}}, config={"innovation_filtering": None})
    state, cov, ctl = ekf.State(pos=1.0, vel=2.0), ekf.Covariance(), ekf.Control(acc=0.5)
    problems = []

    import contextlib
    import io

    def refused(what, fn):
        run.native_runs += 1
        try:
            with contextlib.redirect_stdout(io.StringIO()):  # (the library prints the argument types of a refused call)
                out = fn()
        except Exception:
            return
        problems.append(f"{what} was accepted (result {np.asarray(getattr(out, 'state', out[0] if isinstance(out, tuple) else out).data).flatten().tolist() if hasattr(getattr(out, 'state', None), 'data') else '...'}): its values were consumed by position under names they were not given for")

    gps_reading = ekf.make_reading("gps", p=3.0, p_rate=4.0)
    refused("a reading made for sensor gps (p, p_rate) handed to the update of sensor wheel (speed, travel)", lambda: ekf.sensor_model(state, cov, sensor_key="wheel", sensor_reading=gps_reading))
    refused("a reading made for the other filter's sensor fix (e, n) handed to the update of sensor gps (p, p_rate)", lambda: ekf.sensor_model(state, cov, sensor_key="gps", sensor_reading=ekf2.make_reading("fix", e=3.0, n=4.0)))
    refused("a State of another model (east, north) handed to process_model of the (pos, vel) filter", lambda: ekf.process_model(0.1, ekf2.State(east=1.0, north=2.0), cov, ctl))
    refused("a Covariance of another model (east, north) handed to process_model of the (pos, vel) filter", lambda: ekf.process_model(0.1, state, ekf2.Covariance(), ctl))
    refused("a State of another model (east, north) handed to sensor_model of the (pos, vel) filter", lambda: ekf.sensor_model(ekf2.State(east=1.0, north=2.0), cov, sensor_key="gps", sensor_reading=gps_reading))
    # the matching objects are of course accepted
    try:
        ekf.sensor_model(state, cov, sensor_key="gps", sensor_reading=gps_reading)
        ekf.process_model(0.1, state, cov, ctl)
    except Exception as e:
        problems.append(f"the filter's own State / Covariance / Control / reading were refused: {type(e).__name__}: {e}")
    run.bounded.append({"what": "values bound to other names of the same size (a reading of another two-reading sensor, State / Covariance of another two-state model) handed to the filter: refused, never consumed by position", "bound": "5 foreign objects + the matching ones", "failures": len(problems), "counted_as_proved": False})
    for p in problems[:2]:
        run.findings.append(Finding("C13.py.native_foreign_values", "foreign", p, {"language": "python", "inputs": {"foreign_values": True, "seed": run.seed}, "oracle_verdict": problems[:4]}, True))
    return problems


def native_renaming(run, n_models, only_styles=None):
    """Metamorphic: rename a model's symbols (permuting the layout) and compare every named output of the real filter."""
    import sympy

    fails = 0
    for t in range(n_models):
        if only_styles is not None and t % 3 not in only_styles:
            continue
        sc = scenarios.Scenario(3, 1, 2, [2], seed=run.seed + t)
        py, ekf = scenarios.build_ekf(sc)
        pt = sc.point(t)
        rng = random.Random(run.seed + t)
        allsyms = sc.state + sc.calibration + sc.control
        # spellings: random mixed-case names; sympy's default cse temporaries (x0, x1, ...); the library's own temporaries (_t0, ...)
        style = t % 3
        if style == 0:
            new_names = [f"{rng.choice('qQzZaAmM')}{rng.randint(0, 99)}_{i}" for i in range(len(allsyms))]
        else:
            order = list(range(len(allsyms)))
            rng.shuffle(order)
            new_names = [f"{'x' if style == 1 else '_t'}{j}" for j in order]
        ren = {s: sympy.Symbol(nn) for s, nn in zip(allsyms, new_names)}
        sc2 = scenarios.Scenario(3, 1, 2, [2], seed=run.seed + t)
        sc2.state = [ren[s] for s in sc.state]
        sc2.calibration = [ren[s] for s in sc.calibration]
        sc2.control = [ren[s] for s in sc.control]
        sc2.state_model = {ren[k]: v.xreplace(ren) for k, v in sc.state_model.items()}
        sc2.sensor_models = {k: {r: e.xreplace(ren) for r, e in v.items()} for k, v in sc.sensor_models.items()}
        sc2.process_noise = {ren[k]: v for k, v in sc.process_noise.items()}
        sc2.calibration_map = {ren[k]: v for k, v in sc.calibration_map.items()}
        try:
            # every other twin is additionally built with ui.Model(proactive_simplify=True) (off by default): its update
            # expressions, given in shuffled order, are rewritten per state before compilation - the named outputs stay the same
            py2, ekf2 = scenarios.build_ekf(sc2, container="list", proactive_simplify=(t % 2 == 0))
        except Exception as e:
            fails += 1
            run.findings.append(Finding("C13.py.native_renaming", "list-container-refused", f"the renamed twin declared with lists instead of sets is refused: {type(e).__name__}: {e}", {"language": "python", "inputs": {"seed": run.seed + t, "container": "list"}, "model_definition": sc2.describe()}, True))
            continue
        pt2 = {ren.get(k, k): v for k, v in pt.items()}
        run.native_runs += 2
        s1, c1 = ekf.process_model(float(pt[sc.dt]), scenarios.named_state(ekf, sc, pt), ekf.Covariance(), scenarios.named_control(ekf, sc, pt))
        s2, c2 = ekf2.process_model(float(pt[sc.dt]), scenarios.named_state(ekf2, sc2, pt2), ekf2.Covariance(), scenarios.named_control(ekf2, sc2, pt2))
        idx1 = {s: i for i, s in enumerate(ekf.arglist_state)}
        idx2 = {s: i for i, s in enumerate(ekf2.arglist_state)}
        for a in sc.state:
            v1, v2 = s1.data[idx1[a], 0], s2.data[idx2[ren[a]], 0]
            if abs(v1 - v2) > 1e-9 * max(1, abs(v1)):
                fails += 1
                run.findings.append(Finding("C13.py.native_renaming", "process_model.state", f"renaming {a.name}->{ren[a].name} changes the predicted value of that state: {v1} vs {v2}", {"language": "python", "inputs": {"seed": run.seed + t}, "renaming": {k.name: v.name for k, v in ren.items()}}, True))
                break
            for b in sc.state:
                w1, w2 = c1.data[idx1[a], idx1[b]], c2.data[idx2[ren[a]], idx2[ren[b]]]
                if abs(w1 - w2) > 1e-7 * max(1, abs(w1)):
                    fails += 1
                    run.findings.append(Finding("C13.py.native_renaming", "process_model.covariance", f"renaming changes covariance[{a.name},{b.name}]: {w1} vs {w2}", {"language": "python", "inputs": {"seed": run.seed + t}, "renaming": {k.name: v.name for k, v in ren.items()}}, True))
                    break
        # sensor side: Jacobian columns by state name, and the posterior of an update with the same named readings
        try:
            st1, st2 = scenarios.named_state(ekf, sc, pt), scenarios.named_state(ekf2, sc2, pt2)
            for key, sm in sc.sensor_models.items():
                rn = sorted(sm)
                H1, H2 = ekf.sensor_jacobian(key, st1), ekf2.sensor_jacobian(key, st2)
                bad = None
                for ri in range(len(rn)):
                    for a in sc.state:
                        h1, h2 = H1[ri, idx1[a]], H2[ri, idx2[ren[a]]]
                        if abs(h1 - h2) > 1e-9 * max(1, abs(h1)):
                            bad = f"renaming changes d({rn[ri]})/d({a.name}) of sensor {key}: {h1} vs {h2} (as {ren[a].name})"
                            break
                    if bad:
                        break
                if not bad:
                    vals = {r: 0.5 + 0.25 * qi for qi, r in enumerate(rn)}
                    u1 = ekf.sensor_model(st1, ekf.Covariance(), sensor_key=key, sensor_reading=ekf.make_reading(key, **vals))
                    u2 = ekf2.sensor_model(st2, ekf2.Covariance(), sensor_key=key, sensor_reading=ekf2.make_reading(key, **vals))
                    for a in sc.state:
                        v1, v2 = u1[0].data[idx1[a], 0], u2[0].data[idx2[ren[a]], 0]
                        if abs(v1 - v2) > 1e-8 * max(1, abs(v1)):
                            bad = f"renaming {a.name}->{ren[a].name} changes the updated value of that state (sensor {key}): {v1} vs {v2}"
                            break
                        for b in sc.state:
                            w1, w2 = u1[1].data[idx1[a], idx1[b]], u2[1].data[idx2[ren[a]], idx2[ren[b]]]
                            if abs(w1 - w2) > 1e-8 * max(1, abs(w1)):
                                bad = f"renaming changes the updated covariance[{a.name},{b.name}] (sensor {key}): {w1} vs {w2}"
                                break
                        if bad:
                            break
                if bad:
                    fails += 1
                    run.findings.append(Finding("C13.py.native_renaming", "sensor_update", bad, {"language": "python", "inputs": {"seed": run.seed + t}, "renaming": {k.name: v.name for k, v in ren.items()}}, True))
                    break
        except Exception as e:
            fails += 1
            run.findings.append(Finding("C13.py.native_renaming", "sensor_update.raised", f"sensor side of the renamed twin raised {type(e).__name__}: {e}", {"language": "python", "inputs": {"seed": run.seed + t}, "renaming": {k.name: v.name for k, v in ren.items()}}, True))
    run.bounded.append({"what": "metamorphic native run: model and its consistently renamed twin (list containers, permuted layout) through the real filter's process_model, sensor_jacobian and sensor_model (same named readings), named outputs compared", "bound": f"{n_models} generic 3-state/1-calibration/2-control models", "failures": fails, "counted_as_proved": False})


def triage(run, rep):
    for ob, model, definitive in driver.refuted(run, rep):
        payload = {"language": "python", "function": rep.key, "solver_result": "sat" if definitive else "unknown (candidate model of the quantifier-free part)", "counter_model": smt.model_to_dict(model), "note": "replayed by the native construction sweep (same run)"}
        f = Finding(ob.name, rep.key.split(":")[-1], f"{ob.name} refuted: {smt.model_to_dict(model, 8)}", payload, False, theory="interp")
        f.definitive = definitive
        run.findings.append(f)


def cxx_fragments(run):
    """C++ half, for ALL programs: the named-layout fragments of the generator (contracts/cppfragments.py)."""
    from contracts import cppfragments

    items = [(c, {}) for c in cppfragments.contracts()]
    bad = []
    for (c, _), rep in zip(items, run.verify_many(items)):
        for ob, model, definitive in driver.refuted(run, rep):
            bad.append((rep, ob, model, definitive))
    if not bad:
        return
    # native confirmation: per-program layout validation of generated code (accessor reads the slot its own named option fills)
    from checks import cxx_generated

    confirm = None
    for t, (sc, shp) in enumerate(cxx_generated.corpus(run.seed, 2)):
        run.native_runs += 1
        try:
            probs, header, source = cxx_generated.validate_program(driver.PropertyRun("C13", "quick", run.seed), sc, f"layout{t}", prefix="C13")
        except Exception as e:
            probs = []
            run.notes.append(f"native layout validation failed to run: {e!r}")
        texts = [(x[1] if isinstance(x, tuple) else str(x)) for x in probs]
        lay = [p for p in texts if "layout" in p or "accessor" in p or "well_formed" in p]
        if lay:
            confirm = (lay[0], {"shape": list(shp), "seed": run.seed + 31 * t, "cse": True, "share_reading": True, "rational": t % 3 == 1, "transcendental": t % 4 == 3, "nonsmooth": t % 5 == 2})
            break
    for rep, ob, model, definitive in bad:
        if confirm is None and not definitive:
            run.undecided.append(ob.name)
            continue
        what = f"{ob.name} refuted ({getattr(ob, 'note', '') or 'generator fragment contract'})" + (f"; generated program: {confirm[0]}" if confirm else "")
        run.findings.append(Finding(ob.name, rep.key.split(":")[-1], what, {"language": "c++", "function": rep.key, "inputs": {"cxx_layout": confirm[1]} if confirm else None, "counter_model": smt.model_to_dict(model, 8) if model is not None else None}, bool(confirm), theory=ob.theory))


def check(run):
    for c in common.named_array_contracts() + [common.FromData("vector"), common.FromData("covariance")] + [common.FromDict(w, k) for w in ("vector", "covariance") for k in ("Str", "Sym")]:
        rep = run.verify(c, common.COMMON_APPLY)
        triage(run, rep)
    cs = pyekf.callees()
    for c in (pyekf.MakeReading("none"), pyekf.MakeReading("given")):
        rep = run.verify(c, cs)
        triage(run, rep)
    rep = run.verify(pyekf.SensorModelInit(), pyekf.sensor_init_callees())
    triage(run, rep)
    for c in (pyekf.ModelModel(False), pyekf.SensorModelModel()):
        rep = run.verify(c, pyekf.filter_callees())
        triage(run, rep)
    renaming_lemma(run)
    cxx_fragments(run)
    refuted = bool(run.findings)
    escalate = run.tier == "thorough" or refuted or run.undecided or any(r.status != "ok" for r in run.reports)
    if not escalate:
        native_checks(run, 6)  # a reduced construction sweep always runs
    if escalate:
        before = len(run.findings)
        native_checks(run, 60 if run.tier == "thorough" else 20)
        if len(run.findings) > before:
            # a native failure confirms the refuted clauses of this run
            for f in run.findings[:before]:
                f.confirmed = True
                f.payload["native_confirmation"] = run.findings[before].what
        # refutations about the filter-level by-name contracts: replay through the real filter (set and list containers)
        if any(not f.confirmed for f in run.findings):
            from replay import kalman

            for cont in ("set", "list"):
                for shp in ((3, 2, 2), (2, 3, 3)):
                    run.native_runs += 1
                    problems = kalman.native_update(shp, run.seed, container=cont)[0] or kalman.native_predict((shp[0], shp[1], 2), run.seed, container=cont)[0]
                    if problems:
                        for f in run.findings:
                            if not f.confirmed:
                                f.confirmed = True
                                f.what += f" -- native: model n,c,m={shp} declared in {cont}s: {problems[0]}"
                                f.payload["native_confirmation"] = problems[:4]
                                f.payload["inputs"] = {"shape": list(shp), "seed": run.seed, "container": cont}
                        break
                else:
                    continue
                break
        # candidate (non-definitive) refutations that did not reproduce natively are only undecided
        keep = []
        for f in run.findings:
            if getattr(f, "definitive", True) or f.confirmed:
                keep.append(f)
            else:
                run.undecided.append(f.obligation)
        run.findings[:] = keep
    # renaming runs: thorough 6 models (all three spelling styles twice); quick 2 (the two temporary-like spellings)
    if run.tier == "thorough":
        native_renaming(run, 6)
        native_foreign_values(run)
    else:
        native_renaming(run, 3, only_styles=(1, 2))
        native_foreign_values(run)


def replay_file(payload):
    inp = payload.get("inputs") or {}
    if inp.get("cxx_layout"):
        from checks import C02

        return C02.replay_file({"inputs": inp["cxx_layout"]})
    if inp.get("foreign_values"):
        run0 = driver.PropertyRun("C13", "quick", inp.get("seed", 0))
        p = native_foreign_values(run0)
        print("replay C13 (values bound to other names):", p[:2] or "refused")
        return not p
    if "shape" in inp and "container" in inp:
        from replay import kalman

        shp = tuple(inp["shape"])
        problems = kalman.native_update(shp, inp.get("seed", 0), container=inp["container"])[0] or kalman.native_predict((shp[0], shp[1], 2), inp.get("seed", 0), container=inp["container"])[0]
        print("replay C13 (filter level):", problems[:3] or "named outputs as specified")
        return not problems
    run = driver.PropertyRun("C13", "quick", payload.get("inputs", {}).get("seed", 0))
    native_checks(run, 20)
    for f in run.findings:
        print("replay:", f.what)
    print("replay C13:", "violations reproduced" if run.findings else "native construction sweep passes")
    return not run.findings
