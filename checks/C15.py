"""C15 - code generation is deterministic."""
from __future__ import annotations

import concurrent.futures as cf
import json
import os
import subprocess
import sys

import z3

from pvc import driver
from pvc.driver import Finding
from replay.native import REPO

PROPERTY = "C15"
HERE = os.path.dirname(os.path.abspath(__file__))
VERIF = os.path.dirname(HERE)
WORKER = os.path.join(VERIF, "replay", "determinism_worker.py")

EXPLANATION = (
    "Two parts. (1) Deductive: the constructors that fix the variable layout (python.Model.__init__, python.SensorModel.__init__, "
    "python.ExtendedKalmanFilter._construct_process/_construct_sensors, cpp.Model.__init__, cpp.ExtendedKalmanFilter.__init__) are symbolically "
    "executed with the declared containers as abstract finite sets whose iteration order is an uninterpreted permutation (the ORDER TOKEN: hash "
    "order of a set / declaration order of a list / insertion order of a dict); the postconditions pin every layout down as the name-sorted "
    "enumeration of the SET, and a syntactic non-interference scan shows that no order token occurs in any stored field or path condition - so the "
    "result is the same function of the definition for every hash seed, declaration order and container. (2) Bounded: the byte-identity of the "
    "generated header/source (which also depends on sympy's printer and cse, outside any contract here) is compared by sha256 across subprocesses "
    "with different PYTHONHASHSEED x permuted declaration/insertion orders x set/list containers, on definitions whose names include pairs that differ "
    "only in capitalisation; labelled bounded."
)
ASSUMPTIONS = [
    "symbol names pairwise distinct (premise); str order on names is a strict total order (ord embedding)",
    "D-sympy-det: sympy's printer (ccode), cse numbering and expression canonicalisation are deterministic functions of the expression - checked only by the bounded sweep",
    "the order-token scan is syntactic: a value that mentions an order token harmlessly is reported undecided, never as a violation",
]
TRUSTED_BASE = ["pvc (own VC generator: /verif/pvc)", "z3 5.1", "python ast module", "CPython subprocesses with PYTHONHASHSEED (bounded sweep)"]


def run_worker(args):
    shape, seed, container, order_seed, hashseed, cse, keep = args[:7]
    warmup = args[7] if len(args) > 7 else False
    env = dict(os.environ, PYTHONHASHSEED=str(hashseed), FORMAK_REPO=REPO)
    if keep:
        env["C15_KEEP_TEXT"] = "1"
    cmd = [sys.executable, WORKER, str(shape[0]), str(shape[1]), str(shape[2]), ",".join(str(x) for x in shape[3]), str(seed), container, str(order_seed), "1" if cse else "0", "1" if warmup else "0"]
    out = subprocess.run(cmd, capture_output=True, text=True, env=env, timeout=600)
    for ln in out.stdout.splitlines():
        if ln.startswith("C15DIGEST "):
            return args, json.loads(ln[len("C15DIGEST ") :]), None
    return args, None, (out.stderr or out.stdout)[-600:]


def first_difference(a, b):
    for k in sorted(set(a) | set(b)):
        if k == "python_layout":
            for kk in sorted(set(a[k]) | set(b[k])):
                if a[k].get(kk) != b[k].get(kk):
                    return f"python layout {kk}: {a[k].get(kk)} vs {b[k].get(kk)}"
        elif k in ("header", "source"):
            continue
        elif a.get(k) != b.get(k):
            return f"{k}: {a.get(k)[:16]}... vs {b.get(k)[:16]}..."
    return None


def variants(run, definition, n_hash, n_orders):
    shape, seed = definition
    out = []
    for h in range(n_hash):
        for o in range(n_orders):
            for container in ("set", "list"):
                # every other variant generates a differently shaped definition first (process-level state must not leak)
                out.append((shape, seed, container, 100 + o, 1 + 7 * h + run.seed % 5, True, False, (h + o + (container == "list")) % 2 == 1))
    return out


def launch(run, definitions, n_hash, n_orders, workers):
    """Start the subprocess sweep in the background (it overlaps with the contract verification); returns (executor, futures)."""
    jobs = []
    for d in definitions:
        jobs += variants(run, d, n_hash, n_orders)
    ex = cf.ThreadPoolExecutor(max_workers=max(1, min(workers, len(jobs))))
    return ex, [ex.submit(run_worker, j) for j in jobs]


def sweep(run, definitions, n_hash, n_orders, pending=()):
    """Compare the digests of all variants of each definition; `pending` are (executor, futures) pairs launched earlier."""
    res = []
    for ex, futs in list(pending) + ([launch(run, definitions, n_hash, n_orders, 14)] if definitions else []):
        res += [f.result() for f in futs]
        ex.shutdown()
    fails = 0
    by_def = {}
    for args, dig, err in res:
        run.native_runs += 1
        if dig is None:
            run.notes.append(f"worker {args[:5]} failed: {err}")
            run.errors.append(f"determinism worker failed for {args[:5]}: {err[-200:] if err else ''}")
            continue
        by_def.setdefault((tuple(args[0][:3]) + (tuple(args[0][3]),), args[1]), []).append((args, dig))
    for key, lst in by_def.items():
        ref_args, ref = lst[0]
        # generating twice in ONE process
        for args, dig in lst:
            again = [(w, t) for w in ("header", "source") for t in ("regenerated", "after_python_compile") if dig.get(f"{t}_{w}_sha256", dig[f"{w}_sha256"]) != dig[f"{w}_sha256"]]
            if again:
                fails += 1
                which = again[0][0] + (" (generated again after python.compile_ekf had compiled the same definition objects)" if again[0][1] == "after_python_compile" else "")
                ob = run.prove(f"C15.native.same_output_when_generated_twice_in_one_process[{fails}]", [], z3.BoolVal(False), function="generation in subprocesses (PYTHONHASHSEED x declaration order x container)")
                run.findings.append(Finding(ob.name, "regen", f"definition shape {[key[0][0], key[0][1], key[0][2], list(key[0][3])]} seed {key[1]}: the second generation in the same process (hashseed {args[4]}, order {args[3]}, {args[2]}) produced a different {which}", {"language": "python", "inputs": {"shape": [key[0][0], key[0][1], key[0][2], list(key[0][3])], "seed": key[1], "a": {"hashseed": args[4], "order_seed": args[3], "container": args[2], "warmup": args[7]}, "b": {"hashseed": args[4], "order_seed": args[3], "container": args[2], "warmup": args[7]}, "regenerate": True}, "oracle_verdict": [f"{which} differs on regeneration"]}, True))
                break
        for args, dig in lst[1:]:
            diff = first_difference(ref, dig)
            if diff:
                fails += 1
                ob = run.prove(f"C15.native.same_output_for_every_seed_order_container[{fails}]", [], z3.BoolVal(False), function="generation in subprocesses (PYTHONHASHSEED x declaration order x container)")
                a, b = ref_args, args
                run.findings.append(Finding(ob.name, "sweep", f"definition shape {[key[0][0], key[0][1], key[0][2], list(key[0][3])]} seed {key[1]}: (hashseed {a[4]}, order {a[3]}, {a[2]}{', after generating another definition' if a[7] else ''}) and (hashseed {b[4]}, order {b[3]}, {b[2]}{', after generating another definition' if b[7] else ''}) differ in {diff}", {"language": "python", "inputs": {"shape": [key[0][0], key[0][1], key[0][2], list(key[0][3])], "seed": key[1], "a": {"hashseed": a[4], "order_seed": a[3], "container": a[2], "warmup": a[7]}, "b": {"hashseed": b[4], "order_seed": b[3], "container": b[2], "warmup": b[7]}}, "oracle_verdict": [diff]}, True))
                break
    n_defs = len(by_def)
    run.bounded.append({"what": "sha256 of generated EKF header/source and plain-model header/source, and the python layout (arglists, named-vector layouts, noise matrices, calibration vector), compared across subprocesses", "bound": f"{n_defs} definitions x {n_hash} PYTHONHASHSEED values x {n_orders} declaration/insertion orders x {{set, list}} (names include pairs differing only in capitalisation)", "failures": fails, "counted_as_proved": False})
    ob = run.prove("C15.native.sweep_completed", [], z3.BoolVal(True), function="generation in subprocesses (PYTHONHASHSEED x declaration order x container)")
    return fails


def check(run):
    from checks import determinism_contracts

    run.level = "other"  # layouts: proved; emitted text: bounded sweep (see EXPLANATION)

    thorough = run.tier == "thorough"
    n_hash, n_orders = (6, 3) if thorough else (3, 2)
    base = [((3, 1, 2, [2, 2]), run.seed), ((2, 2, 0, [3, 1]), run.seed + 1)]
    early = launch(run, base, n_hash, n_orders, 6)  # runs while the contracts are verified
    determinism_contracts.check(run)
    escalate = thorough or run.findings or run.undecided or any(r.status != "ok" for r in run.reports)
    extra = [((4, 0, 1, [2]), run.seed + 2), ((3, 2, 2, [1, 2]), run.seed + 3), ((2, 0, 0, []), run.seed + 4), ((4, 1, 3, [1, 1, 1]), run.seed + 5)] if escalate else []
    sweep(run, extra, n_hash, n_orders, pending=[early])


def replay_file(payload):
    inp = payload.get("inputs") or {}
    if "a" not in inp:
        print("replay C15: no concrete pair (symbolic obligation)")
        return True
    shape = (inp["shape"][0], inp["shape"][1], inp["shape"][2], inp["shape"][3])
    res = []
    for side in ("a", "b"):
        v = inp[side]
        res.append(run_worker((shape, inp["seed"], v["container"], v["order_seed"], v["hashseed"], True, True, v.get("warmup", False))))
    (a_args, a, ea), (b_args, b, eb) = res
    if a is None or b is None:
        print("replay C15: worker failed", ea or eb)
        return True
    if inp.get("regenerate"):
        same = a["regenerated_header_sha256"] == a["header_sha256"] and a["regenerated_source_sha256"] == a["source_sha256"]
        print("replay C15: second generation in one process", "identical" if same else "DIFFERS")
        return same
    d = first_difference(a, b)
    if d and a.get("header") != b.get("header"):
        la, lb = a["header"].splitlines(), b["header"].splitlines()
        for i, (x, y) in enumerate(zip(la, lb)):
            if x != y:
                print(f"first differing header line {i + 1}:\n  {x}\n  {y}")
                break
    print("replay C15:", d or "identical output")
    return not d
