"""C06, C++ half: the helper in cpp/include/formak/innovation_filtering.h and the guard in the rendered sensor_model template."""
from checks.cxx_filter import check_c06  # noqa: F401
