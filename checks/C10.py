"""C10 - managed filter moves through time in bounded, correctly directed steps."""
from __future__ import annotations

import itertools
import math
import random

import z3

from contracts import rt
from pvc import driver, smt
from pvc.driver import Finding
from replay import native

PROPERTY = "C10"
EXPLANATION = (
    "ManagedFilter._process_model (py/formak/runtime.py) and both ManagedFilter::processUpdate overloads "
    "(cpp/runtime/include/formak/runtime/ManagedFilter.h, via clang's JSON AST lowered to the same interpreter) are "
    "symbolically executed from the current source for symbolic current time, target time and max_dt_sec > 0 with an opaque "
    "wrapped filter; a ghost monitor on the wrapped filter's process_model calls carries count, sum and the per-step "
    "direction/bound predicate through the loop by an inductive invariant (any iteration count)."
)
ASSUMPTIONS = [
    "A-REAL: python float / C++ double arithmetic treated as exact real arithmetic (1e-9 tolerance exceeds the spacing of representable times: 'moderate magnitude' premise of the property)",
    "floor axiomatised by n <= x < n+1 at each use",
    "wrapped filter's process_model is a pure function of its arguments (opaque PM); config.max_dt_sec > 0 (requires)",
    "A-PY: attribute lookups resolve statically; no monkey-patching of ManagedFilter",
]
TRUSTED_BASE = ["pvc (own VC generator: /verif/pvc)", "z3 5.1 (cvc5 1.0 / z3 4.8 fallbacks)", "python ast module", "clang 14 JSON AST dump (C++ side)"]


def stepping_ok(t0, t1, mx, steps):
    """The property's own oracle on a concrete list of step lengths."""
    d = t1 - t0
    if d == 0:
        return len(steps) == 0, "no step when times coincide"
    for s in steps:
        if (d > 0 and not s > 0) or (d < 0 and not s < 0):
            return False, f"step {s!r} does not point from {t0!r} to {t1!r}"
        # "longer" is judged up to the spacing of the representable times involved: at t ~ 5000 the times themselves are only
        # known to 9e-13 s, and a remainder computed from them can exceed max_dt by a fraction of that although the exact one does not
        if abs(s) > mx * (1 + 1e-12) + 2 * max(math.ulp(t0), math.ulp(t1)):
            return False, f"step {s!r} longer than the configured maximum {mx!r}"
    if not abs(math.fsum(steps) - d) < 1e-9:
        return False, f"steps sum to {math.fsum(steps)!r}, expected {d!r}"
    return True, "ok"


def native_python(t0, t1, mx):
    runtime = native.repo_import("formak.runtime")
    impl = native.RecordingImpl(mx, control_size=1)
    mf = runtime.ManagedFilter(impl, t0, (), ())
    before = (mf.current_time, mf.state, mf.covariance)
    try:
        out = mf._process_model(t1, "u")
    except (TypeError, AttributeError):
        # the private helper was refactored: observe the same move through the public API (a reading-less tick moves to the
        # output time and reports without storing)
        impl.calls.clear()
        mf.tick(t1, control="u")
        out = (t1, None)
    steps = [c[1] for c in impl.calls]
    ok, why = stepping_ok(t0, t1, mx, steps)
    if ok and out[0] != t1:
        ok, why = False, f"returned time {out[0]!r} != {t1!r}"
    if ok and (mf.current_time, mf.state, mf.covariance) != before:
        ok, why = False, "held time/state/covariance modified by _process_model"
    return ok, why, steps


def nice_witness(ob):
    """Re-solve the refuted obligation preferring small, human-sized values."""
    t0, t1, mx = z3.Real("t0"), z3.Real("t1"), z3.Real("max_dt_sec")
    for extra in (
        [mx >= z3.RealVal("1/100"), mx <= 1, t0 >= -4, t0 <= 4, t1 >= -4, t1 <= 4],
        [mx >= z3.RealVal("1/1000"), t0 >= -100, t0 <= 100, t1 >= -100, t1 <= 100],
    ):
        r = smt.prove(ob.hyps + extra, ob.goal, timeout_ms=5000)
        if r.status == "sat" and r.model is not None:
            return r.model
    return ob.result.model or getattr(ob.result, "candidate_model", None)


def triage_python(run, rep):
    for ob, model0, definitive in driver.refuted(run, rep):
        model = nice_witness(ob) or model0
        vals = driver.model_values(model, ["t0", "t1", "max_dt_sec"])
        t0, t1, mx = vals.get("t0"), vals.get("t1"), vals.get("max_dt_sec")
        payload = {"language": "python", "function": rep.key, "solver": ob.result.backend, "solver_result": "sat", "counter_model": smt.model_to_dict(model), "inputs": vals}
        confirmed = False
        sig = "unknown-direction"
        what = f"{ob.name} refuted"
        if None not in (t0, t1, mx) and mx > 0 and abs(t1 - t0) / mx < 2e6:
            sig = "backward" if t1 < t0 else ("forward" if t1 > t0 else "equal")
            run.native_runs += 1
            ok, why, steps = native_python(t0, t1, mx)
            payload.update({"native_steps": steps[:50], "native_step_count": len(steps), "oracle": "stepping_ok", "oracle_verdict": why})
            confirmed = not ok
            what = f"python _process_model from t={t0} to t={t1} with max_dt_sec={mx}: {why} (steps {steps[:6]}{'...' if len(steps) > 6 else ''})"
        kind = "helper" if ".helper." in ob.name else "property"
        if (kind == "helper" or not definitive) and not confirmed:
            run.undecided.append(ob.name)
            continue
        run.findings.append(Finding(ob.name, sig, what, payload, confirmed, theory=ob.theory, clause_kind=kind))


def native_sweep(run, n):
    rng = random.Random(run.seed)
    grid = []
    # times well above 1 s (still of moderate magnitude: the spacing of doubles at 1e5 s is 1.5e-11 s) with microsecond remainders: a
    # tolerance that grows with the absolute time drops them
    for t0 in (5000.0, 86400.25, -5000.0):
        for mx, whole, rem in ((0.1, 3, 5e-7), (0.05, 0, 3e-6), (0.1, 2, 2e-9), (0.25, 1, -4e-7), (0.1, 0, 1.5e-8)):
            grid.append((t0, t0 + whole * mx + rem, mx))
            grid.append((t0, t0 - whole * mx - rem, mx))
    for mx in (0.1, 0.05, 0.03, 1.0, 0.007):
        for t0, t1 in itertools.product((0.0, 1.0, -0.35, 2.5), (0.0, 1.0, 0.77, -0.1, 2.5, 0.23)):
            grid.append((t0, t1, mx))
    while len(grid) < n:
        mx = rng.choice([0.1, 0.05, 0.01, 0.25]) * rng.choice([1, 1, 3, 0.7])
        t0 = round(rng.uniform(-5, 5), rng.choice([1, 2, 6]))
        t1 = t0 + rng.choice([-1, 1]) * rng.choice([0, mx, 3 * mx, rng.uniform(0, 20 * mx), 5e-10, 2e-9])
        grid.append((t0, t1, mx))
    fails = 0
    for t0, t1, mx in grid[:n]:
        run.native_runs += 1
        ok, why, steps = native_python(t0, t1, mx)
        if not ok:
            fails += 1
            sig = "backward" if t1 < t0 else ("forward" if t1 > t0 else "equal")
            run.findings.append(Finding("C10.py._process_model.native_sweep", sig, f"python _process_model {t0}->{t1} max {mx}: {why}", {"language": "python", "inputs": {"t0": t0, "t1": t1, "max_dt_sec": mx}, "native_steps": steps[:50], "oracle_verdict": why}, True))
    # moves INSIDE ticks (to each reading's timestamp, then to the output time), over sequences of ticks
    from checks import C11

    rng2 = random.Random(run.seed + 23)
    hist = max(20, n // 3)
    for _ in range(hist):
        t0, mx, cs, ticks = C11.random_history(rng2)
        run.native_runs += 1
        try:
            ok, why, calls = C11.native_tick(t0, mx, cs, ticks)
        except Exception as e:  # harness problems never become violations
            run.notes.append(f"native tick history failed to run: {e!r}")
            continue
        if not ok and (why.startswith("move to") or why.startswith("after a reading was refused")):
            fails += 1
            run.findings.append(Finding("C10.py.tick_moves.native_sweep", "tick", f"python tick history {ticks} from t0={t0}, max {mx}: {why}", {"language": "python", "inputs": {"history": True, "t0": t0, "max_dt_sec": mx, "control_size": cs, "ticks": ticks}, "oracle_verdict": why}, True))
            break
    run.bounded.append({"what": "native CPython multi-tick histories with readings in any order: every move's process_model dt sequence judged by stepping_ok", "bound": f"{hist} random histories, seed {run.seed}", "failures": fails, "counted_as_proved": False})
    run.bounded.append({"what": "native CPython run of runtime.ManagedFilter._process_model with a recording wrapped filter, oracle stepping_ok", "bound": f"{min(n, len(grid))} (t0,t1,max_dt) triples, seed {run.seed}", "failures": fails, "counted_as_proved": False})


def check(run):
    rep = run.verify(rt.ProcessModelSteps(), rt.IMPL_CONTRACTS)
    triage_python(run, rep)
    try:
        from checks import cxx_runtime

        cxx_runtime.check_c10(run)
        # compiled C++ step traces (always): ordinary times, and times well above 1 s with microsecond remainders
        cfails = 0
        cases = [(1, 1, 0.0, 0.23, 0.05), (0, 0, 5000.0, 5000.0 + 0.3 + 5e-7, 0.1), (1, 0, 86400.25, 86400.25 - 0.2 - 3e-6, 0.1), (0, 1, -5000.0, -5000.0 + 3e-6, 0.05)]
        # spans that are decimal-exact multiples of a non-dyadic step (0.5 / 0.1: the rounded quotient is a whole number although 0.1 is a
        # hair above 1/10), forwards and backwards, with and without control
        cases += [(0, 0, 0.0, 0.5, 0.1), (0, 1, 0.0, -1.5, 0.05), (1, 0, 0.0, 1.0, 0.1), (0, 0, 2.0, 3.5, 0.01)]
        if run.tier == "thorough":
            cases += [(1, 1, 0.0, -0.5, 0.1), (0, 1, 0.0, 1.5, 0.01), (1, 1, 10.0, 10.7, 0.1),
                      (1, 1, 86400.25, 86400.25 + 0.25 + 1.5e-8, 0.25), (0, 0, 5000.0, 5000.0 - 0.1 - 2e-9, 0.1), (0, 0, 1.0, 0.77, 0.05), (1, 0, 5000.0, 5000.0, 0.1)]
        # a hand-written Impl may declare its maximum step as a float or an int constant (the runtime accepts any positive constant)
        cases = [c + ("double",) for c in cases] + [(0, 0, 0.0, 0.73, 0.1, "float"), (1, 1, 2.0, 1.17, 0.3, "float"), (0, 1, 0.0, -5.5, 2, "int"), (1, 0, 1.0, 7.25, 2, "int")]
        for hc, hk, t0, t1, mx, tag_type in cases:
            run.native_runs += 1
            good, why, steps = cxx_runtime.native_c10(bool(hc), bool(hk), t0, t1, mx, tag_type)
            if not good:
                cfails += 1
                run.findings.append(Finding("C10.cxx.processUpdate.native_sweep", f"u{hc}c{hk}", f"compiled C++ runtime (control={bool(hc)}, calibration={bool(hk)}, max_dt_sec declared {tag_type}) {t0!r}->{t1!r} max {mx}: {why}", {"language": "c++", "configuration": {"has_control": bool(hc), "has_calibration": bool(hk)}, "inputs": {"t0": t0, "t1": t1, "max_dt_sec": mx, "tag_type": tag_type}, "native_steps": steps[:50], "oracle_verdict": why}, True))
                break
        run.bounded.append({"what": "compiled C++ ManagedFilter with a recording Impl: step traces judged by stepping_ok, incl. times of 5000 s / 86400 s with microsecond remainders", "bound": f"{len(cases)} (configuration, t0, t1, max_dt) cases", "failures": cfails, "counted_as_proved": False})
    except ImportError:
        run.notes.append("C++ side not built yet")
    need_sweep = run.tier == "thorough" or any(r.status != "ok" for r in run.reports) or run.undecided
    native_sweep(run, 400 if run.tier == "thorough" else (120 if need_sweep else 60))
    from checks import cxx_filter

    cxx_filter.config_max_dt_literal(run, "C10")


def replay_file(payload):
    if (payload.get("inputs") or {}).get("config_literal"):
        from checks import cxx_filter
        from pvc import driver as _d

        r = _d.PropertyRun("C10", "quick", 0)
        cxx_filter.config_max_dt_literal(r, "C10")
        print("replay config literal:", [f.what for f in r.findings][:2] or "exact")
        return not r.findings
    inp = payload.get("inputs", {})
    if payload.get("language") == "python" and inp.get("history"):
        from checks import C11

        ok, why, calls = C11.native_tick(inp["t0"], inp["max_dt_sec"], inp["control_size"], [tuple(t) for t in inp["ticks"]])
        print(f"replay python tick history {inp['ticks']}: {why}")
        return ok
    if payload.get("language") == "python":
        ok, why, steps = native_python(inp["t0"], inp["t1"], inp["max_dt_sec"])
        print(f"replay python _process_model {inp}: steps={steps[:20]} -> {why}")
        return ok
    from checks import cxx_runtime

    return cxx_runtime.replay_c10(payload)
