"""C18 - design workflow follows its declared transitions and selects from the grid."""
from __future__ import annotations

import itertools

import z3

from pvc import driver
from pvc.contract import Call, Contract
from pvc.driver import Finding
from pvc.interp import Builtin, ClassV, Closure, Interp, Path, PyDict, PyList
from pvc.models import EnumMember, Models
from pvc.sym import PyRaise, SInt, SObj, SSeq, SV, Unsupported, to_int

PROPERTY = "C18"
EXPLANATION = (
    "The workflow graph (state classes, state ids, available_transitions, return annotations) is EXTRACTED from the current source of "
    "py/formak/ui_state_machine.py by the pvc interpreter; it is concrete and small, so the real code of StateMachineState.search, the constructors "
    "and the transition methods is executed by exact unrolling for every (start state, target) pair, for non-id targets, and for every transition "
    "sequence with branching (two successors created from the same state, a refused fit in between): complete enumeration (exhaustive: true). Search "
    "results are compared with an independent BFS over the extracted graph and replayed through the annotations; histories are compared with the "
    "sequence of visited ids and earlier states' histories must stay untouched (list aliasing is modelled). FitModelState._fit_model_impl is verified "
    "with a symbolic number of samples: fewer than 3 => ModelFitError before any estimator exists; otherwise GridSearchCV receives the adapter built "
    "from the grid's first entries and the SUPPLIED grid object, and fit_estimator is its best_estimator_, whose parameters are a grid point applied "
    "through set_params by the assumed scikit-learn contract D-skl (C17 then carries them into the exported filter's config)."
)
ASSUMPTIONS = [
    "D-skl: GridSearchCV(estimator, param_grid, ...).fit sets best_estimator_ = clone(estimator).set_params(**p) refit, for some p in ParameterGrid(param_grid); clone(e) = type(e)(**e.get_params())",
    "train_test_split / TimeSeriesSplit internals irrelevant to the property (opaque)",
    "C17: set_params / export_python carry the selected parameters into the exported filter's Config",
    "A-PY: inspect.signature(...).return_annotation is the annotation written in the source",
]
TRUSTED_BASE = ["pvc interpreter (/verif/pvc) executing the real source", "python ast module", "z3 5.1 (sample-count obligation)"]

MOD = "formak.ui_state_machine"
CLASSES = ("StateMachineState", "DesignManager", "SymbolicModelState", "FitModelState")
INLINE = {f"{MOD}:{c}.{m}" for c in CLASSES for m in ("__init__", "state_id", "available_transitions", "history", "search", "symbolic_model", "fit_model", "export_python")}


class FitImplStub(Contract):
    """FitModelState._fit_model_impl as seen from the constructor in the transition-sequence runs: refuses fewer than 3 samples."""

    key = f"{MOD}:FitModelState._fit_model_impl"

    def apply(self, I, args, kwargs):
        obj = args[0]
        data = obj.fields.get("data")
        n = len(data.items) if isinstance(data, PyList) else None
        if n is not None and n < 3:
            raise PyRaise("ModelFitError")
        obj.fields["fit_estimator"] = SObj("Estimator", {}, "best_estimator")
        return None


def new_interp(contracts=None):
    P = Path([])
    I = Interp(driver.REPO, P, contracts=contracts or {}, models=Models())
    I.inline |= INLINE
    return I


def extract_graph(I):
    mod = I.load_module(MOD)
    states = {}
    for name, node in mod.defs.items():
        import ast

        if isinstance(node, ast.ClassDef):
            cls = I.module_attr(mod, name)
            if isinstance(cls, ClassV) and any(isinstance(b, ClassV) and b.name == "StateMachineState" for b in cls.bases):
                sid = I.call(I.getattr(cls, "state_id"), [], {})
                trans = I.call(I.getattr(cls, "available_transitions"), [], {})
                edges = {}
                for t in trans.items:
                    fn = cls.lookup(t)
                    target = I.eval_in(fn.node.returns, fn.module, fn.enclosing) if isinstance(fn, Closure) and fn.node.returns is not None else None
                    edges[t] = target
                states[name] = {"cls": cls, "id": sid, "edges": edges}
    return states


def bfs(states, start, target_id):
    frontier = [(start, [])]
    seen = set()
    while frontier:
        cur, path = frontier.pop(0)
        if states[cur]["id"] is target_id:
            return path
        if cur in seen:
            continue
        seen.add(cur)
        for t, tgt in states[cur]["edges"].items():
            if isinstance(tgt, ClassV) and tgt.name in states:
                frontier.append((tgt.name, path + [t]))
    return None


def follow(states, start, path):
    cur = start
    for t in path:
        if t not in states[cur]["edges"] or not isinstance(states[cur]["edges"][t], ClassV):
            return None
        cur = states[cur]["edges"][t].name
    return cur


def native_search(start, target_name, debug=False):
    """Run the REAL StateMachineState.search natively: -> (list of transition names | None, 'returned' | 'raised <Type>')."""
    from replay.native import repo_import

    sm = repo_import(MOD)
    cls = getattr(sm, start)
    inst = cls.__new__(cls)
    inst.name = "design"
    inst._history = [cls.state_id()]
    try:
        import contextlib
        import io

        with contextlib.redirect_stdout(io.StringIO()):
            got = inst.search(getattr(sm.StateId, target_name), **({} if debug is None else {"debug": debug}))
        return (list(got) if isinstance(got, (list, tuple)) else None), "returned"
    except Exception as e:
        return None, f"raised {type(e).__name__}"


def check_search(run, fn, reverse=False):
    """reverse: the same exhaustive enumeration in a FRESH interpreter with the start states visited in the opposite order (the first
    search of a process then starts from the LAST state of the workflow): nothing a search leaves behind may change a later one."""
    I = new_interp()
    states = extract_graph(I)
    mod = I.load_module(MOD)
    SID = I.module_attr(mod, "StateId")
    ids = [I.class_attr(SID, nm) for nm in getattr(SID, "enum_members", [])]
    run.extra["extracted_graph"] = {k: {"id": repr(v["id"]), "edges": {t: (c.name if isinstance(c, ClassV) else None) for t, c in v["edges"].items()}} for k, v in states.items()}
    ok_graph = len(states) >= 3 and len(ids) >= 3
    if not reverse:
        run.prove("C18.py.graph.extracted", [], z3.BoolVal(ok_graph), function=fn)
    tag = "[later_states_first]" if reverse else ""
    for start, info in sorted(states.items(), reverse=reverse):
        inst = SObj(info["cls"], {"name": "design", "_history": PyList([info["id"]])}, start.lower())
        for tid, dbg in [(t, d) for t in ids for d in (False, None, True)]:
            # the optional `debug` flag only adds printing: explicit False, the default (omitted) and explicit True give the same path
            want = bfs(states, start, tid)
            name = f"C18.py.search[{start}->{tid.name}]" + ("" if dbg is False else ("[debug_default]" if dbg is None else "[debug_on]")) + tag
            try:
                got = I.call(I.getattr(inst, "search"), [tid], {} if dbg is None else {"debug": dbg})
                got_list = list(got.items) if isinstance(got, PyList) else None
                outcome = "returned"
            except PyRaise as e:
                got_list, outcome = None, f"raised {e.exc_type}"
            except Unsupported as u:
                # a construct outside the interpreter's subset: the real function is run natively instead (the state space is finite,
                # so this is still exhaustive); recorded as a bounded stand-in, not as a proof
                run.undecided.append(f"{name} (interpreter: {u}; decided by running the real search natively)")
                got_list, outcome = native_search(start, tid.name, dbg)
            if want is None:
                good = outcome == "raised ValueError"
                ob = run.prove(name + ".unreachable_raises_ValueError", [], z3.BoolVal(good), function=fn)
                detail = f"search from {start} for unreachable {tid.name}: {outcome} {got_list}"
            else:
                reaches = got_list is not None and follow(states, start, got_list) is not None and states[follow(states, start, got_list)]["id"] is tid
                shortest = got_list is not None and len(got_list) == len(want)
                ob1 = run.prove(name + ".path_ends_in_target", [], z3.BoolVal(bool(reaches)), function=fn)
                ob = run.prove(name + ".path_is_shortest", [], z3.BoolVal(bool(shortest)), function=fn)
                good = reaches and shortest
                detail = f"search from {start} to {tid.name}: {outcome} {got_list}; a shortest path is {want}"
            if not good:
                run.findings.append(Finding(ob.name, f"{start}->{tid.name}", detail, {"language": "python", "inputs": {"start": start, "target": tid.name, "debug": dbg}, "oracle_verdict": detail}, True))
        for bad, label in (() if reverse else (("Fit_Model", "a string"), (2, "an int"), (None, "None"), (info["cls"], "a state class"))):
            try:
                I.call(I.getattr(inst, "search"), [bad], {"debug": False})
                outcome = "returned"
            except PyRaise as e:
                outcome = f"raised {e.exc_type}"
            ob = run.prove(f"C18.py.search[{start}].non_id_target_raises_ValueError[{label}]", [], z3.BoolVal(outcome == "raised ValueError"), function=fn)
            if outcome != "raised ValueError":
                run.findings.append(Finding(ob.name, start, f"search from {start} for {label}: {outcome}", {"language": "python", "inputs": {"start": start, "target": label}}, True))
    return states


def check_histories(run, fn):
    """Every transition sequence with branching, including a refused fit in between."""
    I = new_interp({FitImplStub.key: FitImplStub()})
    mod = I.load_module(MOD)
    DM = I.module_attr(mod, "DesignManager")
    SID = I.module_attr(mod, "StateId")
    sid = lambda n: I.class_attr(SID, n)
    model = SObj("UiModel", {}, "model")
    good_data, bad_data = PyList([1, 2, 3, 4]), PyList([1, 2])

    def hist(o):
        h = I.call(I.getattr(o, "history"), [], {})
        return [x.name for x in h.items]

    problems = []
    for script in itertools.product(["sym", "sym2", "fit", "fit2", "refused_fit"], repeat=3):
        dm = I.call(DM, ["design"], {})
        objs = {"dm": (dm, ["Start"])}
        cur_sym = None
        for step in script:
            if step in ("sym", "sym2"):
                s = I.call(I.getattr(dm, "symbolic_model"), [model], {})
                objs[f"{step}{len(objs)}"] = (s, ["Start", "Symbolic_Model"])
                cur_sym = s
            elif cur_sym is not None:
                data = bad_data if step == "refused_fit" else good_data
                try:
                    f = I.call(I.getattr(cur_sym, "fit_model"), [PyDict({"process_noise": PyList([PyDict()])}), data], {})
                    objs[f"{step}{len(objs)}"] = (f, ["Start", "Symbolic_Model", "Fit_Model"])
                    if step == "refused_fit":
                        problems.append((script, "a fit with 2 samples was accepted"))
                except PyRaise as e:
                    if step != "refused_fit" or e.exc_type != "ModelFitError":
                        problems.append((script, f"fit_model raised {e.exc_type}"))
            for nm, (o, want) in objs.items():
                got = hist(o)
                if got != want:
                    problems.append((script, f"history of {o.cls.name} created at step {nm} is {got}, expected {want}"))
        for nm, (o, want) in objs.items():
            sidv = I.call(I.getattr(o, "state_id"), [], {})
            if sidv.name != want[-1]:
                problems.append((script, f"state_id of {nm} is {sidv.name}"))
    ob = run.prove("C18.py.history.records_visited_states_in_order_for_all_branching_sequences", [], z3.BoolVal(not problems), function=fn)
    run.extra["transition_scripts_enumerated"] = 5**3
    if problems:
        script, why = problems[0]
        run.findings.append(Finding(ob.name, "history", f"transition sequence {script}: {why}", {"language": "python", "inputs": {"script": list(script)}, "oracle_verdict": why}, True))


class OpaqueRec(SV):
    """Records constructor keyword arguments of an opaque library object (GridSearchCV, adapter ...)."""

    def __init__(self, kind, args=(), kwargs=None):
        self.kind, self.args, self.kwargs = kind, list(args), dict(kwargs or {})
        self.attrs = {}

    def pvc_getattr(self, I, name):
        if name in self.attrs:
            return self.attrs[name]
        if name == "fit":
            return Builtin("fit", lambda I2, a, k: self.attrs.setdefault("_fit_called", k or True) and self)
        if name == "cv_results_":
            return OpaqueAny()
        if name == "best_estimator_":
            return self.attrs.setdefault("best_estimator_", OpaqueRec("best_estimator_of", [self]))
        return NotImplemented


class OpaqueAny(SV):
    def pvc_getitem(self, I, idx):
        return OpaqueAny()

    def pvc_getattr(self, I, name):
        return OpaqueAny()


class DataV(SV):
    """Training data of symbolic length."""

    def __init__(self, n):
        self.n = n

    def pvc_len(self, I):
        return SInt(self.n)


class FitModelImpl(Contract):
    key = f"{MOD}:FitModelState._fit_model_impl"
    prefix = "C18.py._fit_model_impl"

    def setup(self, I):
        P = I.path
        mod = I.load_module(MOD)
        cls = I.module_attr(mod, "FitModelState")
        n = P.fresh_int("n_samples")
        P.assume(n >= 0)
        self.recs = recs = {}
        M = I.models
        M.froms[("sklearn.model_selection", "train_test_split")] = Builtin("train_test_split", lambda I2, a, k: (recs.setdefault("split", True) and (OpaqueAny(), OpaqueAny())))
        M.froms[("sklearn.model_selection", "TimeSeriesSplit")] = Builtin("TimeSeriesSplit", lambda I2, a, k: OpaqueRec("TimeSeriesSplit", a, k))
        M.froms[("sklearn.model_selection", "GridSearchCV")] = Builtin("GridSearchCV", lambda I2, a, k: recs.setdefault("gs", OpaqueRec("GridSearchCV", a, k)))
        grid = PyDict({"process_noise": PyList([SObj("NoiseA", {}, "pn_a"), SObj("NoiseB", {}, "pn_b")]), "sensor_models": PyList([SObj("SM", {}, "sm")]), "sensor_noises": PyList([SObj("SN", {}, "sn")]), "calibration_map": PyList([PyDict()]), "innovation_filtering": PyList([1.0, 4.0, None])})
        obj = SObj(cls, {"symbolic_model": SObj("UiModel", {}, "model"), "parameter_space": grid, "data": DataV(n), "cross_validation_strategy": None, "scoring": None, "parameter_sampling_strategy": None}, "fit_state")
        I.contracts["formak.python:SklearnEKFAdapter.Create"] = AdapterCreate(recs)
        I.inline |= {f"{MOD}:ConfigView.__init__"}
        return Call([obj], {}, obj=obj, n=n, grid=grid)

    def post(self, I, call, outcome):
        P, pre, n = I.path, self.prefix, call.n
        recs = self.recs
        if outcome[0] == "raise":
            P.oblige(f"{pre}.too_few_samples.only_ModelFitError", z3.BoolVal(outcome[1] == "ModelFitError"), note=f"raises {outcome[1]}")
            P.oblige(f"{pre}.too_few_samples.raises_only_if", n < 3)
            P.oblige(f"{pre}.too_few_samples.before_any_estimator", z3.BoolVal("adapter" not in recs and "gs" not in recs and "split" not in recs))
            return
        P.oblige(f"{pre}.too_few_samples.raises_if", n >= 3)
        gs, ad = recs.get("gs"), recs.get("adapter")
        P.oblige(f"{pre}.grid_search_constructed", z3.BoolVal(gs is not None and ad is not None))
        if gs is None or ad is None:
            return
        P.oblige(f"{pre}.grid_is_the_supplied_parameter_space", z3.BoolVal(gs.kwargs.get("param_grid") is call.grid))
        P.oblige(f"{pre}.estimator_is_the_adapter", z3.BoolVal(gs.kwargs.get("estimator") is ad["obj"]))
        first = all(ad["kwargs"].get(k) is call.grid.d[k].items[0] for k in ("process_noise", "sensor_models", "sensor_noises", "calibration_map"))
        P.oblige(f"{pre}.adapter_built_from_grid_entries", z3.BoolVal(first and ad["kwargs"].get("symbolic_model") is call.obj.fields["symbolic_model"]))
        # the configuration the search starts from: the grid's first candidate for every Config field the grid tunes, python.Config's
        # default for every field it does not - held in a mapping that is this fit's OWN (not the supplied grid, not a class- or
        # module-level object another fit would see)
        cfg = ad["kwargs"].get("config")
        params = cfg.fields.get("_params") if isinstance(cfg, SObj) else None
        ok_shape = isinstance(params, PyDict)
        P.oblige(f"{pre}.start_configuration.is_a_config_view_over_a_mapping", z3.BoolVal(ok_shape))
        if ok_shape:
            mod = I.load_module(MOD)
            shared = [v for v in list(getattr(mod, "globals", {}).values()) if v is params]
            cv = I.module_attr(mod, "ConfigView")
            k = cv
            while isinstance(k, ClassV):
                shared += [v for v in k.attrs.values() if v is params or (isinstance(v, tuple) and len(v) == 2 and v[0] == "val" and v[1] is params)]
                k = next((b for b in k.bases if isinstance(b, ClassV)), None)
            P.oblige(f"{pre}.start_configuration.mapping_is_this_fits_own", z3.BoolVal(not shared and params is not call.grid), note="the mapping behind the configuration is a class/module-level object or the supplied grid: another fit in the same process sees it")
            want = {"innovation_filtering": 1.0, "max_dt_sec": 0.1, "extra_validation": False, "common_subexpression_elimination": True}
            got = {f: params.d.get(f, "<missing>") for f in want}
            P.oblige(f"{pre}.start_configuration.grid_candidate_or_default_per_field", z3.BoolVal(all(type(got[f]) is type(want[f]) and got[f] == want[f] for f in want)), note=f"configuration fields {got}, expected {want}")
        P.oblige(f"{pre}.grid_search_fitted_on_the_data", z3.BoolVal("_fit_called" in gs.attrs))
        P.oblige(f"{pre}.fit_estimator_is_best_estimator", z3.BoolVal(call.obj.fields.get("fit_estimator") is gs.attrs.get("best_estimator_")))
        P.oblige(f"{pre}.grid_not_narrowed", z3.BoolVal(len(call.grid.d["innovation_filtering"].items) == 3 and len(call.grid.d["process_noise"].items) == 2))


class AdapterCreate(Contract):
    key = "formak.python:SklearnEKFAdapter.Create"

    def __init__(self, recs):
        self.recs = recs

    def apply(self, I, args, kwargs):
        obj = OpaqueRec("SklearnEKFAdapter", args[1:], kwargs)
        self.recs["adapter"] = {"obj": obj, "kwargs": kwargs}
        return obj


def native_grid(run):
    """D-skl spot check: a tiny real grid search; the exported filter must carry a grid value."""
    import numpy as np

    from replay import shim
    from replay.native import repo_import

    py = shim.install()
    ui = repo_import("formak.ui")
    dt, x, v, a = ui.Symbol("dt"), ui.Symbol("x"), ui.Symbol("v"), ui.Symbol("a")
    model = ui.Model(dt=dt, state={x, v}, control={a}, state_model={x: x + dt * v, v: v + dt * a})
    rng = np.random.default_rng(run.seed)
    data = np.column_stack([np.zeros(14), rng.normal(0, 0.5, 14)])
    grid = {"process_noise": [{a: 1.0}], "sensor_models": [{"pos": {"x": x}}], "sensor_noises": [{"pos": {"x": 1.0}}], "innovation_filtering": [None, 5.0], "max_dt_sec": [0.05, 0.2]}
    dm = ui.DesignManager(name="t")
    st = dm.symbolic_model(model=model)
    problems = []
    try:
        fit = st.fit_model(parameter_space=grid, data=data)
        cfg = fit.export_python().config
        if cfg.innovation_filtering not in grid["innovation_filtering"] or cfg.max_dt_sec not in grid["max_dt_sec"]:
            problems.append(f"exported config ({cfg.innovation_filtering}, {cfg.max_dt_sec}) is not a grid point")
        est = fit.fit_estimator.get_params()
        if est["config"].innovation_filtering != cfg.innovation_filtering or est["config"].max_dt_sec != cfg.max_dt_sec:
            problems.append("exported filter does not carry the selected hyper-parameters")
        if fit.history() != [ui.StateId.Start, ui.StateId.Symbolic_Model, ui.StateId.Fit_Model] or st.history() != [ui.StateId.Start, ui.StateId.Symbolic_Model]:
            problems.append(f"histories {fit.history()} / {st.history()}")
    except Exception as e:
        problems.append(f"{type(e).__name__}: {(str(e).splitlines() or [''])[0][:200]}")
    return problems


def native_two_fits(run):
    """Two workflows fitted one after the other in ONE process.  The first grid pins innovation_filtering and max_dt_sec away from the
    defaults; the second grid does not mention them: its exported filter must carry python.Config's defaults for them (nothing was
    selected for those fields, and certainly not another workflow's candidates), and the first one's export is unchanged afterwards."""
    import numpy as np

    from replay import shim
    from replay.native import repo_import

    py = shim.install()
    ui = repo_import("formak.ui")
    dt, x, v, a = ui.Symbol("dt"), ui.Symbol("x"), ui.Symbol("v"), ui.Symbol("a")
    model = ui.Model(dt=dt, state={x, v}, control={a}, state_model={x: x + dt * v, v: v + dt * a})
    rng = np.random.default_rng(run.seed + 3)
    data = np.column_stack([np.zeros(8), rng.normal(0, 0.5, 8)])
    base = {"process_noise": [{a: 1.0}], "sensor_models": [{"pos": {"x": x}}], "sensor_noises": [{"pos": {"x": 1.0}}]}
    problems = []
    try:
        fit1 = ui.DesignManager(name="first").symbolic_model(model=model).fit_model(parameter_space=dict(base, innovation_filtering=[7.0], max_dt_sec=[0.25]), data=data)
        c1 = fit1.export_python().config
        if (c1.innovation_filtering, c1.max_dt_sec) != (7.0, 0.25):
            problems.append(f"first workflow (grid innovation_filtering=[7.0], max_dt_sec=[0.25]) exports ({c1.innovation_filtering}, {c1.max_dt_sec})")
        fit2 = ui.DesignManager(name="second").symbolic_model(model=model).fit_model(parameter_space=dict(base), data=data)
        c2 = fit2.export_python().config
        d = py.Config()
        if (c2.innovation_filtering, c2.max_dt_sec, c2.extra_validation, c2.common_subexpression_elimination) != (d.innovation_filtering, d.max_dt_sec, d.extra_validation, d.common_subexpression_elimination):
            problems.append(f"second workflow in the same process, whose grid does not tune the configuration, exports (innovation_filtering={c2.innovation_filtering}, max_dt_sec={c2.max_dt_sec}); nothing selected these (defaults {d.innovation_filtering}, {d.max_dt_sec}; the FIRST workflow's grid had 7.0, 0.25)")
        c1b = fit1.export_python().config
        if (c1b.innovation_filtering, c1b.max_dt_sec) != (7.0, 0.25):
            problems.append(f"after the second fit the first workflow exports ({c1b.innovation_filtering}, {c1b.max_dt_sec}) instead of its selected (7.0, 0.25)")
    except Exception as e:
        problems.append(f"{type(e).__name__}: {(str(e).splitlines() or [''])[0][:200]}")
    return problems


def native_best_candidate(run):
    """D-skl boundary with a test double for the SCORER: the workflow's scorer is replaced by one that ranks the candidates by a fixed
    table (the grid lists them as [second best, worst, best], so rank order and list order form a 3-cycle).  The exported filter must
    carry the candidate the search selected - the best-scoring one - not merely some grid value."""
    import numpy as np

    from replay import shim
    from replay.native import repo_import

    py = shim.install()
    ui = repo_import("formak.ui")
    usm = repo_import("formak.ui_state_machine")
    dt, x, v, a = ui.Symbol("dt"), ui.Symbol("x"), ui.Symbol("v"), ui.Symbol("a")
    model = ui.Model(dt=dt, state={x, v}, control={a}, state_model={x: x + dt * v, v: v + dt * a})
    rng = np.random.default_rng(run.seed + 5)
    data = np.column_stack([np.zeros(8), rng.normal(0, 0.5, 8)])
    table = {4.5: 1.0, 1.5: 0.0, 3.0: 2.0}  # greater is better: 3.0 wins, 4.5 is second, 1.5 is worst
    grid = {"process_noise": [{a: 1.0}], "sensor_models": [{"pos": {"x": x}}], "sensor_noises": [{"pos": {"x": 1.0}}], "innovation_filtering": [4.5, 1.5, 3.0]}
    old = usm.NisScore.__call__
    usm.NisScore.__call__ = lambda self, estimator, X, y=None: float(table[estimator.get_params()["config"].innovation_filtering])
    problems = []
    try:
        fit = ui.DesignManager(name="ranked").symbolic_model(model=model).fit_model(parameter_space=grid, data=data)
        got = fit.export_python().config.innovation_filtering
        if got != 3.0:
            problems.append(f"candidates [4.5, 1.5, 3.0] scored [1.0, 0.0, 2.0] (greater is better): the exported filter carries innovation_filtering={got}, the selected candidate is 3.0")
    except Exception as e:
        problems.append(f"{type(e).__name__}: {(str(e).splitlines() or [''])[0][:200]}")
    finally:
        usm.NisScore.__call__ = old
    return problems


def native_small_data(run):
    """Data sets with fewer than 3 SAMPLES (rows) - however many columns - are refused with ModelFitError before any estimator exists."""
    import numpy as np

    from replay import shim
    from replay.native import repo_import

    shim.install()
    ui = repo_import("formak.ui")
    exc = repo_import("formak.exceptions")
    dt, x, v, a = ui.Symbol("dt"), ui.Symbol("x"), ui.Symbol("v"), ui.Symbol("a")
    model = ui.Model(dt=dt, state={x, v}, control={a}, state_model={x: x + dt * v, v: v + dt * a})
    grid = {"process_noise": [{a: 1.0}], "sensor_models": [{"pos": {"x": x, "xv": x + v}}], "sensor_noises": [{"pos": {"x": 1.0, "xv": 1.0}}]}
    problems = []
    for rows, cols in ((0, 3), (1, 3), (2, 3), (2, 1), (1, 1)):
        for as_list in (False, True):
            data = np.arange(rows * cols, dtype=float).reshape((rows, cols)) * 0.1
            data = data.tolist() if as_list else data
            st = ui.DesignManager(name="t").symbolic_model(model=model)
            try:
                st.fit_model(parameter_space=grid, data=data)
                problems.append(f"a data set of {rows} sample(s) x {cols} column(s) ({'list' if as_list else 'ndarray'}) was accepted for fitting")
            except exc.ModelFitError:
                pass
            except Exception as e:
                problems.append(f"a data set of {rows} sample(s) x {cols} column(s) ({'list' if as_list else 'ndarray'}) was not refused with ModelFitError but failed with {type(e).__name__}: {(str(e).splitlines() or [''])[0][:120]}")
    return problems


def native_grid_points(run):
    """D-skl boundary, without running the search: scikit-learn's contract says best_estimator_ = clone(estimator).set_params(**p)
    for a grid point p.  For EVERY point of a grid that tunes two Config fields at once, that estimator's exported filter must carry
    exactly the point's values (C17 carries them; checked here on the adapter the workflow builds)."""
    import itertools

    from sklearn.base import clone

    from replay import shim
    from replay.native import repo_import

    py = shim.install()
    ui = repo_import("formak.ui")
    dt, x, v, a = ui.Symbol("dt"), ui.Symbol("x"), ui.Symbol("v"), ui.Symbol("a")
    model = ui.Model(dt=dt, state={x, v}, control={a}, state_model={x: x + dt * v, v: v + dt * a})
    grid = {"innovation_filtering": [2.0, 3.0], "max_dt_sec": [0.25, 0.5]}
    base = py.SklearnEKFAdapter(symbolic_model=model, process_noise={a: 1.0}, sensor_models={"pos": {"x": x}}, sensor_noises={"pos": {"x": 1.0}}, config=py.Config())  # the workflow always passes a configuration
    problems = []
    try:
        for order in (("innovation_filtering", "max_dt_sec"), ("max_dt_sec", "innovation_filtering")):
            for vals in itertools.product(*[grid[k] for k in order]):
                p = dict(zip(order, vals))
                est = clone(base).set_params(**p)
                cfg = est.export_python().config
                got = {k: getattr(cfg, k) for k in p}
                if got != p:
                    problems.append(f"grid point {p}: the selected estimator's exported filter carries {got}")
                    return problems
    except Exception as e:
        problems.append(f"{type(e).__name__}: {(str(e).splitlines() or [''])[0][:200]}")
    return problems


def native_order_rows(starts):
    """[[start, target, path | None, outcome]] from the real search run in a FRESH process, for the start states in the given order."""
    import json as _json
    import os as _os
    import subprocess as _sp
    import sys as _sys

    code = "import sys, json; sys.path.insert(0, %r); from checks import C18; print('C18ORDER ' + json.dumps([[s, t] + list(C18.native_search(s, t, None)) for s in %r for t in ('Start', 'Symbolic_Model', 'Fit_Model')]))" % (_os.path.dirname(_os.path.dirname(_os.path.abspath(__file__))), list(starts))
    out = _sp.run([_sys.executable, "-c", code], capture_output=True, text=True, env=dict(_os.environ), timeout=600)
    rows = next((_json.loads(ln[len("C18ORDER "):]) for ln in out.stdout.splitlines() if ln.startswith("C18ORDER ")), None)
    return rows, out.stderr[-200:]


def check(run):
    fn = "formak.ui_state_machine (executed by exact unrolling)"
    run.exhaustive = True
    states = check_search(run, fn)
    check_search(run, fn, reverse=True)
    # the real search natively, in one process, later states first (always): what an earlier search leaves behind must not matter
    nfails = 0
    # (a FRESH process: the interpreter's native fallbacks above may already have searched from the start state in this one)
    rows, err = native_order_rows(sorted(states, reverse=True))
    if rows is None:
        run.notes.append(f"native search-order pass did not run: {err}")
        rows = []
    for start, tid_name, got_list, outcome in rows:
        if True:
            run.native_runs += 1
            tid = next((v["id"] for v in states.values() if getattr(v["id"], "name", None) == tid_name), None)
            want = bfs(states, start, tid) if tid is not None else None
            good = (outcome == "raised ValueError") if want is None else (got_list is not None and len(got_list) == len(want) and follow(states, start, got_list) is not None and states[follow(states, start, got_list)]["id"] is tid)
            if not good:
                nfails += 1
                detail = f"real search from {start} to {tid_name} (searches from later states ran first in this process): {outcome} {got_list}; a shortest path is {want}"
                run.findings.append(Finding("C18.py.native_search_order", f"{start}->{tid_name}", detail, {"language": "python", "inputs": {"start": start, "target": tid_name, "native_order": True}, "oracle_verdict": detail}, True))
                break
        if nfails:
            break
    run.bounded.append({"what": "real StateMachineState.search natively for every (start, target) pair in one process, start states in reverse workflow order", "bound": "9 pairs (exhaustive for the workflow's states)", "failures": nfails, "counted_as_proved": False})
    check_histories(run, fn)
    rep = run.verify(FitModelImpl(), {})
    for ob, model, definitive in driver.refuted(run, rep):
        run.findings.append(Finding(ob.name, "fit", f"{ob.name} refuted ({ob.note or ''})", {"language": "python", "counter_model": str(model)[:400]}, False))
    run.native_runs += 1
    sd = native_small_data(run)
    for p in sd[:1]:
        run.findings.append(Finding("C18.py.native_small_data", "small-data", p, {"language": "python", "inputs": {"seed": run.seed, "small_data": True}, "oracle_verdict": p}, True))
    run.bounded.append({"what": "data sets of 0, 1 and 2 samples with 1 and 3 columns, as lists and arrays, must be refused with ModelFitError", "bound": "10 data sets", "failures": len(sd), "counted_as_proved": False})
    run.native_runs += 1
    tf = native_two_fits(run)
    run.bounded.append({"what": "native: two workflows fitted in one process (first grid pins innovation_filtering / max_dt_sec, second does not mention them): un-tuned fields of the second export are python.Config's defaults, the first export is unchanged", "bound": "2 fits x 1 grid point x 8 rows", "failures": len(tf), "counted_as_proved": False})
    for p in tf[:1]:
        run.findings.append(Finding("C18.py.native_two_fits", "two-fits", p, {"language": "python", "inputs": {"seed": run.seed, "two_fits": True}, "oracle_verdict": p}, True))
    run.native_runs += 1
    bc = native_best_candidate(run)
    run.bounded.append({"what": "native: a three-candidate grid listed as [second best, worst, best] with a scorer test double that ranks them by a fixed table: the exported filter carries the best-scoring candidate", "bound": "1 fit x 3 candidates x 8 rows", "failures": len(bc), "counted_as_proved": False})
    for p in bc[:1]:
        run.findings.append(Finding("C18.py.native_best_candidate", "ranked", p, {"language": "python", "inputs": {"seed": run.seed, "best_candidate": True}, "oracle_verdict": p}, True))
    run.native_runs += 1
    gp = native_grid_points(run)
    for p in gp[:1]:
        run.findings.append(Finding("C18.py.native_grid_points", "grid", p, {"language": "python", "inputs": {"seed": run.seed, "grid_points": True}, "oracle_verdict": p}, True))
    run.bounded.append({"what": "D-skl boundary: clone(adapter).set_params(**p) for every point p (both key orders) of a 2x2 grid over two Config fields; the exported filter must carry p", "bound": "8 estimators", "failures": len(gp), "counted_as_proved": False})
    if run.tier == "thorough":
        run.native_runs += 1
        problems = native_grid(run)
        for p in problems[:1]:
            run.findings.append(Finding("C18.py.native_grid", "grid", p, {"language": "python", "inputs": {"seed": run.seed}, "oracle_verdict": p}, True))
        run.bounded.append({"what": "D-skl spot check: real GridSearchCV over a 2x2 grid on 14 samples; exported filter's config must be a grid point and equal the selected estimator's", "bound": "1 data set", "failures": len(problems), "counted_as_proved": False})


def replay_file(payload):
    if (payload.get("inputs") or {}).get("small_data"):
        p = native_small_data(driver.PropertyRun("C18", "quick", 0))
        print("replay C18 (small data sets):", p[:2] or "every data set with fewer than 3 samples is refused with ModelFitError")
        return not p
    if (payload.get("inputs") or {}).get("native_order"):
        rows, err = native_order_rows(["SymbolicModelState", "FitModelState", "DesignManager"])
        print("replay C18 (real searches in one fresh process, later states first):", rows or err)
        want = {("DesignManager", "Symbolic_Model"): ["symbolic_model"], ("DesignManager", "Fit_Model"): ["symbolic_model", "fit_model"], ("SymbolicModelState", "Fit_Model"): ["fit_model"]}
        return bool(rows) and all(r[2] == want[(r[0], r[1])] for r in rows if (r[0], r[1]) in want)
    if (payload.get("inputs") or {}).get("best_candidate"):
        p = native_best_candidate(driver.PropertyRun("C18", "quick", (payload.get("inputs") or {}).get("seed", 0)))
        print("replay C18 (best-scoring candidate exported):", p[:1] or "the selected candidate is exported")
        return not p
    if (payload.get("inputs") or {}).get("two_fits"):
        run0 = driver.PropertyRun("C18", "quick", (payload.get("inputs") or {}).get("seed", 0))
        p = native_two_fits(run0)
        print("replay C18 (two fits in one process):", p[:2] or "each export carries its own grid's candidates and defaults elsewhere")
        return not p
    if (payload.get("inputs") or {}).get("grid_points"):
        run0 = driver.PropertyRun("C18", "quick", 0)
        p = native_grid_points(run0)
        print("replay C18 (grid points):", p[:1] or "every grid point is carried into the exported filter")
        return not p
    run = driver.PropertyRun("C18", "quick", 0)
    fn = "replay"
    check_search(run, fn)
    check_histories(run, fn)
    for f in run.findings:
        print("replay C18:", f.what)
    if not run.findings:
        print("replay C18: search and histories as specified")
    return not run.findings
