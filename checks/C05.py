"""C05 - sensor update is the Kalman correction, for any number of readings."""
from __future__ import annotations

from checks.ekf_common import COMMON_ASSUMPTIONS, TRUSTED, magnitude_native, triage_generic
from contracts import pyekf
from pvc.driver import Finding
from replay import kalman

PROPERTY = "C05"
EXPLANATION = (
    "ExtendedKalmanFilter.sensor_model, SensorModel.model and SensorModel.__init__ (py/formak/python.py) are symbolically executed for symbolic "
    "numbers of states, calibrations and readings. sensor_model's result, the recorded innovation and innovation covariance are proved equal to the "
    "textbook terms (S = H P H^T + Q, K = P H^T S^-1, x + K nu, P - K H P) over uninterpreted matrix algebra, and S additionally element-wise "
    "(so numpy broadcasting of a mis-shaped noise container is visible); the noise container's shape/diagonal layout is part of the representation "
    "invariant that SensorModel.__init__ must establish (ReadingCovariance is an m x m covariance class over the sorted reading names)."
)
ASSUMPTIONS = COMMON_ASSUMPTIONS + [
    "symmetry and P+ <= P of the posterior are the Schur-complement lemma (mathematics; Lean/Mathlib in C09 thorough), corollary z = h(x) => nu = 0 => state unchanged follows from x+ = x + K nu",
    "exact-arithmetic PSD facts make the internal validity gates pass",
]
TRUSTED_BASE = TRUSTED


def native(shape, seed, k_edit=None, **kw):  # kw may carry container="list"
    res = kalman.native_update((shape[0], shape[1], shape[3] if len(shape) > 3 else shape[2]), seed, k_edit=k_edit, **kw)
    return res[0], res[1]


def check(run):
    cs = pyekf.filter_callees()
    for c in (pyekf.SensorUpdate(True), pyekf.SensorUpdate(False)):
        rep = run.verify(c, cs)
        for ob in rep.obligations:
            if ob.name.startswith("C06."):
                ob.name = "C05.via." + ob.name  # decision clauses are reported under C06; kept here for completeness of the body's VCs
        triage_generic(run, rep, lambda shape, seed, container="set": native(shape, seed, 3.0 if c.enabled else None, container=container), "sensor_model")
    rep = run.verify(pyekf.SensorModelModel(), cs)
    triage_generic(run, rep, lambda shape, seed, container="set": native(shape, seed, container=container), "SensorModel.model")
    rep = run.verify(pyekf.SensorModelInit(), pyekf.sensor_init_callees())
    triage_generic(run, rep, lambda shape, seed, container="set": native([max(shape[0], 2), shape[1], shape[2], max(shape[3], 2)], seed, container=container), "SensorModel.__init__")
    rep = run.verify(pyekf.ConstructSensors(), pyekf.sensors_callees())
    triage_generic(run, rep, lambda shape, seed, container="set": native([max(shape[0], 2), shape[1], shape[2], max(shape[3], 2)], seed, container=container), "_construct_sensors", extra_native=[magnitude_native(run.seed)])
    from checks import C03

    rep = run.verify(pyekf.JacobianContract("sensor_jacobian"), cs)
    C03.triage(run, rep)
    if run.tier == "thorough" or any(r.status != "ok" for r in run.reports) or run.undecided:
        shapes = [(2, 0, 0, 1), (3, 1, 0, 2), (2, 1, 0, 3), (4, 0, 0, 2), (1, 0, 0, 2)] if run.tier == "thorough" else [(3, 1, 0, 2), (2, 0, 0, 1)]
        fails = 0
        for shp in shapes:
            for kw in ({}, {"reading_equals_prediction": True}, {"container": "list"}):
                run.native_runs += 1
                problems, sc = native(shp, run.seed, None, **kw)
                if problems:
                    fails += 1
                    run.findings.append(Finding("C05.py.native_sweep", problems[0].split("[")[0][:40], f"shape n,c,k,m={shp}: {problems[0]}", {"language": "python", "inputs": {"shape": list(shp), "seed": run.seed, "kw": kw}, "model_definition": sc.describe(), "oracle_verdict": problems[:5]}, True))
                    break
        run.bounded.append({"what": "native sensor_model on generic models (1..3 readings, unequal noise) vs exact rational textbook update; reading = prediction; inputs unmodified", "bound": f"{len(shapes)} shapes x 2 readings", "failures": fails, "counted_as_proved": False})

    # ONE state observed by a sensor with THREE readings (H is 3x1, S is 3x3) - always run
    run.native_runs += 1
    op, osc = native((1, 0, 0, 3), run.seed, None)
    run.bounded.append({"what": "native sensor_model of a one-state model with a three-reading sensor vs the exact textbook update", "bound": "1 model, one update", "failures": len(op), "counted_as_proved": False})
    for p in op[:1]:
        run.findings.append(Finding("C05.py.native_one_state_many_readings", "1xm", f"one state, three readings: {p}", {"language": "python", "inputs": {"shape": [1, 0, 0, 3], "seed": run.seed, "kw": {}}, "model_definition": osc.describe(), "oracle_verdict": op[:5]}, True))

    from checks.ekf_common import dtype_sweep, stateful_sweep

    dtype_sweep(run, "C05", ("posterior",))
    stateful_sweep(run, "C05", ('update',), run.tier == "thorough" or any(r.status != "ok" for r in run.reports) or bool(run.undecided) or bool(run.findings))


def replay_file(payload):
    inp = payload["inputs"]
    if inp.get("dtypes"):
        from checks.ekf_common import replay_dtypes

        return replay_dtypes(inp)
    if inp.get("magnitude_jacobians"):
        from checks.ekf_common import replay_magnitude

        return replay_magnitude(inp)
    if inp.get("sequence"):
        from checks.ekf_common import replay_sequence

        return replay_sequence(inp)
    problems, sc = native(inp["shape"], inp.get("seed", 0), None, **inp.get("kw", {}))
    print("replay C05:", problems[:4] if problems else "update equals the textbook Kalman correction")
    return not problems
