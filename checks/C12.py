"""C12 - every generated filter can be driven through the C++ managed runtime."""
from __future__ import annotations

import concurrent.futures as cf
import subprocess

import z3

from checks import cxx_runtime
from contracts import cppgen as G
from pvc import driver
from pvc.driver import Finding
from pvc.interp import Interp, Path, PyList
from pvc.models import Models
from pvc.sym import Unsupported,  SObj
from replay import cppgen, scenarios

PROPERTY = "C12"
EXPLANATION = (
    "Three layers. (1) The generator functions that decide the C++ interface (ast_fragments._EKF_Tag_body, standard_process_args, "
    "standard_reading_args, _StampedReadingBase_args, _Reading_sensor_model_args/_body) are executed by the pvc interpreter for all four "
    "control x calibration flag combinations (exhaustive) and their output AST is compared with the interface ManagedFilter.h requires: Tag::CalibrationT / "
    "ControlT are the struct or std::false_type exactly per flag, and the parameter lists carry `calibration` / `control` exactly per flag. (2) The runtime "
    "header's own compile-time contracts (ManagedFilter::compatible, static_asserts, SFINAE constructors, overload resolution) are discharged by the "
    "compiler: for each of the 4 combinations x {0,1,2} sensors a driver instantiating ManagedFilter<generated::ExtendedKalmanFilter> is compiled (g++, "
    "vendored Eigen stand-in) - finite and exhaustive over configurations. (3) 'ticking returns what calling prediction and update by hand returns' is "
    "C10 + C11's C++ contracts (proved from the header's AST for all four configurations); the compiled drivers additionally compare tick results with "
    "hand-made process_model / sensor_model call sequences on the generated filters."
)
ASSUMPTIONS = [
    "D-eigen: compilation and execution against the vendored Eigen stand-in, not real Eigen",
    "over programs, the generated interface depends only on the flags and the sensor schema (layer 1); the compile matrix uses one generic model per configuration",
    "C10/C11 C++ contracts (checked by their own checks) carry the behavioural half",
]
TRUSTED_BASE = ["pvc interpreter (/verif/pvc)", "g++ 12 as checker of the header's static_asserts / overload resolution", "clang 14 AST (C10/C11 part)"]

FN = "py/formak/ast_fragments.py interface fragments (4 flag combinations, exhaustive)"


class GenStub:
    pass


def interface_fragments(run):
    """Layer 1: execute the real fragment functions for the 4 flag combinations."""
    for ctl in (True, False):
        for cal in (True, False):
            I = Interp(driver.REPO, Path([]), contracts={}, models=Models())
            G.install_ast_models(I)
            mod = I.load_module("formak.ast_fragments")
            from pvc.interp import Builtin

            gen = SObj("Generator", {"enable_EKF": True, "enable_control": Builtin("enable_control", lambda I2, a, k, ctl=ctl: ctl), "enable_calibration": Builtin("enable_calibration", lambda I2, a, k, cal=cal: cal)}, "generator")
            I.inline |= {f"formak.ast_fragments:{n}" for n in ("_EKF_Tag_body", "standard_process_args", "standard_reading_args", "_StampedReadingBase_args", "_Reading_sensor_model_args", "_Reading_sensor_model_body")}
            tag = f"u{int(ctl)}c{int(cal)}"

            def items(fname, *extra):
                v = I.call(I.module_attr(mod, fname), [gen, *extra], {})
                seq = I.iter_seq(v)
                return [(n.cls, tuple(n.args), dict(n.kwargs)) for n in seq.items]

            def expect(name, ok, detail):
                ob = run.prove(f"C12.gen.{tag}.{name}", [], z3.BoolVal(bool(ok)), function=FN)
                if not ok:
                    run.findings.append(Finding(ob.name, tag, f"control={ctl}, calibration={cal}: {detail}", {"language": "python", "inputs": {"has_control": ctl, "has_calibration": cal}}, True))

            try:
                tagbody = items("_EKF_Tag_body")
                using = {a[0]: a[1] for c, a, k in tagbody if c == "UsingDeclaration"}
                expect("Tag.StateAndVarianceT", using.get("StateAndVarianceT") == "StateAndVariance", f"Tag::StateAndVarianceT is {using.get('StateAndVarianceT')}")
                expect("Tag.CalibrationT", using.get("CalibrationT") == ("Calibration" if cal else "std::false_type"), f"Tag::CalibrationT is {using.get('CalibrationT')}")
                expect("Tag.ControlT", using.get("ControlT") == ("Control" if ctl else "std::false_type"), f"Tag::ControlT is {using.get('ControlT')}")
                expect("Tag.StampedReadingBaseT", using.get("StampedReadingBaseT") == "StampedReadingBase", f"Tag::StampedReadingBaseT is {using.get('StampedReadingBaseT')}")
                mdt = [a for c, a, k in tagbody if c == "MemberDeclaration"]
                expect("Tag.max_dt_sec", mdt == [("static constexpr double", "max_dt_sec", "cpp::Config::max_dt_sec")], f"Tag max_dt_sec member is {mdt}")
                pa = [a[1] for c, a, k in items("standard_process_args")]
                expect("process_model_args", pa == ["dt", "state"] + (["calibration"] if cal else []) + (["control"] if ctl else []), f"process_model parameters are {pa}")
                ra = [a[1] for c, a, k in items("standard_reading_args")]
                expect("sensor_model_args", ra == ["state"] + (["calibration"] if cal else []) + ["reading"], f"sensor_model parameters are {ra}")
                ba = [a[1] for c, a, k in items("_StampedReadingBase_args")]
                expect("StampedReadingBase_args", ba == ["impl", "state"] + (["calibration"] if cal else []), f"StampedReadingBase::sensor_model parameters are {ba}")
                sa = [a[1] for c, a, k in items("_Reading_sensor_model_args")]
                expect("Reading_sensor_model_args", sa == ba, f"Reading::sensor_model parameters {sa} differ from the base's {ba}")
                body = items("_Reading_sensor_model_body")
                want = "impl.sensor_model(state, calibration, *this)" if cal else "impl.sensor_model(state, *this)"
                expect("Reading_sensor_model_forwards", body == [("Return", (want,), {})], f"Reading::sensor_model body is {body}")
            except Unsupported as u:
                # a construct outside the interpreter's subset is not a violation: the compile matrix below (g++ against the runtime's
                # static_asserts and overloads) still covers the four configurations
                run.undecided.append(f"C12.gen.{tag}.fragments_execute (interpreter: {u}; covered by the compile matrix only)")
            except Exception as e:
                expect("fragments_execute", False, f"{type(e).__name__}: {e}")


DRIVER = r"""
#include <formak/model.h>
#include <formak/runtime/ManagedFilter.h>
#include <cmath>
#include <cstdio>
using namespace generated;
using MF = formak::runtime::ManagedFilter<ExtendedKalmanFilter>;
static_assert(MF::compatible, "generated filter must be compatible with the managed runtime");
static double maxdiff(const StateAndVariance& a, const StateAndVariance& b) {
  double d = 0;
  for (int i = 0; i < (int)State::rows; ++i) d = std::fmax(d, std::fabs(a.state.data(i, 0) - b.state.data(i, 0)));
  for (int i = 0; i < (int)Covariance::rows; ++i) for (int j = 0; j < (int)Covariance::cols; ++j) d = std::fmax(d, std::fabs(a.covariance.data(i, j) - b.covariance.data(i, j)));
  return d;
}
int main() {
  ExtendedKalmanFilter ekf;
  StateAndVariance s0; INIT_STATE
  CAL_DECL CTL_DECL
  auto move = [&](double t0, double t1, StateAndVariance s) {
    double max_dt = t0 > t1 ? -cpp::Config::max_dt_sec : cpp::Config::max_dt_sec;
    size_t n = static_cast<size_t>(std::abs(std::floor((t1 - t0) / max_dt)));
    for (size_t i = 0; i < n; ++i) s = ekf.process_model(max_dt, s CAL_ARG CTL_ARG);
    double it = t0 + max_dt * n;
    if (std::abs(t1 - it) >= 1e-9) s = ekf.process_model(t1 - it, s CAL_ARG CTL_ARG);
    return s;
  };
  MF mf(0.0, s0 CAL_ARG);
  // tick without readings
  StateAndVariance r1 = mf.tick(0.23 CTL_ARG);
  printf("noreadings %.3g\n", maxdiff(r1, move(0.0, 0.23, s0)));
  // the held estimate did not move: a second tick gives the same answer
  StateAndVariance r1b = mf.tick(0.23 CTL_ARG);
  printf("nothing_held %.3g\n", maxdiff(r1, r1b));
  // a filter living at times well above 1 s, moved by whole steps plus a microsecond remainder, forwards and backwards
  MF far(5000.0, s0 CAL_ARG);
  StateAndVariance f1 = far.tick(5000.0 + 2 * cpp::Config::max_dt_sec + 3e-6 CTL_ARG);
  printf("large_time_forward %.3g\n", maxdiff(f1, move(5000.0, 5000.0 + 2 * cpp::Config::max_dt_sec + 3e-6, s0)) * 1e3);
  MF far2(86400.25, s0 CAL_ARG);
  StateAndVariance f2 = far2.tick(86400.25 - cpp::Config::max_dt_sec - 5e-7 CTL_ARG);
  printf("large_time_backward %.3g\n", maxdiff(f2, move(86400.25, 86400.25 - cpp::Config::max_dt_sec - 5e-7, s0)) * 1e3);
  READINGS
  return 0;
}
"""


def build_driver(sc, has_cal, has_ctl):
    AS = sorted(sc.state, key=lambda s: s.name)
    pt = sc.point(1)
    init = "s0.state = State(StateOptions{" + ", ".join(f".{s.name} = {float(pt[s]) * 0.1!r}" for s in AS) + "});"
    cal_decl = ("Calibration cal(CalibrationOptions{" + ", ".join(f".{c.name} = {float(pt[c]) * 0.1!r}" for c in sorted(sc.calibration, key=lambda s: s.name)) + "});") if has_cal else ""
    ctl_decl = ("Control ctl(ControlOptions{" + ", ".join(f".{u.name} = {float(pt[u]) * 0.1!r}" for u in sorted(sc.control, key=lambda s: s.name)) + "});") if has_ctl else ""
    readings = ""
    sensors = sorted(sc.sensor_models)
    if sensors:
        lines = ["std::vector<MF::StampedReading> rs;"]
        hand = ["StateAndVariance h = s0; double th = 0.0;"]
        times = [0.31, 0.42]
        for j, sname in enumerate(sensors):
            typ = sname.title()
            rn = sorted(sc.sensor_models[sname])
            opt = f"{typ}Options{{" + ", ".join(f".{r} = {0.05 * (i + 1 + j)!r}" for i, r in enumerate(rn)) + "}"
            lines.append(f"{typ} rd{j}({opt}); rs.push_back(MF::wrap({times[j]!r}, rd{j}));")
            hand.append(f"h = move(th, {times[j]!r}, h); th = {times[j]!r}; h = ekf.sensor_model(h CAL_ARG, rd{j});")
        lines.append("StateAndVariance r2 = mf.tick(0.5 CTL_ARG, rs);")
        hand.append("StateAndVariance want = move(th, 0.5, h);")
        lines += hand
        lines.append('printf("readings %.3g\\n", maxdiff(r2, want));')
        lines.append("StateAndVariance r3 = mf.tick(0.45 CTL_ARG);")
        lines.append('printf("held_at_last_reading %.3g\\n", maxdiff(r3, move(th, 0.45, h)));')
        readings = "\n  ".join(lines)
    else:
        # a filter without sensors still offers the readings overloads: an empty list of readings is a tick without readings
        readings = "\n  ".join([
            "std::vector<MF::StampedReading> rs;",
            "StateAndVariance r2 = mf.tick(0.5 CTL_ARG, rs);",
            'printf("readings %.3g\\n", maxdiff(r2, move(0.0, 0.5, s0)));',
        ])
    src = DRIVER.replace("INIT_STATE", init).replace("CAL_DECL", cal_decl).replace("CTL_DECL", ctl_decl).replace("READINGS", readings)
    src = src.replace("CAL_ARG", ", cal" if has_cal else "").replace("CTL_ARG", ", ctl" if has_ctl else "")
    return src


def matrix_generate(args):
    """Phase 1 (sequential: the generator needs the process-wide cwd): generate header/source and the driver."""
    has_ctl, has_cal, n_sensors, seed = args
    sens = [[], [2], [1, 2]][n_sensors]
    sc = scenarios.Scenario(2, 1 if has_cal else 0, 1 if has_ctl else 0, sens, seed=seed)
    # keep the dynamics tame so that hand-run and runtime agree to rounding
    for s in sc.state:
        sc.state_model[s] = s + sc.dt * sum((0.25 * v for v in sc.state + sc.control + sc.calibration), 0) - sc.dt * s * 0.5
    try:
        header, source, gen = cppgen.generate(sc, innovation_filtering=None)
    except BaseException as e:
        return args, None, [f"generator raised {type(e).__name__}: {e}"]
    return args, (header, source, build_driver(sc, has_cal, has_ctl), bool(sens)), []


def matrix_build(item):
    """Phase 2 (parallel): compile against the stand-in and run."""
    args, payload, problems = item
    if payload is None:
        return args, problems
    header, source, drv, has_sens = payload
    ok, exe, tmp = cppgen.build(header, source, drv)
    if not ok:
        return args, [f"does not compile: {exe[-700:]}"]
    out = subprocess.run([exe], capture_output=True, text=True, timeout=120)
    tmp.cleanup()
    problems = []
    seen = set()
    for ln in out.stdout.splitlines():
        k, v = ln.split()
        seen.add(k)
        if not float(v) <= 1e-9:
            problems.append(f"{k}: tick result differs from the hand-made call sequence by {v}")
    want = {"noreadings", "nothing_held", "large_time_forward", "large_time_backward"} | ({"readings", "held_at_last_reading"} if has_sens else {"readings"})
    if out.returncode != 0 or want - seen:
        problems.append(f"driver failed (exit {out.returncode}, missing {sorted(want - seen)}): {out.stderr[-300:]}")
    return args, problems


def matrix_case(args):
    return matrix_build(matrix_generate(args))


def check(run):
    interface_fragments(run)
    run.exhaustive = True
    cases = [(c, k, n, run.seed) for c in (True, False) for k in (True, False) for n in (0, 1, 2)]
    generated = [matrix_generate(c) for c in cases]
    with cf.ThreadPoolExecutor(6) as ex:
        results = list(ex.map(matrix_build, generated))
    for (has_ctl, has_cal, n_sensors, seed), problems in results:
        run.native_runs += 1
        ob = run.add_obligation(f"C12.instantiate.u{int(has_ctl)}c{int(has_cal)}.sensors{n_sensors}", "proved" if not problems else "refuted", "g++ 12 (static_assert / overload resolution) + run", detail=problems[:2], kind="property")
        if problems:
            run.findings.append(Finding(f"C12.instantiate.u{int(has_ctl)}c{int(has_cal)}.sensors{n_sensors}", f"u{int(has_ctl)}c{int(has_cal)}", f"generated filter with control={has_ctl}, calibration={has_cal}, {n_sensors} sensor(s) through ManagedFilter: {problems[0]}", {"language": "c++", "inputs": {"has_control": has_ctl, "has_calibration": has_cal, "n_sensors": n_sensors, "seed": seed}, "oracle_verdict": problems[:3]}, True))
    run.extra["compile_matrix"] = "4 control x calibration combinations x {0,1,2} sensors = 12 drivers compiled and run"
    # behavioural half: C10 / C11 C++ contracts for all four configurations
    cxx_runtime.check_c10(run)
    cxx_runtime.check_c11(run)
    cxx_runtime.check_constructors(run, "C12")
    from checks import cxx_filter

    cxx_filter.config_max_dt_literal(run, "C12")


def replay_file(payload):
    if (payload.get("inputs") or {}).get("config_literal"):
        from checks import cxx_filter
        from pvc import driver as _d

        r = _d.PropertyRun("C12", "quick", 0)
        cxx_filter.config_max_dt_literal(r, "C12")
        print("replay config literal:", [f.what for f in r.findings][:2] or "exact")
        return not r.findings
    inp = payload["inputs"]
    if payload.get("configuration") and "t1" in inp:
        return cxx_runtime.replay_c10(payload)
    if "n_sensors" in inp:
        _, problems = matrix_case((inp["has_control"], inp["has_calibration"], inp["n_sensors"], inp.get("seed", 0)))
        print("replay C12:", problems[:2] or "compiles, ticks equal the hand-made call sequence")
        return not problems
    run = driver.PropertyRun("C12", "quick", 0)
    interface_fragments(run)
    for f in run.findings:
        print("replay C12:", f.what)
    return not run.findings
