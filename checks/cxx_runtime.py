"""C++ halves of C10 / C11 (and the runtime part of C12): ManagedFilter.h through clang's AST."""
from __future__ import annotations

import json
import os
import subprocess
import tempfile

import z3

from contracts import cxxrt
from pvc import driver, smt
from pvc.driver import Finding

CONFIGS = [(True, False), (True, True), (False, True), (False, False)]


def lowered(has_control, has_calibration):
    return cxxrt.Lowered(driver.REPO, has_control, has_calibration)


def callees(low):
    c = dict(cxxrt.CXX_IMPL)
    for k in (0, 1):
        pu = cxxrt.ProcessUpdate(low, k)
        c[pu.key] = pu
    return c


# -- native replay: compile the REAL header with a recording Impl ---------------------------------

DRIVER = r"""
#include <formak/runtime/ManagedFilter.h>
#include <cstdio>
#include <vector>
#include <string>
struct Est { std::vector<std::string> log; };
struct Cal { int id = 7; };
struct Ctl { int id = 3; };
static std::vector<std::string> CALLS;
struct Impl;
struct ReadingBase {
  virtual ~ReadingBase() = default;
  int key = 0;
  #if HAS_CAL
  virtual Est sensor_model(const Impl& impl, const Est& e, const Cal& c) const {
  #else
  virtual Est sensor_model(const Impl& impl, const Est& e) const {
  #endif
    char buf[64]; snprintf(buf, sizeof buf, "sm %d", key); CALLS.push_back(buf);
    Est r = e; r.log.push_back(buf); return r; }
};
struct Impl {
  struct Tag {
    using StateAndVarianceT = Est;
    #if HAS_CAL
    using CalibrationT = Cal;
    #else
    using CalibrationT = std::false_type;
    #endif
    #if HAS_CTL
    using ControlT = Ctl;
    #else
    using ControlT = std::false_type;
    #endif
    using StampedReadingBaseT = ReadingBase;
    static constexpr TAG_T max_dt_sec = MAX_DT;  // (double in generated code; the runtime's own compatibility test accepts any positive constant)
  };
  Est process_model(double dt, const Est& e
    #if HAS_CAL
    , const Cal& c
    #endif
    #if HAS_CTL
    , const Ctl& u
    #endif
  ) const {
    char buf[64]; snprintf(buf, sizeof buf, "pm %.17g", dt); CALLS.push_back(buf);
    Est r = e; r.log.push_back(buf); return r; }
};
using MF = formak::runtime::ManagedFilter<Impl>;
static_assert(MF::compatible);
int main() {
  #if HAS_CAL
  MF mf(T0, Est{}, Cal{});
  #else
  MF mf(T0, Est{});
  #endif
  SCRIPT
  return 0;
}
"""


def run_cxx(has_control, has_calibration, t0, max_dt, script, tag_type="double"):
    """script: list of ('tick', t_out, readings|None) ; returns (ok, lines | compiler error)."""
    body = []
    for k, (kind, t_out, readings) in enumerate(script):
        args = [repr(float(t_out))]
        if has_control:
            args.append("Ctl{}")
        if readings is not None:
            body.append(f"std::vector<MF::StampedReading> rs{k};")
            for j, (ts, key) in enumerate(readings):
                body.append(f"{{ ReadingBase r; r.key = {int(key)}; rs{k}.push_back(MF::wrap({float(ts)!r}, r)); }}")
            args.append(f"rs{k}")
        body.append(f"CALLS.clear(); {{ Est out = mf.tick({', '.join(args)}); printf(\"TICK {k}\\n\"); for (auto& c : CALLS) printf(\"CALL %s\\n\", c.c_str()); printf(\"RESULT\"); for (auto& c : out.log) printf(\"|%s\", c.c_str()); printf(\"\\n\"); }}")
    src = DRIVER.replace("SCRIPT", "\n  ".join(body))
    with tempfile.TemporaryDirectory(prefix="pvc-cxx-") as d:
        p = os.path.join(d, "drv.cpp")
        open(p, "w").write(src)
        exe = os.path.join(d, "drv")
        cmd = ["g++", "-std=c++20", "-O0", "-w", "-I", os.path.join(driver.REPO, "cpp/runtime/include"), f"-DHAS_CAL={int(has_calibration)}", f"-DHAS_CTL={int(has_control)}", f"-DMAX_DT={float(max_dt)!r}" if tag_type != "int" else f"-DMAX_DT={int(max_dt)}", f"-DTAG_T={tag_type}", f"-DT0={float(t0)!r}", p, "-o", exe]
        c = subprocess.run(cmd, capture_output=True, text=True, timeout=300)
        if c.returncode != 0:
            return False, c.stderr[-1500:]
        r = subprocess.run([exe], capture_output=True, text=True, timeout=120)
        return True, r.stdout.splitlines()


def native_c10(has_control, has_calibration, t0, t1, mx, tag_type="double"):
    """tag_type: the declared type of Impl::Tag::max_dt_sec (float: mx is taken as the float32 nearest to it; int: a whole number)"""
    from checks.C10 import stepping_ok

    ok, out = run_cxx(has_control, has_calibration, t0, mx, [("tick", t1, None)], tag_type=tag_type)
    if tag_type == "float":
        import numpy as _np

        mx = float(_np.float32(mx))
    if not ok:
        return False, f"does not compile for control={has_control}, calibration={has_calibration}: {out[-300:]}", []
    steps = [float(l.split()[2]) for l in out if l.startswith("CALL pm")]
    good, why = stepping_ok(t0, t1, mx, steps)
    if good:
        # the returned estimate must be the held estimate with exactly these steps applied, in this order
        res = [l for l in out if l.startswith("RESULT")]
        chain = res[0].split("|")[1:] if res else None
        calls = [l[5:] for l in out if l.startswith("CALL pm")]
        if chain != calls:
            good, why = False, f"the returned estimate is not the held estimate propagated through the issued steps in order (estimate history {chain}, steps issued {calls})"
    return good, why, steps


def triage_c10(run, rep, low):
    hc, hk = low.flags["HAS_CONTROL"], low.flags["HAS_CALIBRATION"]
    for ob, model0, definitive in driver.refuted(run, rep):
        t0, t1, mx = z3.Real("t0"), z3.Real("t1"), z3.Real("max_dt_sec")
        model = model0
        r = smt.prove(ob.hyps + [mx >= z3.RealVal("1/100"), mx <= 1, t0 >= -4, t0 <= 4, t1 >= -4, t1 <= 4], ob.goal, timeout_ms=4000)
        if r.status == "sat" and r.model is not None:
            model = r.model
        vals = driver.model_values(model, ["t0", "t1", "max_dt_sec"])
        payload = {"language": "c++", "function": rep.key, "configuration": {"has_control": hc, "has_calibration": hk}, "solver_result": "sat", "counter_model": smt.model_to_dict(model), "inputs": vals, "note": ob.note}
        confirmed = False
        what = f"{ob.name} refuted" + (f" ({ob.note})" if ob.note else "")
        a, b, c = vals.get("t0"), vals.get("t1"), vals.get("max_dt_sec")
        if "call_well_formed" in ob.name or None in (a, b, c) or not c or c <= 0:
            a, b, c = 0.0, 0.23, 0.05
            payload["inputs"] = {"t0": a, "t1": b, "max_dt_sec": c}
        if abs(b - a) / c < 2e5:
            run.native_runs += 1
            good, why, steps = native_c10(hc, hk, a, b, c)
            if good:
                # second chance on standard horizons: several full steps plus a remainder, forwards and backwards
                for a2, b2, c2 in ((0.0, 0.25, 0.1), (1.0, 0.77, 0.05)):
                    run.native_runs += 1
                    good, why, steps = native_c10(hc, hk, a2, b2, c2)
                    if not good:
                        a, b, c = a2, b2, c2
                        payload["inputs"] = {"t0": a, "t1": b, "max_dt_sec": c}
                        break
            payload.update({"native_steps": steps[:40], "oracle_verdict": why})
            confirmed = not good
            if confirmed:
                what = f"C++ ManagedFilter (control={hc}, calibration={hk}) from t={a} to t={b} with max_dt_sec={c}: {why} (steps {steps[:6]})"
        kind = "helper" if ".helper." in ob.name else "property"
        if (kind == "helper" or not definitive) and not confirmed:
            run.undecided.append(ob.name)
            continue
        sig = ("forward" if b > a else "backward") if "call_well_formed" not in ob.name else f"u{int(hc)}c{int(hk)}"
        run.findings.append(Finding(ob.name, sig, what, payload, confirmed, theory=ob.theory))


def check_c10(run):
    run.functions.append("cpp/runtime/include/formak/runtime/ManagedFilter.h (clang JSON AST -> pvc)")
    shown = False
    for hc, hk in CONFIGS:
        low = lowered(hc, hk)
        if not shown:
            run.samples.append({"lowered_python_of_ManagedFilter_h": low.source[:3500]})
            shown = True
        for k in (0, 1):
            c = cxxrt.ProcessUpdate(low, k)
            rep = run.verify(c, dict(cxxrt.CXX_IMPL))
            rep.dropped |= low.dropped
            triage_c10(run, rep, low)


def replay_c10(payload):
    cfg = payload["configuration"]
    inp = payload["inputs"]
    good, why, steps = native_c10(cfg["has_control"], cfg["has_calibration"], inp["t0"], inp["t1"], inp["max_dt_sec"], inp.get("tag_type", "double"))
    print(f"replay C++ processUpdate {cfg} {inp}: steps={steps[:12]} -> {why}")
    return good


# -- C11 ----------------------------------------------------------------------------------------


def native_c11(has_control, has_calibration, t0, mx, ticks):
    """ticks: [(t_out, [(ts, key)] | None)].  Oracle: per-tick fold with stepping_ok groups; result = held + final move, not held."""
    from checks.C10 import stepping_ok

    ok, out = run_cxx(has_control, has_calibration, t0, mx, [("tick", t, rs) for t, rs in ticks])
    if not ok:
        return False, f"does not compile for control={has_control}, calibration={has_calibration}: {out[-300:]}"
    blocks, cur = [], None
    for l in out:
        if l.startswith("TICK"):
            cur = {"calls": [], "result": None}
            blocks.append(cur)
        elif l.startswith("CALL "):
            cur["calls"].append(l[5:])
        elif l.startswith("RESULT"):
            cur["result"] = [x for x in l.split("|")[1:]]
    held_t, held_log = t0, []
    for (t_out, rs), blk in zip(ticks, blocks):
        calls = blk["calls"]
        pos = 0
        for ts, key in rs or []:
            steps = []
            while pos < len(calls) and calls[pos].startswith("pm"):
                steps.append(float(calls[pos].split()[1]))
                pos += 1
            good, why = stepping_ok(held_t, ts, mx, steps)
            if not good:
                return False, f"move to reading at {ts}: {why}"
            held_log = held_log + [f"pm {s:.17g}" for s in steps]
            if pos >= len(calls) or calls[pos] != f"sm {int(key)}":
                return False, f"expected sensor update {key} after moving to {ts}, got {calls[pos] if pos < len(calls) else None}"
            held_log = held_log + [calls[pos]]
            pos += 1
            held_t = ts
        steps = [float(c.split()[1]) for c in calls[pos:] if c.startswith("pm")]
        if len(steps) != len(calls[pos:]):
            return False, f"unexpected calls after the last reading: {calls[pos:]}"
        good, why = stepping_ok(held_t, t_out, mx, steps)
        if not good:
            return False, f"move to output time {t_out}: {why}"
        want = held_log + [f"pm {s:.17g}" for s in steps]
        if blk["result"] != want:
            return False, f"tick result is not the held estimate moved to the output time (got {blk['result']}, expected {want})"
    return True, "ok"


def triage_c11(run, rep, low, contract):
    hc, hk = low.flags["HAS_CONTROL"], low.flags["HAS_CALIBRATION"]
    for ob, model, definitive in driver.refuted(run, rep):
        payload = {"language": "c++", "function": rep.key, "configuration": {"has_control": hc, "has_calibration": hk}, "solver_result": "sat", "counter_model": smt.model_to_dict(model), "note": ob.note}
        confirmed = False
        what = f"{ob.name} refuted" + (f" ({ob.note})" if ob.note else "")
        scenarios = [
            [(0.3, [(0.1, 1), (0.25, 2)]), (0.2, None), (0.5, [(0.45, 1)])],
            [(0.3, [(0.25, 2), (0.1, 1)]), (0.1, None)],
            [(0.17, None), (0.05, [(0.3, 1)])],
        ]
        for sc in scenarios:
            run.native_runs += 1
            good, why = native_c11(hc, hk, 0.0, 0.05, sc)
            if not good:
                confirmed = True
                payload["inputs"] = {"t0": 0.0, "max_dt_sec": 0.05, "ticks": sc}
                payload["oracle_verdict"] = why
                what = f"C++ ManagedFilter (control={hc}, calibration={hk}) history {sc}: {why}"
                break
        if not confirmed and (not definitive or ob.theory == "euf"):
            run.undecided.append(ob.name)
            continue
        run.findings.append(Finding(ob.name, f"u{int(hc)}c{int(hk)}", what, payload, confirmed, theory=ob.theory))


def check_c11(run):
    run.functions.append("cpp/runtime/include/formak/runtime/ManagedFilter.h (clang JSON AST -> pvc)")
    for hc, hk in CONFIGS:
        low = lowered(hc, hk)
        cs = callees(low)
        for k in range(4):
            c = cxxrt.Tick(low, k)
            c.inline = tuple(f"{low.modname}:ManagedFilter.tick_{j}" for j in range(4))
            rep = run.verify(c, cs)
            rep.dropped |= low.dropped
            triage_c11(run, rep, low, c)


def check_constructors(run, pid="C12"):
    """The two SFINAE-selected constructors establish the representation invariant the tick / processUpdate contracts assume."""
    for hc, hk in CONFIGS:
        low = lowered(hc, hk)
        n = len(low.methods.get("construct", []))
        ob = run.prove(f"{pid}.cxx.constructors_found[u{int(hc)}c{int(hk)}]", [], z3.BoolVal(n == 2), function="cpp/runtime/include/formak/runtime/ManagedFilter.h (clang JSON AST -> pvc)")
        if n != 2:
            run.undecided.append(f"{ob.name}: {n} constructors with a body found (the contracts were written for two)")
        for k in range(n):
            c = cxxrt.Construct(low, k)
            c.prefix = c.prefix.replace("C12.", pid + ".")
            rep = run.verify(c, {})
            rep.dropped |= low.dropped
            for ob, model, definitive in driver.refuted(run, rep):
                # natively: a filter constructed at a non-zero time must start moving from that time
                good, why, steps = native_c10(hc, hk, 2.0, 2.23, 0.05)
                run.native_runs += 1
                run.findings.append(Finding(ob.name, "constructor", f"{ob.name} fails on the lowered constructor ({getattr(ob, 'note', '') or ''}); a filter constructed at t=2.0 and moved to 2.23: {why}", {"language": "c++", "configuration": {"has_control": hc, "has_calibration": hk}, "inputs": {"t0": 2.0, "t1": 2.23, "max_dt_sec": 0.05}}, not good, theory=ob.theory))


def replay_c11(payload):
    cfg = payload["configuration"]
    inp = payload.get("inputs") or {"t0": 0.0, "max_dt_sec": 0.05, "ticks": [(0.3, [(0.1, 1), (0.25, 2)]), (0.2, None)]}
    good, why = native_c11(cfg["has_control"], cfg["has_calibration"], inp["t0"], inp["max_dt_sec"], [(t, [tuple(r) for r in rs] if rs is not None else None) for t, rs in inp["ticks"]])
    print(f"replay C++ tick {cfg}: {why}")
    return good
