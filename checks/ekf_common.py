"""Shared pieces of the C04/C05/C06 checks."""
from __future__ import annotations

import z3

from pvc import driver, smt
from pvc.driver import Finding

COMMON_ASSUMPTIONS = [
    "A-REAL: floats as reals; D-np: numpy model (matmul/inv uninterpreted with shape rules, transpose/+/-/* transparent with broadcasting, size-1 arrays as scalars A-NP1)",
    "D-lam: BasicBlock.execute evaluates its expressions under the environment of its positional arguments (C01.3)",
    "representation invariant of the filter object (contracts/pyekf.py docstring) - established by the constructor contracts",
    "accepted models: symbols pairwise distinct, names distinct (so named inputs determine an environment E)",
    "S = H P H^T + Q invertible (Q positive definite): np.linalg.inv does not raise",
]
TRUSTED = ["pvc (own VC generator: /verif/pvc)", "z3 5.1 (E-matching on quantified dict/set axioms)", "python ast module"]


def nice_sizes(ob, fallback, bound=3):
    n, c, k, m = z3.Int("n_state"), z3.Int("n_calibration"), z3.Int("n_control"), z3.Int("n_readings")
    for b in (bound, 5):
        r = smt.prove(ob.hyps + [n <= b, c <= b, k <= b, m <= b, n >= 1], ob.goal, timeout_ms=4000)
        if r.status == "sat" and r.model is not None:
            return r.model
        if getattr(r, "candidate_model", None) is not None:
            return r.candidate_model
    return fallback


def triage_generic(run, rep, native_fn, sig_prefix, extra_native=()):
    """Refuted obligation -> minimal sizes -> native run of the real code against the textbook oracle.
    EUF-level refutations that do not reproduce natively are recorded as undecided (abstraction too coarse)."""
    for ob, model0, definitive in driver.refuted(run, rep):
        model = nice_sizes(ob, model0)
        v = driver.model_values(model, ["n_state", "n_calibration", "n_control", "n_readings"])
        shape = [max(int(v.get("n_state") or 1), 1), int(v.get("n_calibration") or 0), int(v.get("n_control") or 0), max(int(v.get("n_readings") or 1), 1)]
        payload = {"language": "python", "function": rep.key, "solver_result": "sat", "counter_model": smt.model_to_dict(model), "inputs": {"shape": shape, "seed": run.seed}}
        confirmed = False
        what = f"{ob.name} refuted (sizes n,c,k,m = {shape})"
        # replay: the solver's sizes first, then standard generic shapes, then any extra native scenarios
        tries = ([shape] if max(shape) <= 6 else []) + [[3, 1, 2, 2], [2, 0, 1, 3]]
        fns = [native_fn] * len(tries) + list(extra_native)
        tries = tries + [None] * len(extra_native)
        for shp, fn in zip(tries, fns):
            try:
                run.native_runs += 1
                res = fn(shp, run.seed) if shp is not None else fn()
                problems, sc = res[0], res[1]
                if not problems and shp is not None:
                    # same shape, symbols declared in lists in reverse name order
                    try:
                        res2 = fn(shp, run.seed, container="list")
                        if res2[0]:
                            problems, sc = res2[0], res2[1]
                    except TypeError:
                        pass
                if problems:
                    payload["model_definition"] = sc.describe()
                    payload["oracle_verdict"] = problems[:6]
                    payload["inputs"] = dict(getattr(fn, "replay_inputs", None) or {"shape": shp, "seed": run.seed, "extra_scenario": shp is None})
                    confirmed = True
                    what = (f"model with n,c,k,m={shp}: " if shp is not None else "") + problems[0]
                    break
            except Exception as e:
                payload["replay_error"] = repr(e)
        if not confirmed and (ob.theory == "euf" or not definitive):
            run.undecided.append(ob.name + " (refuted over uninterpreted algebra only; native runs agree with the spec)")
            continue
        run.findings.append(Finding(ob.name, sig_prefix, what, payload, confirmed, theory=ob.theory))


def magnitude_native(seed):
    """extra native scenario for the constructor contracts: |v| terms on symbols without assumptions (python back-end)"""

    def run_it():
        from checks import C03

        return C03.native_jacobians(3, 1, 2, 2, seed=seed, magnitude=True)

    run_it.replay_inputs = {"magnitude_jacobians": True, "shape": [3, 1, 2, 2], "seed": seed}
    return run_it


def replay_magnitude(inp):
    from checks import C03

    problems, sc = C03.native_jacobians(*inp["shape"], seed=inp.get("seed", 0), magnitude=True)
    print("replay Jacobians of a model with |v| terms:", problems[:4] if problems else "all Jacobian entries equal the exact partial derivatives")
    return not problems


def noise_contracts(prefix):
    from contracts import pyekf

    return [pyekf.ConstructProcessNoise()]


def stateful_sweep(run, pid, prefixes, escalate):
    """Bounded, STATEFUL native stand-in shared by C03-C06: one filter instance driven through a sequence of calls at different
    points (replay/kalman.native_sequence); only the problems that belong to this property (by prefix) are reported."""
    from replay import kalman

    # (linear model?, editing threshold, symbols declared with sympy assumptions?)
    # (linear model?, editing threshold, symbols with sympy assumptions?, scale of prior and sensor noise)
    # (linear model?, editing threshold, symbols with sympy assumptions?, scale of prior and sensor noise, |.| terms on plain symbols?)
    # (linear model?, editing threshold, symbols with sympy assumptions?, scale of prior and noises, |.| terms on plain symbols?, redundant entries?)
    variants = [(True, 3.0, False, None, False, False), (False, 3, True, None, False, False), (False, None, False, 1e-12, False, False), (False, 3.0, False, None, True, False), (False, 3.0, False, None, False, True)] + ([(True, None, True, None, False, False), (False, 0.5, False, None, False, False), (False, 3.0, False, 1e-9, False, False), (False, None, False, 1e-9, False, False), (False, None, False, None, True, False), (True, None, False, None, False, True)] if escalate else [])
    fails = 0
    for linear, k_edit, assume, scale, magnitude, redundant in variants:
        run.native_runs += 1
        problems, sc = kalman.native_sequence(run.seed, linear=linear, k_edit=k_edit, assumptions=assume, scale=scale, magnitude=magnitude, redundant=redundant)
        mine = [p for p in problems if p.startswith(tuple(prefixes)) or p.startswith(("constructing", "sequence raised"))]
        if mine:
            fails += 1
            run.findings.append(Finding(f"{pid}.py.native_sequence", "stateful", f"one filter instance, {'linear' if linear else 'generic'} model{' with real/positive symbols' if assume else ''}{' with |v| terms on symbols without assumptions' if magnitude else ''}{' with two identical readings and two identical state updates' if redundant else ''}, editing threshold {k_edit}{f', prior and noises scaled by {scale}' if scale else ''}: {mine[0]}", {"language": "python", "inputs": {"sequence": True, "seed": run.seed, "linear": linear, "k_edit": k_edit, "assumptions": assume, "scale": scale, "magnitude": magnitude, "redundant": redundant}, "model_definition": sc.describe(), "oracle_verdict": mine[:6]}, True))
            break
    run.bounded.append({"what": "stateful native sequence on ONE filter instance (two sensors of different reading dimension): Jacobians at three points with different dt, predictions at dt in {dt, 0, dt/2, 2^-40, -dt, -dt/4}, a chain of three predictions fed back into each other (inputs and earlier outputs must not change), six alternating near/far sensor updates; each result against the exact oracle at its own inputs", "bound": f"{len(variants)} sequences (linear and generic models)", "failures": fails, "counted_as_proved": False})
    return fails


def dtype_sweep(run, pid, words):
    """Bounded: inputs of integer / float32 dtype (built with from_data) through prediction and update, vs the exact oracle; only
    the problems mentioning one of `words` ('predicted', 'posterior') belong to this property."""
    from replay import kalman

    run.native_runs += 1
    problems, sc = kalman.native_dtypes(run.seed)
    mine = [p for p in problems if any(w in p for w in words) or p.startswith("constructing the filter") or "inputs: " in p and ":" in p.split("inputs: ", 1)[1][:40] and not any(k in p for k in ("predicted", "posterior"))]
    run.bounded.append({"what": "state / covariance / reading of dtype int64, float32 and int32 (from_data) through process_model and sensor_model of the real filter vs the exact oracle at the same values", "bound": "1 model x 3 dtypes", "failures": len(mine), "counted_as_proved": False})
    for p in mine[:1]:
        run.findings.append(Finding(f"{pid}.py.native_dtypes", "dtype", p, {"language": "python", "inputs": {"dtypes": True, "seed": run.seed}, "model_definition": sc.describe(), "oracle_verdict": mine[:4]}, True))
    return mine


def replay_dtypes(inp):
    from replay import kalman

    problems, sc = kalman.native_dtypes(inp.get("seed", 0))
    print("replay inputs of integer / float32 dtype:", problems[:3] or "every result equals the oracle's")
    return not problems


def replay_sequence(inp):
    from replay import kalman

    problems, sc = kalman.native_sequence(inp.get("seed", 0), linear=inp.get("linear", False), k_edit=inp.get("k_edit"), assumptions=inp.get("assumptions", False), scale=inp.get("scale"), magnitude=inp.get("magnitude", False), redundant=inp.get("redundant", False))
    print("replay stateful sequence:", problems[:4] or "every call agrees with the oracle")
    return not problems
