import importlib
import os
import sys

HERE = os.path.dirname(os.path.dirname(os.path.abspath(__file__)))
sys.path.insert(0, HERE)

def main():
    if len(sys.argv) < 2:
        print("usage: ./check <ID> [--tier quick|thorough] [--replay file]")
        sys.exit(3)
    pid = sys.argv[1]
    try:
        mod = importlib.import_module(f"checks.{pid}")
    except ModuleNotFoundError as e:
        print(f"CHECKER-ERROR: no check module for {pid}: {e}")
        sys.exit(3)
    from pvc import driver
    driver.main(mod)

main()
