"""Checks of the templated generated C++ filter (C07; C06 C++ half)."""
from __future__ import annotations

import multiprocessing as mp
import os
import re

import z3

from contracts import cxxekf
from pvc import driver, smt
from pvc.driver import Finding
from pvc.sym import Mat, Unsupported
from replay import cppgen, cxxcompare, scenarios
from replay.native import REPO

CONFIGS = [(True, True), (True, False), (False, True), (False, False)]
FN_T = "py/formak/templates/{process_model.cpp, sensor_model.hpp, innovations.hpp} rendered by the generator (clang JSON AST -> pvc)"
HELPER_FN = "cpp/include/formak/innovation_filtering.h:removeInnovation"
FN_H = "cpp/include/formak/innovation_filtering.h (clang JSON AST -> pvc)"


def _lower(cfg):
    try:
        low = cxxekf.LoweredFilter(REPO, *cfg)
        return ("ok", low.__dict__)
    except Unsupported as e:
        return ("unsupported", str(e))
    except Exception as e:  # generation / clang failure: reported, never a violation by itself
        return ("error", f"{type(e).__name__}: {(str(e).splitlines() or [''])[0][:300]}")


def lowered_all():
    ctx = mp.get_context("fork")
    with ctx.Pool(4) as pool:
        res = pool.map(_lower, CONFIGS)
    out = {}
    for cfg, (st, val) in zip(CONFIGS, res):
        if st == "ok":
            low = cxxekf.LoweredFilter.__new__(cxxekf.LoweredFilter)
            low.__dict__.update(val)
            cxxekf.LoweredFilter.cache[(REPO, low.cfg)] = low
            out[cfg] = low
        else:
            out[cfg] = (st, val)
    return out


def shape_for(hc, hk, t=0):
    opts = [(2, int(hk), int(hc), [2]), (3, 2 * int(hk), 2 * int(hc), [1, 2]), (2, int(hk), int(hc), [3])]
    return opts[t % len(opts)]


def native_disagreement(run, hc, hk, tries=2):
    """Python filter vs compiled generated C++ on scenarios of this configuration; returns (problems, payload) or (None, None)."""
    for t in range(tries):
        shp = shape_for(hc, hk, t)
        for k_edit in (3.0 if t % 2 == 0 else 3, None):  # a whole threshold given as an int on every other model
            sc = scenarios.Scenario(*shp, seed=run.seed + 13 * t, share_reading=True)
            run.native_runs += 1
            problems, det = cxxcompare.compare(sc, k_edit=k_edit, seed=run.seed + t)
            if problems:
                return problems, {"language": "python+c++", "inputs": {"shape": list(shp), "seed": run.seed + 13 * t, "point_seed": run.seed + t, "k_edit": k_edit, "cse": True, "share_reading": True}, "model_definition": sc.describe(), "oracle_verdict": problems[:6]}
    return None, None


def lowering_failed(run, cfg, low, pid):
    """The rendered C++ is outside the lowered subset (or does not parse): undecided obligation + bounded native comparison."""
    name = f"{pid}.cxx.lowering[u{int(cfg[0])}c{int(cfg[1])}]"
    run.add_obligation(name, "undecided", "front_cxx", detail=low[1])
    run.undecided.append(f"{name}: {low[1]}")
    problems, payload = native_disagreement(run, cfg[0], cfg[1])
    run.bounded.append({"what": f"native python-vs-C++ comparison for control={cfg[0]}, calibration={cfg[1]} (lowering failed: {low[1][:120]})", "bound": "2 programs x {3.0, disabled}", "failures": 1 if problems else 0, "counted_as_proved": False})
    if problems:
        run.findings.append(Finding(name, "cxx", f"rendered C++ outside the lowered subset; natively: {problems[0]}", payload, True))


def helper_battery(run):
    """removeInnovation<m> compiled (g++, stand-in) at EXACT boundary points: m=2,k=1.5 -> threshold 5 exactly; m=8,k=0.5 -> 10 exactly."""
    import subprocess

    drv = r"""
#include <formak/innovation_filtering.h>
#include <cstdio>
using namespace formak::innovation_filtering::edit;
template <int m> Eigen::Matrix<double, m, m> ident() { Eigen::Matrix<double, m, m> I = Eigen::Matrix<double, m, m>::Zero(); for (int i = 0; i < m; ++i) I(i, i) = 1.0; return I; }
// IEEE boundary grid: with nu = e_1 and S_inv = diag(x, 1, ..., 1) the NIS is exactly x; the bound is computed as the property writes it
template <int m> int grid(double k) {
  double b = k * std::sqrt(2 * m) + m;
  Eigen::Matrix<double, m, 1> nu = Eigen::Matrix<double, m, 1>::Zero(); nu(0, 0) = 1.0;
  double xs[3] = {b, std::nextafter(b, 1e300), std::nextafter(b, -1e300)};
  int want[3] = {0, 1, 0}, bad = 0;
  for (int i = 0; i < 3; ++i) { Eigen::Matrix<double, m, m> S = ident<m>(); S(0, 0) = xs[i];
    if ((int)removeInnovation<m>(k, nu, S) != want[i]) { printf("gridfail m=%d k=%g case=%d\n", m, k, i); ++bad; } }
  return bad;
}
int main() {
  { double ks[9] = {0.25, 0.5, 1.0, 1.5, 2.0, 3.0, 5.0, 0.1, 7.3}; int bad = 0;
    for (double k : ks) bad += grid<1>(k) + grid<2>(k) + grid<3>(k) + grid<4>(k) + grid<5>(k) + grid<6>(k) + grid<8>(k);
    printf("grid %d\n", bad); }
  { Eigen::Matrix<double, 2, 1> nu; nu(0, 0) = 1.0; nu(1, 0) = 2.0; printf("at2 %d\n", (int)removeInnovation<2>(1.5, nu, ident<2>())); }
  { Eigen::Matrix<double, 2, 1> nu; nu(0, 0) = 1.0; nu(1, 0) = 2.0009765625; printf("above2 %d\n", (int)removeInnovation<2>(1.5, nu, ident<2>())); }
  { Eigen::Matrix<double, 2, 1> nu; nu(0, 0) = 1.0; nu(1, 0) = 1.9990234375; printf("below2 %d\n", (int)removeInnovation<2>(1.5, nu, ident<2>())); }
  { Eigen::Matrix<double, 8, 1> nu = Eigen::Matrix<double, 8, 1>::Zero(); nu(0, 0) = 1.0; nu(5, 0) = 3.0; printf("at8 %d\n", (int)removeInnovation<8>(0.5, nu, ident<8>())); }
  { Eigen::Matrix<double, 8, 1> nu = Eigen::Matrix<double, 8, 1>::Zero(); nu(0, 0) = 1.0; nu(5, 0) = 3.0; nu(7, 0) = 0.03125; printf("above8 %d\n", (int)removeInnovation<8>(0.5, nu, ident<8>())); }
  { Eigen::Matrix<double, 1, 1> nu; nu(0, 0) = 10.0; Eigen::Matrix<double, 1, 1> s; s(0, 0) = 0.5; printf("scaled1 %d\n", (int)removeInnovation<1>(3.0, nu, s)); }
  { Eigen::Matrix<double, 1, 1> nu; nu(0, 0) = 2.0; Eigen::Matrix<double, 1, 1> s; s(0, 0) = 0.5; printf("inside1 %d\n", (int)removeInnovation<1>(3.0, nu, s)); }
  return 0; }
"""
    want = {"grid": 0, "at2": 0, "above2": 1, "below2": 0, "at8": 0, "above8": 1, "scaled1": 1, "inside1": 0}
    import tempfile

    with tempfile.TemporaryDirectory(prefix="formak-helper-") as d:
        open(os.path.join(d, "drv.cpp"), "w").write(drv)
        c = subprocess.run(["g++", "-std=c++20", "-O0", "-w", "-I", cppgen.STANDIN, "-I", os.path.join(REPO, "cpp/include"), os.path.join(d, "drv.cpp"), "-o", os.path.join(d, "drv")], capture_output=True, text=True, timeout=300)
        if c.returncode != 0:
            return [f"helper does not compile against the stand-in: {c.stderr[-300:]}"]
        out = subprocess.run([os.path.join(d, "drv")], capture_output=True, text=True, timeout=60).stdout
    got = {ln.split()[0]: int(ln.split()[1]) for ln in out.splitlines() if ln.strip() and not ln.startswith("gridfail")}
    gridfails = [ln for ln in out.splitlines() if ln.startswith("gridfail")]
    run.native_runs += len(want)
    return [f"removeInnovation case {k}: returned {got.get(k)}, the property's decision is {v}" + (f" ({'; '.join(gridfails[:3])}: case 0 = NIS exactly the bound, 1 = one ulp above, 2 = one ulp below)" if k == "grid" and gridfails else "") for k, v in want.items() if got.get(k) != v]


def triage(run, rep, hc, hk, pid):
    for ob, model, definitive in driver.refuted(run, rep):
        if not (ob.name.startswith(pid + ".") or (pid == "C06" and ".records_innovation" in ob.name)):
            continue
        problems, payload = native_disagreement(run, hc, hk)
        if problems:
            payload.update({"function": rep.key, "obligation": ob.name})
            run.findings.append(Finding(ob.name, "cxx", f"{ob.name} refuted; natively: {problems[0]}", payload, True, theory=ob.theory))
            continue
        structural = z3.is_false(z3.simplify(ob.goal))
        if structural or (definitive and ob.theory != "euf"):
            run.findings.append(Finding(ob.name, "cxx", f"{ob.name} fails on the lowered C++ ({getattr(ob, 'note', '') or 'structural clause'})", {"language": "c++", "function": rep.key, "inputs": None, "counter_model": smt.model_to_dict(model) if model is not None else None}, False, theory=ob.theory))
        else:
            run.undecided.append(ob.name + " (refuted over uninterpreted matrix algebra only; native comparison agrees)")


def premises(run, lows, pid):
    used = cxxekf.template_inputs(REPO)
    ob = run.prove(f"{pid}.cxx.templates_depend_only_on_the_two_flags", [], z3.BoolVal(used <= {"enable_control", "enable_calibration"}), function=FN_T)
    if used - {"enable_control", "enable_calibration"}:
        # one rendering no longer stands for every model of the configuration: the per-configuration proofs are per-program only
        run.undecided.append(f"{ob.name}: templates use {sorted(used)}")
    for cfg, low in lows.items():
        if isinstance(low, tuple):
            continue
        ob = run.prove(f"{pid}.cxx.rendering_independent_of_the_model[{low.cfg}]", [], z3.BoolVal(low.model_independent), function=FN_T)
        if not low.model_independent:
            run.undecided.append(ob.name)


def check_c06(run):
    """C++ helper + the guard / early return in the rendered sensor_model template, all four configurations."""
    lows = lowered_all()
    run.functions.append(FN_H)
    run.functions.append(FN_T)
    shown = False
    items = []
    for cfg in CONFIGS:
        low = lows[cfg]
        if isinstance(low, tuple):
            lowering_failed(run, cfg, low, "C06")
            continue
        if not shown:
            items.append((cxxekf.RemoveInnovationX(low), cxxekf.callees(low), cfg))
            shown = True
        for filt in (True, False):
            items.append((cxxekf.SensorModelX(low, filt), cxxekf.callees(low), cfg))
    reps = run.verify_many([(c, cs) for c, cs, _ in items])
    for rep, (c, cs, cfg) in zip(reps, items):
        rep.obligations = [ob for ob in rep.obligations if ob.name.startswith("C06.") or ".records_innovation" in ob.name or ".frame." in ob.name or ".no_exception" in ob.name or ".well_formed." in ob.name]
        if rep.key.endswith(":removeInnovation"):
            bat = helper_battery(run)
            run.bounded.append({"what": "compiled removeInnovation<m> (g++, stand-in) at exact boundary points (m=2,k=1.5: threshold 5; m=8,k=0.5: threshold 10), just above/below, and scaled S^-1", "bound": "7 calls + a 9 x 7 grid of (k, m) at the bound and one ulp either side", "failures": len(bat), "counted_as_proved": False})
            bad = [ob for ob, _, _ in driver.refuted(run, rep)]
            if bat:
                name = bad[0].name if bad else "C06.cxx.removeInnovation.native_battery"
                if not bad:
                    run.add_obligation(name, "refuted", "native")
                run.findings.append(Finding(name, "cxx-helper", bat[0], {"language": "c++", "function": HELPER_FN, "inputs": {"battery": True}, "oracle_verdict": bat}, True))
            else:
                for ob in bad:
                    run.undecided.append(ob.name + " (refuted symbolically, the compiled helper passes the boundary battery)")
            continue
        triage(run, rep, cfg[0], cfg[1], "C06")
    config_ccode(run)
    config_dict_through_entry_points(run)


def config_ccode(run):
    """cpp.Config.ccode(): None / 0 -> `innovation_filtering = 0.0` (guard false), k > 0 -> k.  Checked natively on the real class (finite cases + sampled k)."""
    from replay.native import repo_import

    cpp = repo_import("formak.cpp")
    bad = []
    cases = [(None, 0.0), (0, 0.0), (0.0, 0.0), (5.0, 5.0), (0.5, 0.5), (3, 3), (1e-3, 1e-3)]
    for k, want in cases:
        try:
            with cppgen.repo_cwd():
                ns = cpp.Config(innovation_filtering=k).ccode()
            txt = "\n".join(ns.compile(cpp.CompileState(indent=2)))
        except Exception as e:
            bad.append(f"Config(innovation_filtering={k!r}).ccode() raised {type(e).__name__}")
            continue
        m = re.search(r"static constexpr double innovation_filtering = ([^;]+);", txt)
        if not m or float(m.group(1)) != float(want):
            bad.append(f"Config(innovation_filtering={k!r}) prints {m.group(1) if m else None!r}, expected {want!r}")
    run.native_runs += len(cases)
    ob = run.prove("C06.cxxgen.Config.ccode.threshold_literal", [], z3.BoolVal(not bad), function="py/formak/cpp.py:Config.ccode (native, finite cases)")
    run.bounded.append({"what": "cpp.Config.ccode prints the editing threshold (None/0 -> 0.0, k -> k)", "bound": f"{len(cases)} values", "failures": len(bad), "counted_as_proved": False})
    if bad:
        run.findings.append(Finding(ob.name, "config", bad[0], {"language": "python", "inputs": {"cases": [repr(c) for c in cases]}, "oracle_verdict": bad}, True))


def config_dict_through_entry_points(run):
    """The configuration given as a DICT to the public cpp.compile_ekf (the repository's own way of disabling filtering is
    config={"innovation_filtering": None}): the generated constants must be those of the dict, like python.compile_ekf's are."""
    import os
    import shutil
    import tempfile
    import types

    from replay import faults, scenarios
    from replay.native import REPO, repo_import

    cpp = repo_import("formak.cpp")
    ui = repo_import("formak.ui")
    sc = scenarios.Scenario(2, 0, 1, [1], seed=run.seed + 2)
    cases = [({"innovation_filtering": None}, 0.0, 0.1), ({"innovation_filtering": 2.5, "max_dt_sec": 0.05}, 2.5, 0.05), ({"innovation_filtering": None, "max_dt_sec": 0.25, "common_subexpression_elimination": False}, 0.0, 0.25)]
    bad = []
    for cfg, want_k, want_dt in cases:
        tmp = tempfile.mkdtemp(prefix="formak-c06cfg-")
        ns = types.SimpleNamespace(header=os.path.join(tmp, "generated", "m.h"), source=os.path.join(tmp, "generated", "m.cpp"), namespace="ns")
        os.makedirs(os.path.dirname(ns.header), exist_ok=True)
        old = cpp._compile_argparse
        cpp._compile_argparse = lambda ns=ns: ns
        try:
            with faults._quiet_cwd(REPO):
                model = sc.ui_model(ui)
                cpp.compile_ekf(model, dict(sc.process_noise), {k: dict(v) for k, v in sc.sensor_models.items()}, {k: dict(v) for k, v in sc.sensor_noises.items()}, calibration_map=dict(sc.calibration_map), config=dict(cfg))
            txt = open(ns.header).read()
            mk = re.search(r"static constexpr double innovation_filtering = ([^;]+);", txt)
            md = re.search(r"static constexpr double max_dt_sec = ([^;]+);", txt)
            if not mk or float(mk.group(1)) != want_k:
                bad.append(f"cpp.compile_ekf(config={cfg}) generates innovation_filtering = {mk.group(1) if mk else None}, expected {want_k} (python.compile_ekf with the same dict {'disables filtering' if want_k == 0.0 else 'uses ' + str(want_k)})")
            if not md or float(md.group(1)) != want_dt:
                bad.append(f"cpp.compile_ekf(config={cfg}) generates max_dt_sec = {md.group(1) if md else None}, expected {want_dt}")
        except Exception as e:
            bad.append(f"cpp.compile_ekf(config={cfg}) raised {type(e).__name__}: {(str(e).splitlines() or [''])[0][:120]}")
        finally:
            cpp._compile_argparse = old
            shutil.rmtree(tmp, ignore_errors=True)
    run.native_runs += len(cases)
    ob = run.prove("C06.cxxgen.compile_ekf.dict_configuration_reaches_the_generated_constants", [], z3.BoolVal(not bad), function="py/formak/cpp.py:compile_ekf (native, finite cases)")
    run.bounded.append({"what": "configuration passed as a dict to the public cpp.compile_ekf: generated innovation_filtering / max_dt_sec constants", "bound": f"{len(cases)} dicts", "failures": len(bad), "counted_as_proved": False})
    if bad:
        run.findings.append(Finding(ob.name, "config-dict", bad[0], {"language": "python", "inputs": {"config_dicts": [repr(c[0]) for c in cases]}, "oracle_verdict": bad}, True))


def config_max_dt_literal(run, pid):
    """cpp.Config.ccode(): the generated `Tag::max_dt_sec` constant must be EXACTLY the configured step (the C++ runtime steps by it and
    ManagedFilter::compatible requires it to be > 0).  Native, finite cases incl. steps needing more than 6 decimals."""
    from replay.native import repo_import

    cpp = repo_import("formak.cpp")
    cases = [0.1, 0.05, 0.25, 1.0 / 3.0, 1.5e-06, 2.5e-07, 1e-09, 123.456789012345, 3]
    bad = []
    for v in cases:
        try:
            with cppgen.repo_cwd():
                txt = "\n".join(cpp.Config(max_dt_sec=v).ccode().compile(cpp.CompileState(indent=2)))
        except Exception as e:
            bad.append(f"Config(max_dt_sec={v!r}).ccode() raised {type(e).__name__}")
            continue
        m = re.search(r"static constexpr double max_dt_sec = ([^;]+);", txt)
        try:
            lit = float(m.group(1)) if m else None
        except ValueError:
            lit = None
        if lit is None or lit != float(v):
            bad.append(f"Config(max_dt_sec={v!r}) is emitted as `{m.group(1) if m else None}` ({lit!r}): the C++ runtime would step by a different maximum than configured")
    run.native_runs += len(cases)
    ob = run.prove(f"{pid}.cxxgen.Config.ccode.max_dt_sec_literal_is_exact", [], z3.BoolVal(not bad), function="py/formak/cpp.py:Config.ccode (native, finite cases)")
    run.bounded.append({"what": "cpp.Config.ccode prints max_dt_sec so that the C++ constant equals the configured float exactly", "bound": f"{len(cases)} values (incl. 1.5e-06, 2.5e-07, 1e-09, 1/3)", "failures": len(bad), "counted_as_proved": False})
    if bad:
        run.findings.append(Finding(ob.name, "config", bad[0], {"language": "python", "inputs": {"config_literal": True}, "oracle_verdict": bad}, True))


def wiring_problems(sc, header):
    """Type wiring the templated code relies on, per program: Reading::SensorModel, matrix sizes, identifiers."""
    problems = []
    n = sc.n
    ids = []
    for key in sorted(sc.sensor_models):
        typ = key.title()
        m = len(sc.sensor_models[key])
        mm = re.search(rf"struct {typ} : public StampedReadingBase \{{(.*?)\n  \}};", header, re.S)
        if not mm:
            problems.append(f"reading struct {typ} not found")
            continue
        body = mm.group(1)
        want = {"DataT": (m, 1), "CovarianceT": (m, m), "InnovationT": (m, 1), "KalmanGainT": (n, m), "SensorJacobianT": (m, n)}
        for alias, (r, c) in want.items():
            a = re.search(rf"using {alias} = Eigen::Matrix<double, (\d+), (\d+)>;", body)
            if not a or (int(a.group(1)), int(a.group(2))) != (r, c):
                problems.append(f"{typ}::{alias} is {a.groups() if a else None}, expected ({r}, {c})")
        a = re.search(r"using SensorModel = (\w+);", body)
        if not a or a.group(1) != f"{typ}SensorModel":
            problems.append(f"{typ}::SensorModel is {a.group(1) if a else None}")
        a = re.search(r"constexpr static size_t size = (\d+);", body)
        if not a or int(a.group(1)) != m:
            problems.append(f"{typ}::size is {a.group(1) if a else None}, expected {m}")
        a = re.search(r"constexpr static SensorId Identifier = SensorId::(\w+);", body)
        if not a:
            problems.append(f"{typ}::Identifier missing")
        else:
            ids.append(a.group(1))
    if len(set(ids)) != len(ids):
        problems.append(f"sensor identifiers not distinct: {ids}")
    a = re.search(r"using CovarianceT = Eigen::Matrix<double, (\d+), (\d+)>;\s*using ProcessJacobianT = Eigen::Matrix<double, (\d+), (\d+)>;\s*using ControlJacobianT = Eigen::Matrix<double, (\d+), (\d+)>;", header)
    k = sc.k
    if not a or tuple(int(x) for x in a.groups()) != (k, k, n, n, n, k):
        problems.append(f"ExtendedKalmanFilter matrix aliases {a.groups() if a else None}, expected {(k, k, n, n, n, k)}")
    return problems


def _native_case(args):
    shp, seed, k_edit, cse, container = args
    sc = scenarios.Scenario(*shp, seed=seed, share_reading=True)
    try:
        problems, det = cxxcompare.compare(sc, k_edit=k_edit, cse=cse, seed=seed % 7, container=container)
        header, _, _ = cppgen.generate(sc, cse=cse, innovation_filtering=k_edit, container=container)
        problems = problems + wiring_problems(sc, header)
    except Exception as e:
        return args, [f"native comparison crashed: {type(e).__name__}: {e}"], None, True
    return args, problems, sc.describe(), False


def native_sweep(run, n):
    shapes = [(2, 1, 1, [2]), (3, 0, 2, [1, 2]), (2, 2, 0, [3]), (1, 0, 0, [1]), (3, 1, 2, [2, 2]), (2, 0, 1, [2, 1]), (4, 1, 1, [2]), (2, 1, 0, [1, 3])]
    cases = []
    for t in range(n):
        shp = shapes[t % len(shapes)]
        cases.append((shp, run.seed + 17 * t, (3.0, None, 0.5)[t % 3], t % 2 == 0, "set" if t % 4 != 3 else "list"))
    ctx = mp.get_context("fork")
    with ctx.Pool(min(8, len(cases))) as pool:
        res = pool.map(_native_case, cases)
    fails = 0
    for args, problems, desc, crashed in res:
        run.native_runs += 1
        if crashed:
            run.notes.append(problems[0])
            continue
        if problems:
            fails += 1
            shp, seed, k_edit, cse, container = args
            ob = run.prove(f"C07.native.python_vs_compiled_cxx[{fails}]", [], z3.BoolVal(False), function="python.compile_ekf vs compiled generated C++ (stand-in Eigen)")
            run.findings.append(Finding(ob.name, "native", f"shape n,c,k,sensors={shp}, threshold {k_edit}, cse={cse}, {container}s: {problems[0]}", {"language": "python+c++", "inputs": {"shape": list(shp), "seed": seed, "point_seed": seed % 7, "k_edit": k_edit, "cse": cse, "container": container, "share_reading": True}, "model_definition": desc, "oracle_verdict": problems[:6]}, True))
    run.bounded.append({"what": "python filter vs compiled generated C++ filter (g++, stand-in Eigen), inputs and outputs exchanged BY NAME: predicted state/covariance, and per sensor x {near, far} reading: posterior state/covariance, stored innovation, accept/reject; plus type wiring (matrix sizes, SensorModel alias, identifiers)", "bound": f"{len(cases)} programs (all four control x calibration combinations, thresholds 3.0 / 0.5 / disabled, both CSE settings, sets and lists), tolerance 1e-9", "failures": fails, "counted_as_proved": False})
    return fails


def agreement_lemmas(run):
    """Python and C++ results are equal BY the two sets of contracts: same spec term of equal per-model values."""
    from contracts.pyekf import spec_cov, spec_K, spec_predict_cov, spec_S, spec_state
    from pvc.sym import mat_inv, mat_sub

    c = lambda nm: z3.Const(nm, Mat)
    Gp, Gx, Vp, Vx, Mp, Mx, P = c("G_py"), c("G_cx"), c("V_py"), c("V_cx"), c("M_py"), c("M_cx"), c("P")
    cov_py, cov_cx = c("cov_py"), c("cov_cx")
    hyps = [cov_py == spec_predict_cov(Gp, P, Vp, Mp), cov_cx == spec_predict_cov(Gx, P, Vx, Mx), Gp == Gx, Vp == Vx, Mp == Mx]
    run.prove("C07.lemma.predicted_covariance_agrees", hyps, cov_py == cov_cx, function="lemma over C04 (python) and C07 (C++) postconditions + C02/C03 (equal Jacobians and noise)")
    Hp, Hx, Qp, Qx, hp, hx, x, z = c("H_py"), c("H_cx"), c("Q_py"), c("Q_cx"), c("h_py"), c("h_cx"), c("x"), c("z")
    outs = {}
    hyps = [Hp == Hx, Qp == Qx, hp == hx]
    for side, H, Q, h in (("py", Hp, Qp, hp), ("cx", Hx, Qx, hx)):
        S = spec_S(H, P, Q)
        K = spec_K(P, H, mat_inv(S))
        nu = mat_sub(z, h)
        outs[side] = (spec_state(x, K, nu), spec_cov(P, K, H), nu, cxxekf.nis_f(nu, mat_inv(S)))
    goal = z3.And(*[a == b for a, b in zip(outs["py"], outs["cx"])])
    run.prove("C07.lemma.update_innovation_and_nis_agree", hyps, goal, function="lemma over C05/C06 (python) and C07 (C++) postconditions + C02/C03")


def check_c07(run):
    lows = lowered_all()
    run.functions.append(FN_T)
    premises(run, lows, "C07")
    items = []
    shown = False
    for cfg in CONFIGS:
        low = lows[cfg]
        if isinstance(low, tuple):
            lowering_failed(run, cfg, low, "C07")
            continue
        if not shown:
            run.samples.append({"lowered_python_of_rendered_templates[u1c1]": low.source})
            shown = True
        cs = cxxekf.callees(low)
        for c in (cxxekf.ProcessModelX(low), cxxekf.SensorModelX(low, True), cxxekf.SensorModelX(low, False), cxxekf.InnovationsX(low), cxxekf.ForwardX(low)):
            items.append((c, cs, cfg))
    reps = run.verify_many([(c, cs) for c, cs, _ in items])
    for rep, (c, cs, cfg) in zip(reps, items):
        rep.dropped |= lows[cfg].dropped
        # the discard decision clauses are reported by C06
        rep.obligations = [ob for ob in rep.obligations if not ob.name.startswith("C06.")]
        triage(run, rep, cfg[0], cfg[1], "C07")
    agreement_lemmas(run)
    n = 24 if run.tier == "thorough" else 4
    if run.tier == "thorough" or run.findings or run.undecided or any(r.status != "ok" for r in run.reports):
        n = max(n, 8)
    native_sweep(run, n)
    # the same configuration must mean the same thing to both back ends, also when it is given as a dict
    before = len(run.findings)
    config_dict_through_entry_points(run)
    for f in run.findings[before:]:
        f.obligation = f.obligation.replace("C06.", "C07.", 1)
