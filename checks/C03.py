"""C03 - Python filter Jacobians are the true partial derivatives, laid out by name."""
from __future__ import annotations

import z3

from contracts import pyekf
from pvc import driver, smt
from pvc.driver import Finding
from replay import scenarios

PROPERTY = "C03"
EXPLANATION = (
    "ExtendedKalmanFilter.process_jacobian / control_jacobian / sensor_jacobian (py/formak/python.py) are symbolically executed for "
    "symbolic numbers of states n, calibrations c, controls k and readings m, with uninterpreted model expressions; the nested "
    "un-flattening loops are summarised to closed-form matrix cells, and every cell is proved, by name, to be ev(diff(output r, "
    "variable s)) under the environment of the named inputs; the flattened-program layout (row*width+col, width = number of "
    "differentiation variables) is the filter object's representation invariant, established by the constructors' contracts (C04/C14)."
)
ASSUMPTIONS = [
    "D-diff (weakened after D12): Matrix(F).jacobian(X)[r,c] is the partial derivative of the real function F_r WHEN sympy returns it in closed form (no unevaluated Derivative); nothing is assumed about an entry left unevaluated; iterating a sympy Matrix is row-major",
    "D-dummy: Dummy() returns a symbol distinct from every existing symbol; D-xr: Matrix.xreplace renames entry-wise and neither creates nor removes Derivative nodes; D-ren (mathematics): differentiation commutes with an injective renaming of the symbols",
    "accepted definitions: the user's own expressions contain no unevaluated Derivative / Integral / Subs",
    "D-lam / C01.3: BasicBlock.execute yields ev(expr_j, E) for any environment E consistent with the positional binding (caller-side contract; positional alignment is proved at each call site)",
    "D-np: np.zeros / cell stores (numpy model); A-NP1 size-1 arrays as scalars",
    "accepted models: symbols of state, calibration, control and dt pairwise distinct (so the named inputs determine an environment)",
]
TRUSTED_BASE = ["pvc (own VC generator: /verif/pvc)", "z3 5.1", "python ast module"]


def native_jacobians(n, c, k, m, seed=0, magnitude=False, cse=None):
    """Run the real filter on a generic model of the given shape; compare every Jacobian entry with exact sympy."""
    import sympy

    sc = scenarios.Scenario(n, c, k, [m], seed=seed, magnitude=magnitude)
    try:
        py, ekf = scenarios.build_ekf(sc, config=None if cse is None else {"common_subexpression_elimination": cse})
    except Exception as e:
        return [f"constructing the filter for a valid definition raised {type(e).__name__}: {(str(e).splitlines() or [''])[0]}"], sc
    pt = sc.point(seed)
    state, control = scenarios.named_state(ekf, sc, pt), scenarios.named_control(ekf, sc, pt)
    AS = sorted(sc.state, key=lambda s: s.name)
    AU = sorted(sc.control, key=lambda s: s.name)
    problems = []

    def cmp(name, J, rows, cols, outputs, vars_):
        if J.shape != (rows, cols):
            problems.append(f"{name}: shape {J.shape}, expected {(rows, cols)}")
            return
        sub = {k: sympy.Rational(v.numerator, v.denominator) for k, v in pt.items()}
        Jx = scenarios.jacobian_at(sympy.Matrix(list(outputs)), list(vars_), sub)
        for r in range(rows):
            for s in range(cols):
                want = float(Jx[r, s])
                got = float(J[r, s])
                if abs(got - want) > 1e-9 * max(1.0, abs(want)):
                    problems.append(f"{name}[{r},{s}] = {got}, but d({outputs_names[r]})/d({vars_[s].name}) = {want}")

    try:
        outputs_names = [s.name for s in AS]
        cmp("process_jacobian", ekf.process_jacobian(float(pt[sc.dt]), state, control), n, n, [sc.state_model[s] for s in AS], AS)
        cmp("control_jacobian", ekf.control_jacobian(float(pt[sc.dt]), state, control), n, k, [sc.state_model[s] for s in AS], AU)
        for key, sm in sc.sensor_models.items():
            rn = sorted(sm)
            outputs_names = rn
            cmp("sensor_jacobian", ekf.sensor_jacobian(key, state), len(rn), n, [sm[r] for r in rn], AS)
    except Exception as e:  # an exception where the property promises a value
        problems.append(f"{type(e).__name__}: {e}")
    return problems, sc


def nice(ob, fallback):
    n, c, k, m = z3.Int("n_state"), z3.Int("n_calibration"), z3.Int("n_control"), z3.Int("n_readings")
    for bound in (3, 5):
        r = smt.prove(ob.hyps + [n <= bound, c <= bound, k <= bound, m <= bound, n >= 1], ob.goal, timeout_ms=4000)
        if r.status == "sat" and r.model is not None:
            return r.model
        if getattr(r, "candidate_model", None) is not None:
            return r.candidate_model
    return fallback


def triage(run, rep):
    for ob, model0, definitive in driver.refuted(run, rep):
        model = nice(ob, model0)
        v = driver.model_values(model, ["n_state", "n_calibration", "n_control", "n_readings", "r_any", "s_any"])
        shape = [int(v.get(x) or 0) for x in ("n_state", "n_calibration", "n_control", "n_readings")]
        shape[3] = max(shape[3], 1)
        payload = {"language": "python", "function": rep.key, "solver_result": "sat", "counter_model": smt.model_to_dict(model), "inputs": {"shape": shape, "seed": run.seed}}
        confirmed = False
        what = f"{ob.name} refuted (shape n,c,k,m = {shape})"
        if max(shape) <= 8:
            run.native_runs += 1
            problems, sc = native_jacobians(*shape, seed=run.seed)
            payload["model_definition"] = sc.describe()
            payload["oracle_verdict"] = problems[:6]
            if problems:
                confirmed = True
                what = f"model with n={shape[0]} states, c={shape[1]} calibrations, k={shape[2]} controls, m={shape[3]} readings: {problems[0]}"
        which = rep.key.rsplit(".", 1)[-1]
        if not confirmed:
            # a second chance on standard generic shapes before giving up on a native reproduction
            for shp in ((3, 1, 2, 2), (2, 2, 1, 3)):
                run.native_runs += 1
                problems, sc = native_jacobians(*shp, seed=run.seed)
                if problems:
                    confirmed = True
                    payload["inputs"] = {"shape": list(shp), "seed": run.seed}
                    payload["model_definition"] = sc.describe()
                    payload["oracle_verdict"] = problems[:6]
                    what = f"model with n,c,k,m={shp}: {problems[0]}"
                    break
        if not confirmed and not definitive:
            run.undecided.append(ob.name + " (candidate counter-model of the quantifier-free part did not replay)")
            continue
        run.findings.append(Finding(ob.name, which, what, payload, confirmed, theory=ob.theory))


def native_sweep(run, shapes):
    fails = 0
    for shape in shapes:
        run.native_runs += 1
        problems, sc = native_jacobians(*shape, seed=run.seed)
        if problems:
            fails += 1
            run.findings.append(Finding("C03.py.native_sweep", problems[0].split("[")[0].split(":")[0], f"shape n,c,k,m={shape}: {problems[0]}", {"language": "python", "inputs": {"shape": list(shape), "seed": run.seed}, "model_definition": sc.describe(), "oracle_verdict": problems[:6]}, True))
    run.bounded.append({"what": "native run of the real filter's three Jacobians on generic models vs exact sympy differentiation", "bound": f"{len(shapes)} shapes (n,c,k,m) <= 4, one point each", "failures": fails, "counted_as_proved": False})


def has_function(name):
    import ast
    import os

    tree = ast.parse(open(os.path.join(driver.REPO, "py/formak/python.py")).read())
    return any(isinstance(nd, ast.FunctionDef) and nd.name == name for nd in tree.body)


def check(run):
    from checks.ekf_common import magnitude_native, triage_generic

    cs = pyekf.callees()
    for c in pyekf.jacobian_contracts():
        rep = run.verify(c, cs)
        triage(run, rep)
    # the flattened Jacobian programs themselves: WHAT is compiled (the partial derivatives of the real functions, in closed form)
    extra = [magnitude_native(run.seed)]
    if has_function("_jacobian"):
        rep = run.verify(pyekf.RealJacobian(), cs)
        triage_generic(run, rep, lambda shape, seed, container="set": native_jacobians(*shape, seed=seed), "_jacobian", extra_native=extra)
    for c, callees in ((pyekf.ConstructProcessNoise(), pyekf.construct_callees()), (pyekf.ConstructSensors(), pyekf.sensors_callees())):
        rep = run.verify(c, callees)
        for ob in rep.obligations:
            if not ob.name.startswith("C03."):
                ob.name = "C03.via." + ob.name
        triage_generic(run, rep, lambda shape, seed, container="set": native_jacobians(*shape, seed=seed), c.key.rsplit(".", 1)[-1], extra_native=extra)
    if run.tier == "thorough" or any(r.status != "ok" for r in run.reports) or run.undecided:
        shapes = [(2, 0, 1, 1), (3, 1, 2, 2), (2, 2, 0, 3), (1, 0, 1, 2), (3, 0, 2, 4), (4, 1, 1, 2)] if run.tier == "thorough" else [(3, 1, 2, 2), (2, 0, 1, 3)]
        native_sweep(run, shapes)
    # physically tiny constants next to a |.| term (the library's real-valued differentiation path): every Jacobian entry relative to
    # its OWN magnitude - a bare 6.6e-34 is a partial derivative like any other (the native is C08's)
    from checks import C08

    run.native_runs += 1
    tp, tsc = C08.native_tiny_constant(run.seed)
    tp = [p for p in tp if "jacobian" in p]
    run.bounded.append({"what": "Jacobians of a model whose constants are physically tiny (6.7e-11 ... 6.6e-34, one row with a |.| term): each entry relative to its own magnitude, CSE on and off", "bound": "1 model x 2 CSE settings", "failures": len(tp), "counted_as_proved": False})
    for p in tp[:1]:
        run.findings.append(Finding("C03.py.native_tiny_constant", "tiny-constant", f"model with constants 6.674e-11 ... 6.6e-34: {p}", {"language": "python", "inputs": {"tiny_constant": True, "seed": run.seed}, "model_definition": tsc.describe(), "oracle_verdict": tp[:4]}, True))

    from checks.ekf_common import dtype_sweep, stateful_sweep

    dtype_sweep(run, "C03", ("jacobian",))
    stateful_sweep(run, "C03", ("call",), run.tier == "thorough" or any(r.status != "ok" for r in run.reports) or bool(run.undecided) or bool(run.findings))


def replay_file(payload):
    if payload["inputs"].get("magnitude_jacobians"):
        from checks.ekf_common import replay_magnitude

        return replay_magnitude(payload["inputs"])
    if payload["inputs"].get("tiny_constant"):
        from checks import C08

        return C08.replay_file(payload)
    if payload["inputs"].get("dtypes"):
        from checks.ekf_common import replay_dtypes

        return replay_dtypes(payload["inputs"])
    if payload["inputs"].get("sequence"):
        from checks.ekf_common import replay_sequence

        return replay_sequence(payload["inputs"])
    shape = payload["inputs"]["shape"]
    problems, sc = native_jacobians(*shape, seed=payload["inputs"].get("seed", 0))
    print(f"replay C03 shape {shape}:", problems[:4] if problems else "all Jacobian entries equal the exact partial derivatives")
    return not problems
