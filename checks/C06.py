"""C06 - reading discarded iff NIS > k*sqrt(2m)+m; a discard changes nothing."""
from __future__ import annotations

import math

from checks.ekf_common import COMMON_ASSUMPTIONS, TRUSTED, triage_generic
from contracts import pyekf
from pvc.driver import Finding
from replay import kalman

PROPERTY = "C06"
EXPLANATION = (
    "ExtendedKalmanFilter.remove_innovation and the early return of sensor_model (python), formak::innovation_filtering::edit::removeInnovation "
    "(cpp/include/formak/innovation_filtering.h, clang AST) and the rendered sensor_model.hpp template are all proved equal to ONE spec term: "
    "discard <=> filtering enabled and el(nu^T S^-1 nu, 0, 0) > k*sqrt(2m) + m (strict), for symbolic reading dimension m >= 1, threshold k and "
    "any innovation / innovation covariance; a discard returns the very same estimate objects after the innovation was recorded; disabled => never. "
    "cpp.Config.ccode maps None/0 to 0.0, for which the generated guard `if constexpr (innovation_filtering > 0.0)` is false."
)
ASSUMPTIONS = COMMON_ASSUMPTIONS + [
    "the NIS side is compared in real arithmetic: numpy and Eigen may differ in the last ulps of nu^T S^-1 nu (summation order), so 'within a few ulps of the boundary' is decided up to that difference; the threshold side k*sqrt(2m)+m is the same IEEE operation tree in both languages (checked structurally)",
    "sqrt axiomatised by r >= 0 and r*r = x",
]
TRUSTED_BASE = TRUSTED + ["clang 14 JSON AST dump (C++ helper and template)"]


def native(shape, seed, k_edit=3.0, nis_target=None, container="set"):
    res = kalman.native_update((shape[0], shape[1], shape[3] if len(shape) > 3 else shape[2]), seed, k_edit=k_edit, nis_target=nis_target, container=container)
    return res[0], res[1]


def battery():
    return kalman.native_remove_innovation_battery()


def discard_scenario():
    """A reading far beyond the threshold (must be discarded, innovation still recorded) and one well inside."""
    import math as _m

    for fac in (6.0, 0.2):
        problems, sc = native([3, 1, 0, 2], 0, 3.0, nis_target=(3.0 * _m.sqrt(4) + 2) * fac)
        if problems:
            return problems, sc
    return [], sc


def boundary_sweep(run, shapes):
    fails = 0
    runs = 0
    for shp in shapes:
        m = shp[3]
        for k_edit in (3.0, 0.5, None, 2):
            thr = (k_edit * math.sqrt(2 * m) + m) if k_edit else 10.0
            for fac in (0.25, 1 - 1e-6, 1 + 1e-6, 4.0):
                runs += 1
                run.native_runs += 1
                problems, sc = native(shp, run.seed, k_edit, nis_target=thr * fac)
                if problems:
                    fails += 1
                    run.findings.append(Finding("C06.py.native_sweep", f"m={m}", f"shape n,c,k,m={shp}, editing threshold {k_edit}, NIS = {fac} x boundary: {problems[0]}", {"language": "python", "inputs": {"shape": list(shp), "seed": run.seed, "k_edit": k_edit, "nis_factor": fac}, "model_definition": sc.describe(), "oracle_verdict": problems[:5]}, True))
                    return fails, runs
    return fails, runs


def check(run):
    cs = pyekf.filter_callees()
    for c in (pyekf.RemoveInnovation(True), pyekf.RemoveInnovation(False)):
        rep = run.verify(c, cs)
        triage_generic(run, rep, lambda shape, seed, container="set": native([max(shape[0], 1), shape[1], shape[2], shape[3]], seed, container=container), "remove_innovation", extra_native=[battery])
    for c in (pyekf.SensorUpdate(True), pyekf.SensorUpdate(False)):
        rep = run.verify(c, cs)
        # only the decision / discard clauses belong to this property; the update algebra is reported by C05
        rep.obligations = [ob for ob in rep.obligations if ob.name.startswith("C06.") or ".records_innovation" in ob.name or ".frame." in ob.name or ".no_exception" in ob.name]
        triage_generic(run, rep, lambda shape, seed, container="set": native([max(shape[0], 1), shape[1], shape[2], shape[3]], seed, container=container), "sensor_model", extra_native=[discard_scenario, battery])
    # exact / one-ulp boundary batteries on the real python function (always: the boundary is invisible to real arithmetic)
    run.native_runs += 1
    bat, bsc = battery()
    run.bounded.append({"what": "python remove_innovation called directly: exact boundary (m=2,k=1.5: bound 5), non-identity S^-1, disabled, and a 9 x 7 grid of (k, m) with NIS at the IEEE bound fl(k*sqrt(2m)+m) and one ulp either side", "bound": "7 + 189 calls", "failures": len(bat), "counted_as_proved": False})
    for p in bat[:1]:
        run.findings.append(Finding("C06.py.remove_innovation.native_boundary_battery", "boundary", p, {"language": "python", "inputs": {"shape": [2, 0, 1, 2], "seed": run.seed, "extra_scenario": True}, "oracle_verdict": bat[:5]}, True))
    # a sensor whose components live at very different scales (S positive definite, condition number 1e18): the full inverse decides
    run.native_runs += 1
    dsp = kalman.native_disparate_scales(run.seed)
    run.bounded.append({"what": "python sensor_model of a two-reading sensor with S = diag(2e12, 2e-6): outlier in either component discarded (estimate untouched), a one-sigma reading accepted", "bound": "3 updates", "failures": len(dsp), "counted_as_proved": False})
    for p in dsp[:1]:
        run.findings.append(Finding("C06.py.native_disparate_scales", "scales", p, {"language": "python", "inputs": {"disparate_scales": True, "seed": run.seed}, "oracle_verdict": dsp[:3]}, True))
    try:
        from checks import cxx_innovation

        cxx_innovation.check_c06(run)
    except ImportError:
        run.notes.append("C++ side not built yet")
    if run.tier == "thorough" or any(r.status != "ok" for r in run.reports) or run.undecided or run.findings:
        shapes = [(2, 0, 0, 1), (3, 1, 0, 2), (2, 0, 0, 3)] if run.tier == "thorough" else [(3, 1, 0, 2)]
        fails, runs = boundary_sweep(run, shapes)
        run.bounded.append({"what": "native sensor_model with the innovation scaled so that NIS sits at 0.25x, (1 -/+ 1e-6)x and 4x the decision boundary; thresholds 3.0, 0.5 and disabled; decision and untouched estimate checked against exact rational NIS", "bound": f"{runs} runs over {len(shapes)} shapes", "failures": fails, "counted_as_proved": False})

    from checks.ekf_common import stateful_sweep

    stateful_sweep(run, "C06", ('update',), run.tier == "thorough" or any(r.status != "ok" for r in run.reports) or bool(run.undecided) or bool(run.findings))


def replay_file(payload):
    inp = payload["inputs"]
    if inp.get("disparate_scales"):
        p = kalman.native_disparate_scales(inp.get("seed", 0))
        print("replay C06 (components at scales 1e12 and 1e-6):", p[:3] or "decisions as the property states")
        return not p
    if inp.get("sequence"):
        from checks.ekf_common import replay_sequence

        return replay_sequence(inp)
    if inp.get("extra_scenario"):
        p1, _ = battery()
        p2, _ = discard_scenario()
        print("replay C06 (direct remove_innovation battery + discard scenario):", (p1 + p2)[:4] or "as specified")
        return not (p1 + p2)
    thr = None
    if "nis_factor" in inp:
        m = inp["shape"][3]
        k = inp.get("k_edit")
        thr = ((k * math.sqrt(2 * m) + m) if k else 10.0) * inp["nis_factor"]
    problems, sc = native(inp["shape"], inp.get("seed", 0), inp.get("k_edit", 3.0), nis_target=thr)
    print("replay C06:", problems[:4] if problems else "decision and estimate as specified")
    return not problems
