"""C11 - tick = fold readings in order, hold at last reading, report at output time."""
from __future__ import annotations

import math
import random

import z3

from checks.C10 import stepping_ok
from contracts import rt
from pvc import driver, smt
from pvc.driver import Finding
from replay import native

PROPERTY = "C11"
EXPLANATION = (
    "ManagedFilter.tick (py/formak/runtime.py) and the four ManagedFilter::tick overloads (ManagedFilter.h, clang AST) are "
    "symbolically executed against one shared recursive spec `fold` (defined by its two unfolding equations) for a reading list "
    "of symbolic length with arbitrary timestamps; the loop is handled by the invariant held = fold(readings[:k]); the time move "
    "is the C10 contract of _process_model/processUpdate (callers see the contract, not the body); the wrapped filter's "
    "process_model/sensor_model/make_reading are opaque pure functions, so nested applications encode call order and arguments."
)
ASSUMPTIONS = [
    "wrapped filter's process_model, sensor_model, make_reading are pure functions of their arguments (opaque PM, SM, MR)",
    "every element of `readings` is a StampedReading (requires)",
    "A-REAL (time arithmetic); C10 contract of the time move is used at the call sites (proved in C10)",
    "induction over a sequence of ticks is the composition of per-tick contracts (each tick's precondition is the invariant max_dt_sec > 0 only)",
]
TRUSTED_BASE = ["pvc (own VC generator: /verif/pvc)", "z3 5.1 (cvc5 1.0 / z3 4.8 fallbacks)", "python ast module", "clang 14 JSON AST dump (C++ side)"]


def callees():
    c = dict(rt.IMPL_CONTRACTS)
    c[rt.ProcessModelSteps.key] = rt.ProcessModelSteps()
    return c


# -- native oracle -------------------------------------------------------------------


def native_tick(t0, mx, control_size, ticks):
    """Run real ManagedFilter ticks with a recording filter.  ticks = [(t_out, control, [(ts, key, has_data)] | None)].
    Returns (ok, why, trace) judged by the property's own oracle."""
    runtime = native.repo_import("formak.runtime")
    impl = native.RecordingImpl(mx, control_size=control_size)
    mf = runtime.ManagedFilter(impl, t0, (), ())
    held_t, held_s = t0, ()
    for t_out, control, readings in ticks:
        impl.calls.clear()
        rs = None
        if readings is not None:
            rs = []
            for ts, key, has_data in readings:
                if has_data:
                    rs.append(runtime.StampedReading(ts, key, _data=("data", key, ts)))
                else:
                    rs.append(runtime.StampedReading(ts, key, v=ts))
        refused = control is None and control_size > 0
        poisoned = any(key == "missing" for _, key, _ in (readings or []))
        try:
            out = mf.tick(t_out, control=control, readings=rs)
        except KeyError as e:
            # a reading for a sensor the wrapped filter does not have: the filter's own refusal passes through.  Whatever the
            # managed filter keeps (the estimate moved up to the refused reading, or the estimate before the tick), what it holds
            # must stay CONSISTENT: the held estimate is the estimate at the held time (C10: later moves cover the true difference)
            if not poisoned:
                return False, f"unexpected KeyError {e!r}", impl.calls
            st = mf.state
            if mf.covariance != st or st[: len(held_s)] != held_s:
                return False, f"after a refused reading the held state/covariance are not an extension of the held estimate: {st}", impl.calls
            t_of_state = t0 + math.fsum(x[1] for x in st if x[0] == "pm")
            if not abs(t_of_state - mf.current_time) <= 1e-9 * (len(st) + 1) + 4 * math.ulp(max(abs(t0), abs(mf.current_time), 1.0)):
                return False, f"after a reading was refused (unknown sensor) the filter holds time {mf.current_time!r} but its estimate has been moved to {t_of_state!r}: the next tick propagates over the wrong interval", impl.calls
            held_t, held_s = mf.current_time, st
            continue
        except TypeError as e:
            if refused and not impl.calls and (mf.current_time, mf.state) == (held_t, held_s):
                continue
            return False, f"unexpected TypeError {e!r} (calls so far {impl.calls})", impl.calls
        if refused:
            return False, "tick without control accepted although control_size > 0", impl.calls
        if poisoned:
            return False, "a reading for a sensor the wrapped filter refuses (KeyError) was swallowed", impl.calls
        calls = list(impl.calls)
        pos = 0
        exp_state = held_s
        for ts, key, has_data in readings or []:
            steps = []
            while pos < len(calls) and calls[pos][0] == "process_model":
                steps.append(calls[pos][1])
                pos += 1
            ok, why = stepping_ok(held_t, ts, mx, steps)
            if not ok:
                return False, f"move to reading at {ts}: {why}", calls
            exp_state = exp_state + tuple(("pm", s) for s in steps)
            data = ("data", key, ts) if has_data else ("reading", key, (("v", ts),))
            if pos >= len(calls) or calls[pos][:3] != ("sensor_model", key, data):
                return False, f"expected sensor_model({key!r}) after moving to {ts}, got {calls[pos] if pos < len(calls) else None}", calls
            pos += 1
            exp_state = exp_state + (("sm", key, data),)
            held_t = ts
        steps = [c[1] for c in calls[pos:]]
        if any(c[0] != "process_model" for c in calls[pos:]):
            return False, f"unexpected calls after the last reading: {calls[pos:]}", calls
        ok, why = stepping_ok(held_t, t_out, mx, steps)
        if not ok:
            return False, f"move to output time {t_out}: {why}", calls
        if mf.state != exp_state or mf.covariance != exp_state:
            return False, f"held estimate after tick is not the estimate after the last reading (held {mf.state}, expected {exp_state})", calls
        if mf.current_time != held_t:
            return False, f"held time {mf.current_time} != time of last reading {held_t}", calls
        res_state = exp_state + tuple(("pm", s) for s in steps)
        if tuple(out) != (res_state, res_state):
            return False, f"result is not the held estimate moved to the output time (got {out[0]}, expected {res_state})", calls
        held_s = exp_state
    return True, "ok", []


def scenario_from_model(model, variant):
    n = model.eval(z3.Int("n_readings"), model_completion=True)
    n = n.as_long() if z3.is_int_value(n) else 0
    n = max(0, min(n, 6))
    ts = z3.Function("rd_ts", z3.IntSort(), z3.RealSort())
    nod = z3.Function("rd_data_is_none", z3.IntSort(), z3.BoolSort())

    def num(e):
        v = model.eval(e, model_completion=True)
        if z3.is_int_value(v):
            return float(v.as_long())
        if z3.is_rational_value(v):
            return v.numerator_as_long() / v.denominator_as_long()
        return 0.0

    keyf = z3.Function("rd_key", z3.IntSort(), rt.Key)

    def key_name(i):
        # a sensor the counter-model's wrapped filter refuses becomes the recording filter's unknown sensor
        try:
            if z3.is_true(model.eval(rt.refuses_key(keyf(z3.IntVal(i))), model_completion=True)):
                return "missing"
        except z3.Z3Exception:
            pass
        return f"k{i}"

    readings = [(num(ts(i)), key_name(i), not z3.is_true(model.eval(nod(i), model_completion=True))) for i in range(n)]
    t0, t_out, mx = num(z3.Real("t0")), num(z3.Real("t_out")), num(z3.Real("max_dt_sec"))
    cs = int(num(z3.Int("control_size")))
    control = None if "control_none" in variant else "u"
    rs = readings if "readings_seq" in variant else None
    return {"t0": t0, "max_dt_sec": mx, "control_size": max(cs, 0), "ticks": [[t_out, control, rs]]}


def nice_witness(ob):
    t0, t1, mx, n = z3.Real("t0"), z3.Real("t_out"), z3.Real("max_dt_sec"), z3.Int("n_readings")
    ts = z3.Function("rd_ts", z3.IntSort(), z3.RealSort())
    nice = [mx >= z3.RealVal("1/20"), mx <= 1, t0 >= -2, t0 <= 2, t1 >= -2, t1 <= 2, n <= 3] + [z3.And(ts(i) >= -2, ts(i) <= 2) for i in range(3)]
    r = smt.prove(ob.hyps + nice, ob.goal, timeout_ms=5000)
    if r.status == "sat" and r.model is not None:
        return r.model
    return ob.result.model or getattr(ob.result, "candidate_model", None)


def triage(run, rep, variant):
    for ob, model0, definitive in driver.refuted(run, rep):
        model = nice_witness(ob) or model0
        payload = {"language": "python", "function": rep.key, "variant": variant, "solver": ob.result.backend, "solver_result": "sat", "counter_model": smt.model_to_dict(model)}
        confirmed = False
        what = f"{ob.name} refuted"
        try:
            sc = scenario_from_model(model, variant)
            payload["inputs"] = sc
            if sc["max_dt_sec"] > 0 and all(abs(t[0] - sc["t0"]) / sc["max_dt_sec"] < 1e6 for t in sc["ticks"]):
                run.native_runs += 1
                ok, why, calls = native_tick(sc["t0"], sc["max_dt_sec"], sc["control_size"], [tuple(t) for t in sc["ticks"]])
                payload.update({"oracle_verdict": why, "native_calls": calls[:60]})
                confirmed = not ok
                what = f"python tick {sc}: {why}"
        except Exception as e:  # replay construction problems never become violations by themselves
            payload["replay_error"] = repr(e)
        if not confirmed and not definitive:
            run.undecided.append(ob.name)
            continue
        run.findings.append(Finding(ob.name, variant, what, payload, confirmed, theory=ob.theory))


def random_history(rng):
    mx = rng.choice([0.1, 0.05, 0.3])
    cs = rng.choice([0, 1])
    base = rng.choice([0.0, 0.0, 0.0, 5000.0, 86400.0])  # some histories live at times well above 1 s
    t0 = base + round(rng.uniform(-1, 1), 2)
    ticks = []
    for _ in range(rng.randint(1, 4)):
        t_out = base + round(rng.uniform(-1.5, 1.5), 3)
        control = "u" if (cs or rng.random() < 0.5) else None
        if rng.random() < 0.15 and cs:
            control = None
        if rng.random() < 0.2:
            rs = None
        else:
            # one reading in ten is for a sensor the wrapped filter refuses (KeyError): the filter is then USED AGAIN
            rs = [(base + round(rng.uniform(-1.5, 1.5), 3), rng.choice(["a", "b"] if rng.random() < 0.9 else ["missing"]), rng.random() < 0.5) for _ in range(rng.randint(0, 3))]
        ticks.append((t_out, control, rs))
    return t0, mx, cs, ticks


def native_sweep(run, n):
    rng = random.Random(run.seed + 11)
    fails = 0
    for k in range(n):
        mx = rng.choice([0.1, 0.05, 0.3])
        cs = rng.choice([0, 1])
        # every fourth history lives around t = 5000 s / 86400 s (times of moderate magnitude well above 1 s)
        base = (0.0, 0.0, 0.0, 5000.0, 0.0, 0.0, 0.0, 86400.0)[k % 8]
        t0 = base + round(rng.uniform(-1, 1), 2)
        # at the large bases some times sit a few microseconds off the step grid (a whole number of steps plus 3e-6 s): a tolerance that
        # grows with the absolute time drops exactly these remainders
        off = (lambda: rng.choice([0.0, 3e-6, -4e-7, 1.5e-8])) if base else (lambda: 0.0)
        ticks = []
        for _ in range(rng.randint(1, 4)):
            t_out = (t0 + rng.randint(-6, 6) * mx + off()) if (base and rng.random() < 0.5) else base + round(rng.uniform(-1.5, 1.5), 3)
            control = "u" if (cs or rng.random() < 0.5) else None
            if rng.random() < 0.15 and cs:
                control = None
            mode = rng.random()
            if mode < 0.2:
                rs = None
            else:
                rs = [((t0 + rng.randint(-6, 6) * mx + off()) if (base and rng.random() < 0.5) else base + round(rng.uniform(-1.5, 1.5), 3), rng.choice(["a", "b"] if rng.random() < 0.9 else ["missing"]), rng.random() < 0.5) for _ in range(rng.randint(0, 3))]
            ticks.append((t_out, control, rs))
        run.native_runs += 1
        ok, why, calls = native_tick(t0, mx, cs, ticks)
        if not ok:
            fails += 1
            run.findings.append(Finding("C11.py.tick.native_sweep", "sweep", f"python tick history {ticks} from t0={t0}, max {mx}: {why}", {"language": "python", "inputs": {"t0": t0, "max_dt_sec": mx, "control_size": cs, "ticks": ticks}, "oracle_verdict": why}, True))
            break
    run.bounded.append({"what": "native CPython multi-tick histories of runtime.ManagedFilter with a recording wrapped filter, oracle: per-tick fold + stepping_ok", "bound": f"{n} random histories of 1-4 ticks x 0-3 readings, seed {run.seed}", "failures": fails, "counted_as_proved": False})


def check(run):
    cs = callees()
    for c in rt.tick_contracts():
        rep = run.verify(c, cs)
        triage(run, rep, c.variant)
    for c in rt.init_contracts():
        rep = run.verify(c, {})
        for ob, model, definitive in driver.refuted(run, rep):
            run.native_runs += 1
            ok, why, calls = native_tick(0.75, 0.1, 1, [(1.0, "u", [(0.9, "a", True)]), (0.8, "u", None)])
            run.findings.append(Finding(ob.name, "init", f"{ob.name} refuted ({getattr(ob, 'note', '') or 'constructor stores something else than it is given'}); native history from t0=0.75: {why}", {"language": "python", "inputs": {"t0": 0.75, "max_dt_sec": 0.1, "control_size": 1, "ticks": [[1.0, "u", [[0.9, "a", True]]], [0.8, "u", None]]}, "oracle_verdict": why}, not ok, theory=ob.theory))
    try:
        from checks import cxx_runtime

        cxx_runtime.check_c11(run)
        cxx_runtime.check_constructors(run, "C11")  # the constructors establish what `held` means before the first tick
    except ImportError:
        run.notes.append("C++ side not built yet")
    escalate = any(r.status != "ok" for r in run.reports) or bool(run.undecided)
    native_sweep(run, 600 if run.tier == "thorough" else (150 if escalate else 60))


def replay_file(payload):
    if payload.get("language") == "python":
        sc = payload["inputs"]
        ok, why, calls = native_tick(sc["t0"], sc["max_dt_sec"], sc["control_size"], [tuple(t) for t in sc["ticks"]])
        print(f"replay python tick {sc}: {why}")
        return ok
    from checks import cxx_runtime

    if payload.get("configuration") and "t1" in (payload.get("inputs") or {}):
        return cxx_runtime.replay_c10(payload)
    return cxx_runtime.replay_c11(payload)
