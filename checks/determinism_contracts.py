"""C15, deductive part: layout constructors are functions of the SET of declared symbols (order-token non-interference)."""
from __future__ import annotations

import z3

from contracts import pyblock, pyekf
from contracts import validation as V
from pvc import orderfree
from pvc.contract import Call, Contract
from pvc.driver import Finding
from pvc.models import LazyUnsupported
from pvc.sym import SObj, SSeq, to_int
from pvc.symtheory import InnerDictV, StrV, card_f, srt_f


class OrderFree(Contract):
    """Wrapper: the wrapped contract's clauses (under a C15 name) + the order-token scan of the constructed object and of the control flow."""

    def __init__(self, inner, prefix, outputs, unmodelled_ok=()):
        self.inner = inner
        inner.prefix = prefix
        self.prefix = prefix
        self.key = inner.key
        self.inline = inner.inline
        self.loops = inner.loops
        self.outputs = outputs
        self.unmodelled_ok = set(unmodelled_ok)
        self.__doc__ = (inner.__doc__ or "") + "\n    C15: no stored field and no branch decision mentions an order token (hash / declaration / insertion order)."

    def setup(self, I):
        call = self.inner.setup(I)
        call.ctx["pc_mark"] = len(I.path.pc)
        return call

    def post(self, I, call, outcome):
        self.inner.post(I, call, outcome)
        P, pre = I.path, self.prefix
        if outcome[0] != "return":
            return  # C15 quantifies over ACCEPTED definitions; which offending entry a refusal names is not an output
        ptoks = orderfree.tokens_in_path(P, call.pc_mark)
        P.oblige(f"{pre}.control_flow_independent_of_iteration_order", z3.BoolVal(not ptoks), note=f"branch decisions mention {sorted(ptoks)}", theory="syntactic")
        out = self.outputs(call, outcome)
        toks = set()
        unmodelled = []
        if isinstance(out, SObj):
            for f, v in out.fields.items():
                if isinstance(v, LazyUnsupported):
                    unmodelled.append(f)
                    continue
                t = orderfree.tokens_in_value(v, I)
                if t:
                    toks |= {f"{f}:{x}" for x in t}
        else:
            toks = orderfree.tokens_in_value(out, I)
        P.oblige(f"{pre}.result_independent_of_iteration_order", z3.BoolVal(not toks), note=f"stored values mention {sorted(toks)}", theory="syntactic")
        extra = [f for f in unmodelled if f not in self.unmodelled_ok]
        P.oblige(f"{pre}.every_stored_field_modelled", z3.BoolVal(not extra), note=f"fields outside the modelled subset: {extra}", theory="syntactic")


class CppLayout(V.CppEkfInit):
    """cpp.ExtendedKalmanFilter.__init__ (C14 contract) + layout: arglist_state/_calibration/_control are the declared symbols sorted by name;
    arglist = [dt] + AS + ACal + AU; sizes are the set cardinalities."""

    def post(self, I, call, outcome):
        super().post(I, call, outcome)
        if outcome[0] != "return":
            return
        P, D, pre = I.path, call.D, self.prefix
        f = call.obj.fields
        i = z3.Int("i_any")
        for fld, st in (("arglist_state", D.S), ("arglist_calibration", D.Cal), ("arglist_control", D.U)):
            a = f.get(fld)
            ok = isinstance(a, SSeq)
            P.oblige(f"{pre}.{fld}_sorted_by_name", z3.And(a.len_z() == card_f(st.term), z3.Implies(z3.And(i >= 0, i < card_f(st.term)), a.at(i).z == srt_f(st.term, i))) if ok else z3.BoolVal(False))
        al = f.get("arglist")
        n, c, k = card_f(D.S.term), card_f(D.Cal.term), card_f(D.U.term)
        if isinstance(al, SSeq):
            want = z3.If(i == 0, D.ui.fields["dt"].z, z3.If(i < 1 + n, srt_f(D.S.term, i - 1), z3.If(i < 1 + n + c, srt_f(D.Cal.term, i - 1 - n), srt_f(D.U.term, i - 1 - n - c))))
            P.oblige(f"{pre}.arglist_layout", z3.And(al.len_z() == 1 + n + c + k, z3.Implies(z3.And(i >= 0, i < 1 + n + c + k), al.at(i).z == want)))
        else:
            P.oblige(f"{pre}.arglist_layout", z3.BoolVal(False))
        for fld, want in (("state_size", n), ("calibration_size", c), ("control_size", k)):
            P.oblige(f"{pre}.{fld}", to_int(f.get(fld)) == want if f.get(fld) is not None else z3.BoolVal(False))
        # sensorlist: (key, readings model, readings noise) triples along the key-SORTED enumeration of the sensor keys
        sl = f.get("sensorlist")
        ok = isinstance(sl, SSeq)
        if ok:
            j = z3.Int("j_any")
            el = sl.at(j)
            sk = D.sensors.skey1
            ok = isinstance(el, tuple) and len(el) == 3 and isinstance(el[0], StrV) and isinstance(el[1], InnerDictV) and isinstance(el[2], InnerDictV) and el[1].p is D.sensors and el[2].p is D.snoise
            if ok:
                P.oblige(f"{pre}.sensorlist_sorted_by_sensor_key", z3.And(sl.len_z() == D.sensors.n, z3.Implies(z3.And(j >= 0, j < D.sensors.n), z3.And(el[0].z == sk(j), el[1].k == sk(j), el[2].k == sk(j)))))
        if not ok:
            P.oblige(f"{pre}.sensorlist_sorted_by_sensor_key", z3.BoolVal(False), note="sensorlist is not a sequence of (key, model, noise) triples")


class CppModelLayout(Contract):
    """cpp.Model.__init__(symbolic_model, calibration_map, namespace, header_include, config)
    ensures  raises only ModelConstructionError, only for a calibration arity fault; otherwise arglist_state/_calibration/_control are the declared
             symbols sorted by name, arglist = [dt] + AS + ACal + AU, sizes are the cardinalities."""

    key = "formak.cpp:Model.__init__"
    inline = ("formak.common:named_vector", "formak.common:named_covariance")

    def __init__(self, container="set"):
        self.container = container
        self.prefix = f"C15.cxxgen.Model.__init__[{container}]"

    def setup(self, I):
        P = I.path
        D = V.Definition(I, self.container)
        P.ghost["definition"] = D
        P.ghost["site"] = self.prefix
        mod = I.load_module("formak.cpp")
        obj = SObj(I.module_attr(mod, "Model"), {}, "generator")
        return Call([obj, D.ui, D.cm, "ns", "h.h", SObj("Config", {"common_subexpression_elimination": True}, "config")], {}, D=D, obj=obj)

    def post(self, I, call, outcome):
        P, D, pre = I.path, call.D, self.prefix
        n, c, k = card_f(D.S.term), card_f(D.Cal.term), card_f(D.U.term)
        cal_arity = z3.And(c > 0, z3.Or(D.cm.n == 0, D.cm.n != c))
        if outcome[0] == "raise":
            P.oblige(f"{pre}.only_ModelConstructionError", z3.BoolVal(outcome[1] == "ModelConstructionError"), note=f"raises {outcome[1]}")
            P.oblige(f"{pre}.refuses_only_calibration_arity_faults", cal_arity)
            return
        P.oblige(f"{pre}.refuses.calibration_arity", z3.Not(cal_arity))
        f = call.obj.fields
        i = z3.Int("i_any")
        for fld, st in (("arglist_state", D.S), ("arglist_calibration", D.Cal), ("arglist_control", D.U)):
            a = f.get(fld)
            ok = isinstance(a, SSeq)
            P.oblige(f"{pre}.{fld}_sorted_by_name", z3.And(a.len_z() == card_f(st.term), z3.Implies(z3.And(i >= 0, i < card_f(st.term)), a.at(i).z == srt_f(st.term, i))) if ok else z3.BoolVal(False))
        al = f.get("arglist")
        if isinstance(al, SSeq):
            want = z3.If(i == 0, D.ui.fields["dt"].z, z3.If(i < 1 + n, srt_f(D.S.term, i - 1), z3.If(i < 1 + n + c, srt_f(D.Cal.term, i - 1 - n), srt_f(D.U.term, i - 1 - n - c))))
            P.oblige(f"{pre}.arglist_layout", z3.And(al.len_z() == 1 + n + c + k, z3.Implies(z3.And(i >= 0, i < 1 + n + c + k), al.at(i).z == want)))
        else:
            P.oblige(f"{pre}.arglist_layout", z3.BoolVal(False))
        for fld, want in (("state_size", n), ("calibration_size", c), ("control_size", k)):
            P.oblige(f"{pre}.{fld}", to_int(f.get(fld)) == want if f.get(fld) is not None else z3.BoolVal(False))


def cpp_model_callees():
    c = dict(V.cpp_init_callees())
    for nm in ("_translate_model", "_translate_return"):
        c[f"formak.cpp:Model.{nm}"] = V.OpaqueApply(f"formak.cpp:Model.{nm}")
    return c


def items(tier="quick"):
    out = []
    for cont in ("set", "list"):
        out.append((OrderFree(pyblock.ModelInit(cont), f"C15.py.Model.__init__[{cont}]", lambda call, oc: call.obj), pyblock.model_init_callees()))
        if cont == "set" or tier == "thorough":
            # `_return` is the stub result of the opaque callee _translate_return (a function of arglist_state, see the generator contracts)
            out.append((OrderFree(CppLayout(cont), f"C15.cxxgen.ExtendedKalmanFilter.__init__[{cont}]", lambda call, oc: call.obj, unmodelled_ok=("_return",)), V.cpp_init_callees()))
    out.append((OrderFree(CppModelLayout("set"), "C15.cxxgen.Model.__init__[set]", lambda call, oc: call.obj, unmodelled_ok=("_return",)), cpp_model_callees()))
    if tier == "thorough":
        out.append((OrderFree(CppModelLayout("list"), "C15.cxxgen.Model.__init__[list]", lambda call, oc: call.obj, unmodelled_ok=("_return",)), cpp_model_callees()))
    out.append((OrderFree(pyekf.SensorModelInit(), "C15.py.SensorModel.__init__", lambda call, oc: call.obj), pyekf.sensor_init_callees()))
    out.append((OrderFree(pyekf.ConstructProcessNoise(), "C15.py._construct_process", lambda call, oc: call.ekf), pyekf.construct_callees()))
    out.append((OrderFree(pyekf.ConstructSensors(), "C15.py._construct_sensors", lambda call, oc: call.ekf), pyekf.sensors_callees()))
    return out


def check(run):
    its = items(run.tier)
    reps = run.verify_many(its)
    for (c, _), rep in zip(its, reps):
        for ob in rep.obligations:
            r = ob.result
            if r is None or r.status == "unsat":
                continue
            # a failed scan / layout clause alone is not a violation: it needs a pair of runs that differ (the bounded sweep)
            if ob.name not in run.undecided:
                run.undecided.append(f"{ob.name} ({getattr(ob, 'note', '') or r.status})")
