"""C14 - structurally invalid definitions are refused; valid ones are accepted."""
from __future__ import annotations

import z3

from contracts import gate, pyblock, pyekf, validation as V
from pvc import driver, smt
from pvc.driver import Finding
from replay import faults

PROPERTY = "C14"
EXPLANATION = (
    "One vocabulary of fault predicates over a fully symbolic definition (declared containers as sets or lists, update expressions, calibration "
    "map, process noise, sensors and sensor noise as dicts of dicts of any size) is used by every contract. ui_model.Model.__init__, "
    "common.model_validation, python.Model.__init__, _construct_process and the new checks of cpp.ExtendedKalmanFilter.__init__ are each proved "
    "to raise EXACTLY under their fault condition (early-exit rule over symbolic dict iteration, nested for sensors x readings). The entry points "
    "python.compile / compile_ekf and cpp.compile / compile_ekf are then symbolically executed with those callee contracts and proved to raise iff "
    "the definition is invalid in any of the listed ways - for every single fault, every position and every combination at once, because the proof "
    "is over the predicate. A native fault-injection sweep through all five entry points is the replay / bounded stand-in."
)
ASSUMPTIONS = [
    "finite-set cardinality: A subset of B => (A = B <=> |A| = |B|) (mathematics; used to connect 'a control has no noise entry' with len(process_noise) != number of controls)",
    "negative process noise is refused through the covariance gate (C09): 'negative' means clearly negative relative to the largest noise magnitude; see DESIGN.md for the boundary band",
    "python _construct_sensors raises iff sensor-noise keys do not match sensors/readings: proved for matching noise (C05), the refusing direction is covered by the native sweep only",
    "sympy expression free_symbols is the set of symbols the expression depends on",
    "the ui model object passed to compile entry points was accepted by ui.Model (its faults are excluded there)",
]
TRUSTED_BASE = ["pvc (own VC generator: /verif/pvc)", "z3 5.1 (quantified set/dict axioms)", "python ast module"]


def native_sweep(run, shapes, containers, pairs):
    problems, stats = faults.sweep(run.seed, shapes, containers=containers, pairs=pairs)
    run.native_runs += stats["single_faults"] + stats["fault_pairs"] + stats["valid_definitions"]
    return problems, stats


def check(run):
    items = [(c, {}) for c in (V.UiModelInit("set"), V.UiModelInit("list"), V.ModelValidation("set", "Sym"), V.ModelValidation("list", "Sym"), V.ModelValidation("set", "Str"))]
    items.append((pyblock.ModelInit("set"), pyblock.model_init_callees()))
    items.append((pyekf.ConstructProcessNoise(), pyekf.construct_callees()))
    items.append((gate.AssertValidCovariance(), {}))
    items.append((V.CppEkfInit("set"), V.cpp_init_callees()))
    for key in ("formak.python:compile", "formak.python:compile_ekf", "formak.cpp:compile", "formak.cpp:compile_ekf"):
        for cont in ("set", "list") if run.tier == "thorough" else ("set",):
            items.append((V.EntryPoint(key, cont), V.entry_callees()))
    # a reduced native fault-injection sweep always runs, in its own process, while the contracts are verified
    import json as _json
    import os as _os
    import subprocess as _sp
    import sys as _sys

    early = _sp.Popen([_sys.executable, "-m", "replay.faults_cli", str(run.seed), "set", "0", _json.dumps([3, 1, 2, [2]])], stdout=_sp.PIPE, stderr=_sp.PIPE, text=True, cwd=driver.VERIF, env=dict(_os.environ, FORMAK_REPO=driver.REPO))
    reps = run.verify_many(items)
    pending = []
    for rep in reps:
        for ob, model, definitive in driver.refuted(run, rep):
            pending.append((rep, ob, model, definitive))
    need = run.tier == "thorough" or pending or run.undecided or any(r.status != "ok" for r in run.reports)
    problems, stats = [], None
    try:
        out, err = early.communicate(timeout=900)
        line = [ln for ln in out.splitlines() if ln.startswith("FAULTSJSON ")]
        if line:
            res = _json.loads(line[0][len("FAULTSJSON "):])
            problems, stats0 = res["problems"], res["stats"]
            run.native_runs += stats0["valid_definitions"] + stats0["single_faults"]
            run.bounded.append({"what": "native fault injection (always): one definition with 3 states, 1 calibration, 2 controls, one 2-reading sensor; every listed single fault at first/last position through all five entry points", "bound": f"{stats0}", "failures": len(problems), "counted_as_proved": False})
        else:
            run.notes.append(f"early fault sweep produced no result: {err[-300:]}")
    except Exception as e:  # harness problems never become violations
        run.notes.append(f"early fault sweep failed: {e!r}")
    if need or problems:
        shapes = [(2, 1, 1, [2]), (3, 2, 2, [1, 2]), (1, 0, 0, [1])] if run.tier == "thorough" else [(2, 1, 1, [2])]
        more, stats = native_sweep(run, shapes, ("set", "list"), 4 if run.tier == "thorough" else 2)
        problems = problems + more
        run.bounded.append({"what": "native fault injection: valid definitions and every listed single fault at first/last position (+ random pairs) through ui.Model, python.compile, python.compile_ekf, cpp.compile, cpp.compile_ekf; generated files must not be written for refused definitions", "bound": f"{stats}", "failures": len(problems), "counted_as_proved": False})
    check_symbol_keyed(run)
    seen = set()
    for p in problems:
        key = (p["kind"], p["entry_point"], (p["fault"] or "").split(" for ")[0].split(" of ")[0])
        if key in seen:
            continue
        seen.add(key)
        what = f"{p['kind']} by {p['entry_point']}: " + (p["fault"] or p.get("error", ""))
        run.findings.append(Finding("C14.native.fault_injection", f"{p['entry_point']}:{key[2]}", what, {"language": "python", "inputs": {"shape": p["shape"], "container": p["container"], "seed": run.seed, "fault": p["fault"]}, "oracle_verdict": what}, True))
    for rep, ob, model, definitive in pending:
        confirmed = bool(problems)
        if not confirmed and not definitive:
            run.undecided.append(ob.name)
            continue
        payload = {"language": "python", "function": rep.key, "solver_result": "sat" if definitive else "candidate", "counter_model": smt.model_to_dict(model), "native_confirmation": [p["fault"] for p in problems[:5]], "inputs": {"shape": [2, 1, 1, [2]], "container": "set", "seed": run.seed}}
        run.findings.append(Finding(ob.name, rep.key.split(":")[-1], f"{ob.name} refuted" + (f"; native fault injection: {problems[0]['kind']} by {problems[0]['entry_point']}: {problems[0]['fault']}" if problems else ""), payload, confirmed, theory=ob.theory))


def symbol_keyed_readings(seed, m):
    """A VALID definition written in the library's own idiom - readings keyed by sympy Symbols, as in every example of the repository - with a
    sensor of `m` readings, through python.compile_ekf and cpp.compile_ekf.  Returns {entry point: None | 'ExcType: message'}."""
    import sympy

    from replay import scenarios

    sc = scenarios.Scenario(2, 0, 1, [m], seed=seed + 3)
    d = faults.Definition(sc, "set")
    d.sensor_models = {k: {sympy.Symbol(r): e for r, e in mp.items()} for k, mp in d.sensor_models.items()}
    d.sensor_noises = {k: {sympy.Symbol(r): v for r, v in mp.items()} for k, mp in d.sensor_noises.items()}
    return faults.run_entry_points(d, only={"python.compile_ekf", "cpp.compile_ekf"})


def check_symbol_keyed(run):
    fails = 0
    for m in (1, 2):
        res = symbol_keyed_readings(run.seed, m)
        run.native_runs += 1
        for ep in ("python.compile_ekf", "cpp.compile_ekf"):
            if res.get(ep) is not None:
                fails += 1
                what = f"{ep} refuses a valid definition whose sensor has {m} reading(s) keyed by sympy Symbols (the idiom of every example in the repository): {res.get(ep)}"
                run.findings.append(Finding("C14.native.valid_definition_with_symbol_keyed_readings", f"{ep}:{m}-reading sensor", what, {"language": "python", "inputs": {"symbol_keyed_readings": True, "readings": m, "seed": run.seed, "shape": [2, 0, 1, [m]]}, "oracle_verdict": what}, True))
    run.bounded.append({"what": "valid definitions with readings keyed by sympy Symbols (1 and 2 readings per sensor; the API annotates reading keys as Symbols and sensor keys as str) through python.compile_ekf and cpp.compile_ekf", "bound": "2 definitions x 2 entry points", "failures": fails, "counted_as_proved": False})


def replay_file(payload):
    inp = payload["inputs"]
    if inp.get("symbol_keyed_readings"):
        res = symbol_keyed_readings(inp.get("seed", 0), inp.get("readings", 2))
        bad = {k: v for k, v in res.items() if v is not None and k != "ui.Model"}
        print("replay C14 (readings keyed by Symbols):", bad or "accepted by python.compile_ekf and cpp.compile_ekf")
        return not bad
    shape = inp["shape"]
    problems, stats = faults.sweep(inp.get("seed", 0), [tuple(shape[:3]) + (shape[3],)], containers=(inp.get("container", "set"),), pairs=0)
    print("replay C14:", [f"{p['kind']} by {p['entry_point']}: {p['fault']}" for p in problems[:6]] or "every fault refused, valid definitions accepted")
    return not problems
