"""C16 - scikit-learn adapter's transform / mahalanobis / score are the filter's NIS."""
from __future__ import annotations

from contracts import sktransform as T
from pvc import driver, smt
from pvc.driver import Finding
from replay import sklearn_native

PROPERTY = "C16"
EXPLANATION = (
    "SklearnEKFAdapter.transform (py/formak/python.py) is symbolically executed for a data matrix with a symbolic number of rows, any number of "
    "controls and two generic sensors (inserted in reverse key order) with symbolic reading counts, against an opaque exported filter: the row loop is "
    "handled by an invariant against the recursive spec `run` (estimate after i rows), the slicing of each row into the control block and the sensors' "
    "column blocks is tracked symbolically (offsets k, k+m0), and every returned value is proved to be nu^T S^-1 nu of the innovation / innovation "
    "covariance recorded by the corresponding hand-run update (predict with dt = 0.1, sensors in key order); non-negativity from S positive definite; "
    "frame: only model_ is written. score is executed for a Mahalanobis vector of length 3 with symbolic entries and proved to be the documented "
    "10*bias + 1*variance + 0.01*size combination with exactly those components in the explanation. mahalanobis = flatten and repeatability are "
    "covered by the native hand-run comparison (bounded)."
)
ASSUMPTIONS = [
    "the exported filter is a pure function of the six parameters and its process_model / sensor_model are the C04/C05/C06 contracts (opaque here); it returns valid covariances (the gate does not fire inside transform)",
    "S positive definite => nu^T S^-1 nu >= 0 (Lean/Mathlib lemma)",
    "two generic sensors stand for any number (per-sensor column blocks are consecutive; exact unrolling over the sensor keys)",
    "score: vector length fixed to 3 (symbolic entries); numpy's float division by zero (-> non-finite -> ValueError) modelled as an exception; A-REAL",
    "width of X equals k + sum of reading counts (premise 'matching width')",
]
TRUSTED_BASE = ["pvc (own VC generator: /verif/pvc)", "z3 5.1", "python ast module"]


NON_DEFAULT = {"max_dt_sec": 0.05, "common_subexpression_elimination": False, "extra_validation": True}


def native(run, cases):
    problems = []
    for seed, rows, ns, k, ke in cases:
        run.native_runs += 1
        # every other estimator is configured away from the defaults (max_dt_sec, CSE off, extra validation on)
        extra = NON_DEFAULT if (len(problems) + run.native_runs) % 2 == 0 else None
        p, info = sklearn_native.transform_problems(seed, rows, ns, k, ke, config_extra=extra)
        for x in p:
            problems.append((x, {"seed": seed, "rows": rows, "n_sensors": ns, "controls": k, "k_edit": ke, "config_extra": extra}))
    return problems


def check(run):
    pending = []
    for rep in run.verify_many([(T.Transform(), {}), (T.Transform(include_states=True), {}), (T.Score(), {}), (T.Score(explain=False), {}), (T.Mahalanobis(), {})]):
        for ob, model, definitive in driver.refuted(run, rep):
            pending.append((rep, ob, model, definitive))
    need = run.tier == "thorough" or pending or run.undecided or any(r.status != "ok" for r in run.reports)
    problems = []
    if need:
        cases = [(run.seed, 5, 2, 1, None), (run.seed, 4, 2, 2, 3.0), (run.seed + 1, 6, 1, 1, None), (run.seed + 2, 5, 2, 0, None)] if run.tier == "thorough" else [(run.seed, 4, 2, 2, None)]
        problems = native(run, cases)
        run.bounded.append({"what": "native: transform / mahalanobis / score(explain) vs the exported filter run by hand; repeat call; parameters unchanged; sensors inserted in non-alphabetical order, several readings, 0-2 controls", "bound": f"{len(cases)} estimators x 4-6 rows", "failures": len(problems), "counted_as_proved": False})
        for p, inp in problems[:2]:
            run.findings.append(Finding("C16.py.native_hand_run", p.split("[")[0][:30], p, {"language": "python", "inputs": inp, "oracle_verdict": p}, True))
    # an INTEGER-typed data matrix (always run): a finite data matrix like any other
    run.native_runs += 1
    ip, info = sklearn_native.transform_problems(run.seed, 5, 2, 2, None, integer_data=True, config_extra=NON_DEFAULT)
    run.bounded.append({"what": "native: transform / mahalanobis / score of a data matrix of integer dtype, estimator configured away from the defaults (max_dt_sec 0.05, CSE off, extra validation), vs the exported filter run by hand on the same values", "bound": "1 estimator x 5 rows", "failures": len(ip), "counted_as_proved": False})
    for p in ip[:1]:
        inp = {"seed": run.seed, "rows": 5, "n_sensors": 2, "controls": 2, "k_edit": None, "integer_data": True, "config_extra": NON_DEFAULT}
        problems.append((p, inp))
        run.findings.append(Finding("C16.py.native_integer_matrix", "int-dtype", f"integer-typed data matrix: {p}", {"language": "python", "inputs": inp, "oracle_verdict": p}, True))
    # precise sensors and a quiet process (variances 1e-9 .. 4e-9, always run): the values are still the exported filter's NIS
    run.native_runs += 1
    pp, info = sklearn_native.transform_problems(run.seed + 1, 5, 2, 1, None, noise_scale=2e-9, calibrated=True)  # (a calibrated model, too)
    run.bounded.append({"what": "native: transform / mahalanobis / score of an estimator whose process and sensor variances are of order 1e-9 vs the exported filter run by hand", "bound": "1 estimator x 5 rows", "failures": len(pp), "counted_as_proved": False})
    for p in pp[:1]:
        inp = {"seed": run.seed + 1, "rows": 5, "n_sensors": 2, "controls": 1, "k_edit": None, "noise_scale": 2e-9, "calibrated": True}
        problems.append((p, inp))
        run.findings.append(Finding("C16.py.native_precise_sensors", "tiny-variance", f"variances of order 1e-9: {p}", {"language": "python", "inputs": inp, "oracle_verdict": p}, True))
    # a two-reading sensor whose readings live at scales 1e-8 apart (innovation covariance with condition number ~1e16, always run)
    run.native_runs += 1
    dp, info = sklearn_native.transform_problems(run.seed + 2, 5, 2, 1, None, disparate=True)
    run.bounded.append({"what": "native: transform / mahalanobis / score with a sensor whose two readings live at scales 1e-8 apart (S positive definite, condition number ~1e16) vs the exported filter run by hand with the full inverse", "bound": "1 estimator x 5 rows", "failures": len(dp), "counted_as_proved": False})
    for p in dp[:1]:
        inp = {"seed": run.seed + 2, "rows": 5, "n_sensors": 2, "controls": 1, "k_edit": None, "disparate": True}
        problems.append((p, inp))
        run.findings.append(Finding("C16.py.native_disparate_scales", "ill-conditioned", f"readings at scales 1e-8 apart: {p}", {"language": "python", "inputs": inp, "oracle_verdict": p}, True))
    # stateful: the same estimator transformed, reconfigured through set_params, transformed again (always run)
    run.native_runs += 1
    seq, info = sklearn_native.transform_sequence_problems(run.seed)
    run.bounded.append({"what": "native stateful sequence on one estimator: transform, set_params(innovation_filtering / noise), transform on data with an outlier row - each step vs the hand-run of the exported filter", "bound": "1 estimator x 4 steps x 6 rows", "failures": len(seq), "counted_as_proved": False})
    for p in seq[:1]:
        problems.append((p, {"sequence": True, "seed": run.seed}))
        run.findings.append(Finding("C16.py.native_sequence", "stateful", p, {"language": "python", "inputs": {"sequence": True, "seed": run.seed}, "oracle_verdict": p}, True))
    for rep, ob, model, definitive in pending:
        if not problems and (not definitive or ob.theory == "euf"):
            run.undecided.append(ob.name)
            continue
        run.findings.append(Finding(ob.name, rep.key.split(".")[-1], f"{ob.name} refuted" + (f"; native: {problems[0][0]}" if problems else ""), {"language": "python", "function": rep.key, "counter_model": smt.model_to_dict(model), "inputs": problems[0][1] if problems else {"seed": run.seed, "rows": 4, "n_sensors": 2, "controls": 2, "k_edit": None}}, bool(problems), theory=ob.theory))


def replay_file(payload):
    i = payload["inputs"]
    if i.get("sequence"):
        p, info = sklearn_native.transform_sequence_problems(i.get("seed", 0))
        print("replay C16 (stateful sequence):", p[:2] or "every step equals the hand-run of the exported filter")
        return not p
    p, info = sklearn_native.transform_problems(i["seed"], i["rows"], i["n_sensors"], i["controls"], i.get("k_edit"), integer_data=i.get("integer_data", False), config_extra=i.get("config_extra"), noise_scale=i.get("noise_scale", 1.0), disparate=i.get("disparate", False), calibrated=i.get("calibrated", False))
    print("replay C16:", p[:3] or "transform / mahalanobis / score equal the hand-run filter's NIS")
    return not p
