"""Per-program checks of the GENERATED C++ (C02(b), C08 SSA, numeric agreement for C07, compile matrix for C12)."""
from __future__ import annotations

import re

import sympy
import z3

from pvc import driver, smt
from pvc.driver import Finding
from pvc.sympy2z3 import Translator
from replay import cppgen, cxxtext, scenarios

FN = "generated C++ (py/formak/cpp.py + ast_fragments.py + templates, run on the working tree)"


def symvar_factory(T):
    return lambda name: T.sym(sympy.Symbol(name))


def validate_program(run, sc, tag, cse=True, ekf=True, prefix="C02"):
    """Translation validation of every generated per-model function of one program.  Returns list of problem strings."""
    header, source, gen = cppgen.generate(sc, ekf=ekf, cse=cse)
    problems = []
    try:
        L = cxxtext.Layouts(header, source)
        fns = cxxtext.split_functions(source)
    except cxxtext.TextError as e:
        return [f"layout: {e}"], header, source
    T = Translator()
    sv = symvar_factory(T)
    AS = sorted(sc.state, key=lambda s: s.name)
    AU = sorted(sc.control, key=lambda s: s.name)

    numeric_cache = {}

    def numeric_values(qual, objects):
        """The same body evaluated NUMERICALLY (floats, math.*) at two points: native confirmation of a symbolic disagreement."""
        if qual in numeric_cache:
            return numeric_cache[qual]
        out = []
        for k in (3, 4, -3):
            pt = sc.point(abs(k))
            if k < 0:
                # the same point with every state / control / calibration value made NEGATIVE (sign conventions: fmod vs Mod, sign, |.|)
                pt = {s: (v if s is sc.dt else -abs(v) if v != 0 else -type(v)(1, 2)) for s, v in pt.items()}
            vals = {s.name: float(v) for s, v in pt.items()}
            ev = cxxtext.Evaluator(L, objects, lambda nm: vals[nm])
            ev.numeric = True
            try:
                cells, ret = ev.run(fns[qual][1])
                out.append((pt, dict(ev.env), cells))
            except Exception:
                out.append(None)
        numeric_cache[qual] = out
        return out

    def prove(name, got, want, note="", numeric=None):
        """numeric: (qualified function, objects, key into env / cells, sympy expression) for the native confirmation."""
        ob = run.prove(f"{prefix}.cxx.{tag}.{name}", list(T.side_conditions), got == want, function=FN, timeout_ms=4000, ring_first=True)
        if ob.result.status == "unsat":
            return
        confirmed = None
        if numeric is not None:
            qual, objects, key, expr = numeric
            for item in numeric_values(qual, objects):
                if item is None:
                    continue
                pt, env, cells = item
                gotv = env.get(key) if isinstance(key, str) else cells.get(key)
                try:
                    wantv = float(sympy.sympify(expr).subs({s: sympy.Float(float(v)) for s, v in pt.items()}))
                except Exception:
                    continue
                if gotv is None:
                    continue
                if abs(gotv - wantv) > 1e-9 * max(1.0, abs(wantv)):
                    confirmed = f"at {({s.name: float(v) for s, v in pt.items()})} the generated statement evaluates to {gotv!r}, the expression to {wantv!r}"
                    break
                confirmed = confirmed or False
        if confirmed:
            problems.append((ob, f"{name}: generated C++ value differs from the symbolic expression {note}: {confirmed}"))
        elif confirmed is False or ob.result.status != "sat" or T.used_uf:
            # not decided symbolically and numerically equal at the sample points: undecided, never a violation
            ob.result.status = "unknown"
            run.undecided.append(ob.name + " (not decided symbolically; numerically equal at the sample points)")
        else:
            problems.append((ob, f"{name}: generated C++ value differs from the symbolic expression {note}"))

    def flag(name, ok, why):
        ob = run.prove(f"{prefix}.cxx.{tag}.{name}", [], z3.BoolVal(bool(ok)), function=FN)
        if not ok:
            problems.append((ob, f"{name}: {why}"))

    objs_ekf = {"state.state": "State", "calibration": "Calibration", "control": "Control"}
    objs_model = {"state": "State", "calibration": "Calibration", "control": "Control"}
    state_by_idx = {}
    try:
        for s in AS:
            flag(f"layout.State.{s.name}", L.symbol_at("State", s.name) == s.name, f"accessor State::{s.name}() returns the value given as '{L.symbol_at('State', s.name)}'")
            state_by_idx[L.index_of("State", s.name)] = s
        for u in AU:
            flag(f"layout.Control.{u.name}", L.symbol_at("Control", u.name) == u.name, f"accessor Control::{u.name}() returns the value given as '{L.symbol_at('Control', u.name)}'")
        for c in sc.calibration:
            flag(f"layout.Calibration.{c.name}", L.symbol_at("Calibration", c.name) == c.name, f"accessor Calibration::{c.name}() returns the value given as '{L.symbol_at('Calibration', c.name)}'")
        if ekf:
            for s in AS:
                i, j = L.accessor["Covariance"][s.name]
                flag(f"layout.Covariance.{s.name}", i == j == L.index_of("State", s.name), f"Covariance::{s.name}() reads ({i},{j}) but the state lives at row {L.index_of('State', s.name)}")
    except (cxxtext.TextError, KeyError) as e:
        flag("layout.parse", False, str(e))
        return problems, header, source

    def run_body(qual, objects):
        if qual not in fns:
            flag(f"{qual}.present", False, "function not generated")
            return None, None, None
        ev = cxxtext.Evaluator(L, objects, sv)
        try:
            cells, ret = ev.run(fns[qual][1])
        except cxxtext.TextError as e:
            flag(f"{qual}.well_formed", False, str(e))
            return None, None, ev
        flag(f"{qual}.single_assignment_def_before_use", not ev.problems, "; ".join(ev.problems))
        return cells, ret, ev

    mq = "ExtendedKalmanFilterProcessModel::model" if ekf else "Model::model"
    cells, ret, ev = run_body(mq, objs_ekf if ekf else objs_model)
    if ret is not None:
        des = dict(re.findall(r"\.(\w+)\s*=\s*(\w+)", ret))
        if not des:
            m0 = re.match(r"State\(\{(.*)\}\)", ret)
            vals0 = [x.strip() for x in m0.group(1).split(",")] if m0 else []
            des = dict(zip(L.options_fields.get("StateOptions", []), vals0)) if len(vals0) == len(L.options_fields.get("StateOptions", [])) else {}
        for s in AS:
            f = L.symbol_at("State", s.name)  # the option field whose value State::s() returns
            if f not in des or des[f] not in ev.env:
                flag(f"{mq}.returns.{s.name}", False, f"no value returned for state {s.name}")
                continue
            prove(f"{mq}.value.{s.name}", ev.env[des[f]], T.tr(sc.state_model[s]), f"state_model[{s.name}]", numeric=(mq, objs_ekf if ekf else objs_model, des[f], sc.state_model[s]))
    if not ekf:
        return problems, header, source
    n, k = len(AS), len(AU)
    for qual, rows, cols, colstruct, colsyms in (("ExtendedKalmanFilterProcessModel::process_jacobian", n, n, "State", AS), ("ExtendedKalmanFilterProcessModel::control_jacobian", n, k, "Control", AU)):
        cells, ret, ev = run_body(qual, objs_ekf)
        if cells is None:
            continue
        col_by_idx = {L.index_of(colstruct, c.name): c for c in colsyms}
        flag(f"{qual}.all_cells_assigned", {(i, j) for (_, i, j) in cells} == {(i, j) for i in range(rows) for j in range(cols)}, "not every cell of the result matrix is assigned")
        for (tgt, i, j), term in cells.items():
            if i in state_by_idx and j in col_by_idx:
                r, c = state_by_idx[i], col_by_idx[j]
                prove(f"{qual}.cell_{i}_{j}", term, T.tr(real_diff(sc.state_model[r], c)), f"d {r.name}' / d {c.name}", numeric=(qual, objs_ekf, (tgt, i, j), real_diff(sc.state_model[r], c)))
            else:
                flag(f"{qual}.cell_{i}_{j}.in_range", False, "cell outside the matrix")
    cells, ret, ev = run_body("ExtendedKalmanFilterProcessModel::covariance", objs_ekf)
    if cells is not None:
        ctl_by_idx = {L.index_of("Control", u.name): u for u in AU}
        flag("process_noise.all_cells_assigned", {(i, j) for (_, i, j) in cells} == {(i, j) for i in range(k) for j in range(k)}, "not every cell of the process noise matrix is assigned")
        for (tgt, i, j), term in cells.items():
            want = sc.process_noise[ctl_by_idx[i]] if i == j and i in ctl_by_idx else 0.0
            prove(f"process_noise.cell_{i}_{j}", term, T.tr(sympy.Float(want)), "configured noise")
    for sname in sorted(sc.sensor_models):
        typ = sname.title()
        sm = sc.sensor_models[sname]
        rn = sorted(sm)
        objs = {"state.state": "State", "calibration": "Calibration"}
        try:
            for r in rn:
                flag(f"layout.{typ}.{r}", L.symbol_at(typ, r) == r, f"accessor {typ}::{r}() returns the value given as '{L.symbol_at(typ, r)}'")
            rd_by_idx = {L.index_of(typ, r): r for r in rn}
        except (cxxtext.TextError, KeyError) as e:
            flag(f"layout.{typ}", False, str(e))
            continue
        cells, ret, ev = run_body(f"{typ}SensorModel::model", objs)
        if ret is not None:
            m = re.match(rf"{typ}Options\s*\{{(.*)\}}", ret)
            vals = [x.strip() for x in m.group(1).split(",")] if m else []
            fields = L.options_fields.get(f"{typ}Options", [])
            flag(f"{typ}SensorModel::model.returns_all_readings", len(vals) == len(fields) == len(rn), f"returns {vals} for option fields {fields}")
            if len(vals) == len(fields):
                byfield = dict(zip(fields, vals))
                for r in rn:
                    f = L.symbol_at(typ, r)
                    if byfield.get(f) in ev.env:
                        prove(f"{typ}SensorModel::model.value.{r}", ev.env[byfield[f]], T.tr(sm[r]), f"sensor_model[{sname}][{r}]", numeric=(f"{typ}SensorModel::model", objs, byfield[f], sm[r]))
                    else:
                        flag(f"{typ}SensorModel::model.value.{r}", False, "no value returned")
        cells, ret, ev = run_body(f"{typ}SensorModel::jacobian", objs)
        if cells is not None:
            flag(f"{typ}SensorModel::jacobian.all_cells_assigned", {(i, j) for (_, i, j) in cells} == {(i, j) for i in range(len(rn)) for j in range(n)}, "not every cell assigned")
            for (tgt, i, j), term in cells.items():
                if i in rd_by_idx and j in state_by_idx:
                    prove(f"{typ}SensorModel::jacobian.cell_{i}_{j}", term, T.tr(real_diff(sm[rd_by_idx[i]], state_by_idx[j])), f"d {rd_by_idx[i]} / d {state_by_idx[j].name}", numeric=(f"{typ}SensorModel::jacobian", objs, (tgt, i, j), real_diff(sm[rd_by_idx[i]], state_by_idx[j])))
        cells, ret, ev = run_body(f"{typ}SensorModel::covariance", objs)
        if cells is not None:
            flag(f"{typ}SensorModel::covariance.all_cells_assigned", {(i, j) for (_, i, j) in cells} == {(i, j) for i in range(len(rn)) for j in range(len(rn))}, "not every cell assigned")
            for (tgt, i, j), term in cells.items():
                want = sc.sensor_noises[sname][rd_by_idx[i]] if i == j and i in rd_by_idx else 0.0
                prove(f"{typ}SensorModel::covariance.cell_{i}_{j}", term, T.tr(sympy.Float(want)), "configured reading noise")
    return problems, header, source


def real_diff(expr, var):
    """ORACLE: the partial derivative of the REAL function (symbols without assumptions given real=True first, then named back)."""
    import sympy

    d = sympy.diff(expr, var)
    if not d.has(sympy.Derivative):
        return d  # sympy's own derivative is in closed form: it IS the derivative of the real function wherever that is differentiable
    J, rs = scenarios.real_jacobian(sympy.Matrix([expr]), [var])
    return J[0, 0].xreplace({v: k for k, v in rs.items()})


def corpus(seed, n, ekf=True):
    """(n_state, n_calibration, n_control, readings-per-sensor) shapes covering the four control x calibration combinations."""
    shapes = [(2, 1, 1, [2]), (3, 0, 2, [1, 2]), (2, 2, 0, [3]), (1, 0, 0, [1]), (3, 1, 2, []), (2, 0, 1, [2, 1]), (4, 1, 1, [2]), (2, 1, 0, [1])]
    out = []
    for t in range(n):
        shp = shapes[t % len(shapes)]
        out.append((scenarios.Scenario(shp[0], shp[1], shp[2], shp[3], seed=seed + 31 * t, transcendental=(t % 4 == 3), share_reading=True, rational=(t % 3 == 1), nonsmooth=(t % 5 == 2), magnitude=(t % 6 == 4), redundant=(t % 7 == 5), tiny=(t % 6 == 3)), shp))
    return out


def ssa_problems(shape, seed):
    sc = scenarios.Scenario(shape[0], shape[1], shape[2], [2], seed=seed)
    run = driver.PropertyRun("C08", "quick", seed)
    probs, h, s = validate_program(run, sc, "ssa", cse=True, prefix="C08")
    return [p for _, p in probs if "single_assignment" in p or "before" in p], sc


def check_c08(run):
    n = 6 if run.tier == "thorough" else 2
    fails = 0
    for t, (sc, shp) in enumerate(corpus(run.seed, n)):
        for cse in (True, False):
            probs, h, s = validate_program(run, sc, f"prog{t}.cse_{'on' if cse else 'off'}", cse=cse, prefix="C08")
            for ob, p in probs[:1]:
                fails += 1
                run.findings.append(Finding(ob.name, "cxx", f"program shape {shp}, cse={cse}: {p}", {"language": "c++", "inputs": {"shape": list(shp), "seed": run.seed + 31 * t, "cse": cse}, "model_definition": sc.describe()}, True))
    # a plain model whose wrapped quantity Mod(v, 3) is SHARED by two updates: with CSE on it is hoisted into a temporary, which must
    # be printed with the same meaning as everything else (floored modulo; negative operands are sampled)
    wm = scenarios.Scenario(2, 0, 1, [1], seed=run.seed + 11, wrapped="negative")
    for cse in (True, False):
        probs, h, s = validate_program(run, wm, f"wrapped_model.cse_{'on' if cse else 'off'}", cse=cse, ekf=False, prefix="C08")
        for ob, p in probs[:1]:
            fails += 1
            run.findings.append(Finding(ob.name, "cxx.wrapped", f"plain model with a shared Mod(v, 3), cse={cse}: {p}", {"language": "c++", "inputs": {"shape": [2, 0, 1, [1]], "seed": run.seed + 11, "cse": cse, "ekf": False, "wrapped_model": True}, "model_definition": wm.describe()}, True))
    run.bounded.append({"what": "generated C++ per program: bodies parsed, every temporary assigned once before use, every output proved equal (z3) to the symbolic expression with CSE on AND off", "bound": f"{n} programs x 2 CSE settings", "failures": fails, "counted_as_proved": False})
