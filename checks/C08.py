"""C08 - common-subexpression elimination never changes a result."""
from __future__ import annotations

import random

import z3

from checks import C01
from checks.ekf_common import triage_generic
from contracts import cppgen, pyblock
from pvc import driver
from pvc.driver import Finding
from replay import scenarios

PROPERTY = "C08"
EXPLANATION = (
    "Python half: BasicBlock._compile and BasicBlock.execute (py/formak/python.py) are verified for BOTH settings of common_subexpression_elimination "
    "against one spec term - value j = ev(original statement j, E) - with a symbolic CSE program (any number of temporaries): on/off equality is the "
    "corollary. C++ half: cpp.BasicBlock.compile (py/formak/cpp.py) is verified to emit one `double t_i = ...` declaration per cse replacement in cse "
    "order BEFORE the target assignments in statement order; with D-cse (a temporary's definition mentions inputs and earlier temporaries only) this is "
    "'assigned exactly once, before first use, from inputs and earlier temporaries'. Per program, the generated C++ bodies are parsed and checked for "
    "single assignment / definition before use, and CSE-on vs CSE-off outputs are compared (C02's translation validation; bounded over programs)."
)
ASSUMPTIONS = C01.ASSUMPTIONS + ["D-ccode: ccode prints an expression with the value of its argument (per-program validation in C02)"]
TRUSTED_BASE = C01.TRUSTED_BASE


def native_on_off(shape, seed, container="set"):
    """Compiled python model with CSE on vs off on a model with many nested shared sub-expressions."""
    import sympy
    from replay import shim
    from replay.native import repo_import

    sc = scenarios.Scenario(shape[0], shape[1], shape[2], [1], seed=seed)
    syms = sc.state + sc.calibration + sc.control
    if len(syms) >= 2:
        shared = (syms[0] * syms[1] + 1) ** 2
        deeper = (shared + syms[-1]) * (shared + syms[-1] + 2)
        for i, s in enumerate(sc.state):
            sc.state_model[s] = sc.state_model[s] + (i + 1) * shared + deeper * (i + 2) + shared * deeper
    problems = []
    try:
        py = shim.install()
        ui = repo_import("formak.ui")
        outs = []
        for cse in (True, False):
            model = py.compile(sc.ui_model(ui, container), calibration_map=dict(sc.calibration_map), config={"common_subexpression_elimination": cse})
            from fractions import Fraction

            p0 = sc.point(seed)
            fixed = set(sc.calibration) | {sc.dt}
            # the SAME compiled object at a point, at two nearby points (relative 4e-6, absolute 2^-28) and back
            p1 = {kk: (v * Fraction(1000004, 1000000) if kk not in fixed else v) for kk, v in p0.items()}
            p2 = {kk: (v + Fraction(1, 2**28) if kk not in fixed else v) for kk, v in p1.items()}
            run_outs = []
            for step, pt in enumerate([p0, p1, p2, p0]):
                state = model.State(**{s.name: float(pt[s]) for s in sc.state})
                control = model.Control(**{u.name: float(pt[u]) for u in sc.control})
                out = model.model(float(pt[sc.dt]), state, control) if sc.control else model.model(float(pt[sc.dt]), state)
                vals = [float(v) for v in out.data[:, 0]]
                run_outs += vals
                for idx, s in enumerate(model.arglist_state):
                    want = float(scenarios.exact(sc.state_model[s], pt))
                    if abs(vals[idx] - want) > 1e-9 * max(1.0, abs(want)):
                        problems.append(f"cse={cse}, call {step} on the same compiled model: state {s.name} = {vals[idx]}, expression value {want}")
            outs.append(run_outs)
        if not problems and any(abs(a - b) > 1e-9 * max(1.0, abs(a)) for a, b in zip(*outs)):
            problems.append(f"CSE on and off disagree: {outs[0]} vs {outs[1]}")
    except Exception as e:
        problems.append(f"{type(e).__name__}: {(str(e).splitlines() or [''])[0]}")
    return problems, sc


def native_sign_sensitive(shape=None, seed=0, container="set"):
    """Shared sub-expressions under sign-sensitive functions (Abs, atan2, sqrt of a square), evaluated where the shared term is
    negative: rewrites that are only valid for positive temporaries change the value with CSE on."""
    import math

    import sympy
    from replay import shim
    from replay.native import repo_import

    py = shim.install()
    ui = repo_import("formak.ui")
    dt, x, y, lx, ly = (sympy.Symbol(n) for n in ("dt", "x", "y", "lx", "ly"))
    dx, dy = lx - x, ly - y
    sm = {x: x + dt * sympy.Abs(dx) + sympy.sqrt(dx**2) * dy, y: y + sympy.atan2(dy, dx) + dx * dy * dt}
    sc = scenarios.Scenario(1, 0, 0, [1], seed=seed)
    problems = []
    try:
        model = ui.Model(dt=dt, state={x, y}, control=set(), calibration={lx, ly}, state_model=sm)
        outs = {}
        for cse in (True, False):
            m = py.compile(model, calibration_map={lx: -2.0, ly: 0.5}, config={"common_subexpression_elimination": cse})
            out = m.model(0.1, m.State(x=3.0, y=1.25))
            outs[cse] = [float(v) for v in out.data[:, 0]]
        vals = {x: 3.0, y: 1.25, lx: -2.0, ly: 0.5, dt: 0.1}
        want = [float(sm[s].subs(vals)) for s in sorted(sm, key=lambda s: s.name)]
        for cse in (True, False):
            if any(abs(a - b) > 1e-9 * max(1, abs(b)) for a, b in zip(outs[cse], want)):
                problems.append(f"cse={cse}: compiled model gives {outs[cse]}, the expressions (Abs / sqrt of a square / atan2 of shared terms, shared term negative) evaluate to {want}")
    except Exception as e:
        problems.append(f"{type(e).__name__}: {(str(e).splitlines() or [''])[0]}")
    return problems, sc


def native_tiny_constant(seed=0):
    """A model whose constants are physically tiny (G = 6.674e-11, a picofarad, the elementary charge, Boltzmann's constant): every output that is a PURE multiple of such a constant is
    compared RELATIVE TO ITS OWN MAGNITUDE, CSE on and off, python filter and (thorough) generated C++.  Returns (problems, scenario)."""
    import warnings

    import numpy as np
    import sympy

    sc = scenarios.Scenario(3, 1, 1, [1], seed=seed + 5)
    G, pF = sympy.Float(6.674e-11), sympy.Float(3.3e-12)
    a, b, c3 = sc.state[0], sc.state[1], sc.state[2]
    cal = sc.calibration[0]
    sc.state_model[a] = G * cal * b + G * a          # gravity-like pull: nothing of ordinary magnitude in this update
    sc.state_model[b] = b + sc.dt * a + pF * c3 * c3
    # ... and constants far below any absolute tolerance one might pick (elementary charge, Boltzmann's constant): the third update is
    # a PURE multiple of them, so a constant snapped to 0 or to a few digits shows at full relative size
    qe, kB = sympy.Float(1.602176634e-19), sympy.Float(1.380649e-23)
    sc.state_model[b] = sc.state_model[b] + qe * a * b
    sc.state_model[c3] = kB * c3 * cal
    # ... a magnitude term on a symbol without assumptions (its derivative takes the library's real-valued differentiation path) next
    # to a state and a control entering through Planck's constant alone: entries of the process / control Jacobians are the bare number 6.6e-34
    sc.magnitude = True  # (points avoid the kink of |.|)
    sc.state_model[c3] = sc.state_model[c3] + pF * sympy.Abs(a) + sympy.Float(6.62607015e-34) * b  # d/db of this row is the bare number 6.6e-34
    if sc.control:
        sc.state_model[c3] = sc.state_model[c3] + sympy.Float(6.62607015e-34) * sc.control[0]
    key = sc.sensor_names[0]
    r0 = sorted(sc.sensor_models[key])[0]
    sc.sensor_models[key][r0] = G * a * b + pF * c3
    pt = sc.point(seed)
    sub = {k: sympy.Rational(v.numerator, v.denominator) for k, v in pt.items()}
    AS = sorted(sc.state, key=lambda s: s.name)
    AU = sorted(sc.control, key=lambda s: s.name)
    F = sympy.Matrix([sc.state_model[s] for s in AS])
    Gx, Fx = scenarios.jacobian_at(F, AS, sub), F.subs(sub)
    Vx = scenarios.jacobian_at(F, AU, sub) if AU else None
    rn = sorted(sc.sensor_models[key])
    h = sympy.Matrix([sc.sensor_models[key][r] for r in rn])
    Hx = scenarios.jacobian_at(h, AS, sub)
    problems = []

    def rel(tag, got, want):
        w = float(want)
        g = float(got)
        if w == 0.0:
            ok = g == 0.0
        else:
            ok = abs(g - w) <= 1e-9 * abs(w)
        if not ok:
            problems.append(f"{tag} = {g!r}, exact {w!r}")

    outs = {}
    with warnings.catch_warnings():
        warnings.simplefilter("ignore")
        for cse in (True, False):
            try:
                py, ekf = scenarios.build_ekf(sc, config={"common_subexpression_elimination": cse})
                state, ctl = scenarios.named_state(ekf, sc, pt), scenarios.named_control(ekf, sc, pt)
                r = ekf.process_model(float(pt[sc.dt]), state, ekf.Covariance(), ctl)
                J = ekf.process_jacobian(float(pt[sc.dt]), state, ctl)
                H = ekf.sensor_jacobian(key, state)
                if AU:
                    V = ekf.control_jacobian(float(pt[sc.dt]), state, ctl)
                    for i in range(sc.n):
                        for j in range(len(AU)):
                            rel(f"CSE {'on' if cse else 'off'}: control_jacobian[{i},{j}]", V[i, j], Vx[i, j])
                for i in range(sc.n):
                    rel(f"CSE {'on' if cse else 'off'}: state {AS[i].name}", r.state.data[i, 0], Fx[i, 0])
                    for j in range(sc.n):
                        rel(f"CSE {'on' if cse else 'off'}: process_jacobian[{i},{j}]", J[i, j], Gx[i, j])
                for i in range(len(rn)):
                    for j in range(sc.n):
                        rel(f"CSE {'on' if cse else 'off'}: sensor_jacobian[{i},{j}]", H[i, j], Hx[i, j])
            except Exception as e:
                problems.append(f"CSE {'on' if cse else 'off'}: {type(e).__name__}: {(str(e).splitlines() or [''])[0][:120]}")
    return problems, sc


def native_pole_form():
    """|x| next to a pole at x on symbols declared real (function zoo form abs_form_with_pole): python, and the generated C++"""
    from replay import zoo

    problems, summary, sc = zoo.run_form("abs_form_with_pole", True, cxx=True, seed=3)
    return problems, sc


native_pole_form.replay_inputs = {"zoo_form": "abs_form_with_pole", "assumptions": True, "cxx": True, "seed": 3}


def check(run):
    pole = [native_sign_sensitive, native_pole_form]
    for c in (pyblock.Compile(True), pyblock.Compile(False), pyblock.Execute(True), pyblock.Execute(False)):
        rep = run.verify(c, pyblock.compile_callees("formak.python"))
        triage_generic(run, rep, native_on_off, c.key.split(".")[-1], extra_native=pole)
    for c in (cppgen.CppBlockCompile(True), cppgen.CppBlockCompile(False)):
        rep = run.verify(c, pyblock.compile_callees("formak.cpp"))
        triage_generic(run, rep, cxx_ssa_native, "cpp.BasicBlock.compile", extra_native=pole)
    for module in ("formak.python", "formak.cpp"):
        if pyblock.has_guarded_simplify(driver.REPO, module):
            rep = run.verify(pyblock.GuardedSimplify(module), {})
            triage_generic(run, rep, native_on_off, "_simplify", extra_native=pole)
    shapes = [(3, 1, 2), (2, 2, 0), (4, 0, 1)] if run.tier == "thorough" else [(3, 1, 2)]
    fails = 0
    for shp in shapes:
        run.native_runs += 1
        problems, sc = native_on_off(shp, run.seed)
        if problems:
            fails += 1
            run.findings.append(Finding("C08.py.native_on_off", "python", f"shape {shp}: {problems[0]}", {"language": "python", "inputs": {"shape": list(shp), "seed": run.seed}, "model_definition": sc.describe(), "oracle_verdict": problems[:4]}, True))
    run.native_runs += 1
    problems, sc = native_sign_sensitive()
    if problems:
        fails += 1
        run.findings.append(Finding("C08.py.native_sign_sensitive", "python", problems[0], {"language": "python", "inputs": {"shape": [2, 2, 0], "seed": run.seed, "sign_sensitive": True}, "oracle_verdict": problems[:3]}, True))
    from checks import C01
    from replay import kalman

    C01.native_branchy(run, "C08")
    # the FILTER with CSE on and off: every Jacobian, prediction and update of a stateful sequence against the exact oracle
    ff = 0
    for linear, cse, magnitude in ((True, True, False), (True, False, False), (False, True, False), (False, False, False), (False, True, True), (False, False, True)):
        run.native_runs += 1
        problems, fsc = kalman.native_sequence(run.seed, linear=linear, k_edit=3.0, cse=cse, magnitude=magnitude)
        if problems:
            ff += 1
            run.findings.append(Finding("C08.py.native_filter_sequence", f"cse={cse}", f"{'linear' if linear else 'generic'} filter{' with |v| terms on symbols without assumptions' if magnitude else ''} compiled with CSE {'on' if cse else 'off'}: {problems[0]}", {"language": "python", "inputs": {"shape": [3, 1, 2], "seed": run.seed, "filter_sequence": True, "cse": cse, "linear": linear, "magnitude": magnitude}, "model_definition": fsc.describe(), "oracle_verdict": problems[:4]}, True))
            break
    run.bounded.append({"what": "the compiled FILTER with CSE on and with CSE off: Jacobians, predictions (also chained) and sensor updates of one stateful sequence, each against the exact oracle", "bound": "3 models (linear, generic, generic with |v| terms whose derivative must not be handed to CSE unevaluated) x 2 CSE settings", "failures": ff, "counted_as_proved": False})
    # function zoo: one model per elementary-function form (|v|, Piecewise, Max, atan2, sec, 1/a**3, ...), CSE on and off, against the exact oracle
    from replay import zoo

    zf = 0
    names = list(zoo.FORMS) if run.tier == "thorough" else list(zoo.QUICK)
    cases = [(nm, assume) for nm in names for assume in ((False, True) if run.tier == "thorough" else (False,))]
    if run.tier != "thorough":
        cases.append(("abs_form_with_pole", True))  # |x| next to a pole at x, symbols declared real: simplify() builds a ComplexInfinity branch (D15)
    refused = 0
    for nm, assume in cases:
        run.native_runs += 1
        problems, summary, zsc = zoo.run_form(nm, assume, cxx=run.tier == "thorough", seed=3)
        refused += sum(1 for v in summary.values() if str(v).startswith("refused"))
        if problems:
            zf += 1
            run.findings.append(Finding("C08.py.native_function_zoo", nm, problems[0], {"language": "python", "inputs": {"zoo_form": nm, "assumptions": assume, "cxx": run.tier == "thorough", "seed": 3}, "model_definition": zsc.describe(), "oracle_verdict": problems[:4]}, True))
            if zf >= 3:
                break
    run.bounded.append({"what": "function zoo: one filter per elementary-function form (|v|, sqrt|v|, Piecewise, Max/Min, atan2, sec/cot/csc, sinc, erf, fractional and negative powers, ...) compiled with CSE on and off: state update and all three Jacobians against the exact real-valued oracle" + ("; generated C++ compiled and compared with the python filter" if run.tier == "thorough" else ""), "bound": f"{len(cases)} models x 2 CSE settings, one point each; {refused} back-end/setting combinations refused the form loudly (not a failure)", "failures": zf, "counted_as_proved": False})
    run.native_runs += 1
    tp, tsc = native_tiny_constant(run.seed)
    run.bounded.append({"what": "filter of a model whose constants are physically tiny (6.674e-11, 3.3e-12): state update and Jacobians, CSE on and off, each entry compared relative to its OWN magnitude", "bound": "1 model x 2 CSE settings", "failures": len(tp), "counted_as_proved": False})
    for p in tp[:1]:
        run.findings.append(Finding("C08.py.native_tiny_constant", "tiny-constant", f"model with constants 6.674e-11 and 3.3e-12: {p}", {"language": "python", "inputs": {"tiny_constant": True, "seed": run.seed}, "model_definition": tsc.describe(), "oracle_verdict": tp[:4]}, True))
    run.native_runs += 1
    mp = native_configured_modules(run.seed)
    run.bounded.append({"what": "model compiled with Config.python_modules naming a user function and overriding a known one, both inside shared sub-expressions: every output, CSE on and off, against the expression with the configured meaning", "bound": "1 model x 2 CSE settings x 3 points", "failures": len(mp), "counted_as_proved": False})
    for p in mp[:1]:
        run.findings.append(Finding("C08.py.native_configured_modules", "modules", p, {"language": "python", "inputs": {"configured_modules": True, "seed": run.seed}, "oracle_verdict": mp[:4]}, True))
    run.bounded.append({"what": "compiled python model with nested shared sub-expressions: CSE on vs off vs exact sympy, four calls on the same compiled object (a point, two nearby points, the first point again)", "bound": f"{len(shapes)} programs", "failures": fails, "counted_as_proved": False})
    try:
        from checks import cxx_generated

        cxx_generated.check_c08(run)
    except ImportError:
        run.notes.append("generated-C++ per-program SSA check not built yet")


def native_configured_modules(seed=0):
    """Config.python_modules away from its default: the user's own function rho (known only through the configured modules) and an
    OVERRIDE of a known name (sec) sit inside sub-expressions shared between updates, so with CSE on they are compiled as temporaries.
    Every output, CSE on and off, must be the value of the symbolic expression with the configured meaning of both functions."""
    import math
    import warnings

    import numpy as np
    import sympy

    from replay import shim
    from replay.native import repo_import

    py = shim.install()
    ui = repo_import("formak.ui")
    dt, x, v, w, u = sympy.symbols("dt x v w u")
    rho = sympy.Function("rho")
    shared, folded = rho(v * w + 1), sympy.sec(x - w)
    sm = {x: x + dt * shared * v + folded, v: v - dt * shared * u + 2 * folded, w: w + dt * shared + folded * v}
    rho_impl = lambda t: 0.5 * t * t + 2.0
    sec_impl = lambda t: 2.0 / np.cos(t) + 1.0  # deliberately NOT the secant: the configured modules decide what the name means
    modules = ({"rho": rho_impl, "sec": sec_impl}, "numpy")
    rng = np.random.default_rng(seed + 31)
    problems = []
    with warnings.catch_warnings():
        warnings.simplefilter("ignore")
        for cse in (True, False):
            try:
                model = ui.Model(dt=dt, state={x, v, w}, control={u}, state_model=dict(sm))
                m = py.compile(model, config={"python_modules": modules, "common_subexpression_elimination": cse})
            except Exception as e:
                problems.append(f"compile with Config.python_modules naming the user's functions (CSE {'on' if cse else 'off'}) raised {type(e).__name__}: {e}")
                continue
            for _ in range(3):
                pt = {k: float(rng.uniform(-1.2, 1.2)) for k in ("x", "v", "w", "u")}
                try:
                    out = m.model(0.1, m.State(x=pt["x"], v=pt["v"], w=pt["w"]), m.Control(u=pt["u"]))
                except Exception as e:
                    problems.append(f"model() with the configured functions (CSE {'on' if cse else 'off'}) raised {type(e).__name__}: {e}")
                    break
                sh, fo = rho_impl(pt["v"] * pt["w"] + 1), sec_impl(pt["x"] - pt["w"])
                want = {"x": pt["x"] + 0.1 * sh * pt["v"] + fo, "v": pt["v"] - 0.1 * sh * pt["u"] + 2 * fo, "w": pt["w"] + 0.1 * sh + fo * pt["v"]}
                names = [str(n) for n in m.arglist_state]
                for i, nm in enumerate(names):
                    got = float(out.data[i, 0])
                    if not math.isclose(got, want[nm], rel_tol=1e-9, abs_tol=1e-12):
                        problems.append(f"CSE {'on' if cse else 'off'}, state {nm} at {pt}: {got!r}, but with the configured rho and sec the expression is {want[nm]!r}")
    return problems


def cxx_ssa_native(shape, seed, container="set"):
    try:
        from checks import cxx_generated

        return cxx_generated.ssa_problems(shape, seed)
    except ImportError:
        return [], scenarios.Scenario(1, 0, 0, [1])


def replay_file(payload):
    inp = payload["inputs"]
    if inp.get("wrapped_model"):
        from checks import C02

        return C02.replay_file(payload)
    if inp.get("configured_modules"):
        mp = native_configured_modules(inp.get("seed", 0))
        print("replay C08 (user-supplied python_modules):", mp[:3] or "every output has the value the configured functions give, CSE on and off")
        return not mp
    if inp.get("tiny_constant"):
        tp, _ = native_tiny_constant(inp.get("seed", 0))
        print("replay C08 (physically tiny constants):", tp[:3] or "every entry agrees relative to its own magnitude, CSE on and off")
        return not tp
    if inp.get("zoo_form"):
        from replay import zoo

        problems, summary, _ = zoo.run_form(inp["zoo_form"], inp.get("assumptions", False), cxx=inp.get("cxx", False), seed=inp.get("seed", 3))
        print("replay C08 (function zoo):", problems[:3] or f"as specified {summary}")
        return not problems
    if inp.get("filter_sequence"):
        from replay import kalman

        problems, _ = kalman.native_sequence(inp.get("seed", 0), linear=inp.get("linear", False), k_edit=3.0, cse=inp.get("cse"), magnitude=inp.get("magnitude", False))
        print("replay C08 (filter sequence):", problems[:3] or "as specified")
        return not problems
    if inp.get("branchy") or inp.get("passthrough") or inp.get("rename"):
        from checks import C01

        return C01.replay_file(payload)
    if inp.get("sign_sensitive") or inp.get("extra_scenario"):
        problems, sc = native_sign_sensitive()
        print("replay C08:", problems[:2] or "sign-sensitive shared sub-expressions agree")
        return not problems
    problems, sc = native_on_off(tuple(inp["shape"][:3]), inp.get("seed", 0))
    print("replay C08:", problems[:3] or "CSE on and off agree with the symbolic expressions")
    return not problems
