"""C02 - generated C++ computes the symbolic model, its derivatives and noise matrices."""
from __future__ import annotations

import random

import traceback

import z3

from checks import cxx_generated as G
from pvc import driver
from pvc.driver import Finding
from replay import cppgen, scenarios

PROPERTY = "C02"
LEVEL = "translation_validation"
EXPLANATION = (
    "(a) For ALL programs: the statement generators of py/formak/cpp.py (_translate_process_model, Model._translate_model, _translate_sensor_model, "
    "_translate_process_jacobian, _translate_control_jacobian, _translate_sensor_jacobian_impl) are symbolically executed with symbolic layouts and "
    "dictionaries and proved to emit, per layout position, the statement named after that symbol with that symbol's expression (or the derivative of "
    "row r w.r.t. column c; readings in sorted name order) under a substitution that reads every member through the accessor of its own name on the "
    "right object; they write nothing on the generator object. (b) Per program, the C++ text produced by the real generator (cpp.py / ast_fragments.py / templates, run on the working tree) is validated against the "
    "symbolic definition: the accessor and constructor tables are parsed from the generated header/source, every per-model function body (state "
    "update, process / control Jacobian, process noise, and per sensor: prediction, Jacobian, noise) is a loop-free assignment list that is executed "
    "symbolically, and each returned field / matrix cell is proved equal (z3 over the reals, all inputs at once) to the expression, exact partial "
    "derivative or configured noise entry of the symbol NAMED for that row/column/field; every cell must be assigned; temporaries single-assignment. "
    "A loop-free body with full-domain symbolic inputs is a complete proof for that program; over programs the claim is bounded by the seeded corpus "
    "(all four control x calibration combinations, 0-2 sensors of 1-3 readings, both CSE settings). The emission order of cpp.BasicBlock.compile is "
    "proved for all programs (C08). 'Compiles' is checked with g++ against a vendored Eigen stand-in only."
)
ASSUMPTIONS = [
    "D-eigen: the vendored stand-in /verif/replay/standin/Eigen/Dense behaves like Eigen for fixed-size matrices (real Eigen is not available offline); compilation is checked against it only",
    "the expression grammar printed by sympy.ccode is parsed with python's ast after a syntactic rewrite of C ternaries / && / || / ! (same precedence for + - * / and comparisons; pow and elementary functions as calls; a comparison used arithmetically is 0/1); integer/integer division is rejected",
    "elementary functions uninterpreted (sound: may answer undecided, never a wrong proof) except fabs / Abs / sign / Piecewise, which are their definitions; floats as reals",
    "D-fmod: the generated idiom fmod(fmod(a, b) + b, b) is the floored modulo a - b*floor(a/b) for b != 0 (recognised syntactically); C fmod(a, b) = a - b*trunc(a/b); sympy Mod / floor / ceiling through z3 to_int",
    "D-diff (weakened after D12/D14): sympy's diff / jacobian entry is the partial derivative of the real function only when it is returned in closed form; D-dummy, D-xr, D-ren (renaming theory, pvc/sympy_model.py) for cpp._partial_derivative; the per-program oracle is the real-valued derivative (an entry sympy leaves unevaluated: exact central difference, h = 2^-10)",
    "symbol names are C++ identifiers not colliding with generated members (premise of the property)",
    "D-subs: sympy's e.subs(pairs) has the value of e with each member symbol read through its accessor (assumed; exercised per program by (b))",
    "an obligation of (b) that the solver does not decide is evaluated numerically at two points: a difference is a violation, agreement is recorded as undecided",
    "corpus bound: quick 6 programs, thorough 40 programs (x 2 CSE settings)",
]
TRUSTED_BASE = ["replay/cxxtext.py (parser of the generated text)", "pvc.sympy2z3", "z3 5.1 / ring normaliser", "g++ 12 (syntax/semantic check against the stand-in)"]


def compile_and_run(sc, header, source):
    """Build a driver that evaluates the generated functions at one rational point and compare with exact sympy (stand-in Eigen)."""
    import sympy

    AS = sorted(sc.state, key=lambda s: s.name)
    AU = sorted(sc.control, key=lambda s: s.name)
    ACal = sorted(sc.calibration, key=lambda s: s.name)
    pt = sc.point(3)
    lines = ["#include <formak/model.h>", "#include <cstdio>", "using namespace generated;", "int main() {"]
    lines.append("  StateAndVariance sv; sv.state = State(StateOptions{" + ", ".join(f".{s.name} = {float(pt[s])!r}" for s in AS) + "});")
    args = ["%r" % float(pt[sc.dt]), "sv"]
    if ACal:
        lines.append("  Calibration cal(CalibrationOptions{" + ", ".join(f".{c.name} = {float(pt[c])!r}" for c in ACal) + "});")
        args.append("cal")
    if AU:
        lines.append("  Control ctl(ControlOptions{" + ", ".join(f".{u.name} = {float(pt[u])!r}" for u in AU) + "});")
        args.append("ctl")
    a = ", ".join(args)
    lines.append(f"  State out = ExtendedKalmanFilterProcessModel::model({a});")
    for s in AS:
        lines.append(f'  printf("state {s.name} %.17g\\n", out.{s.name}());')
    lines.append(f"  auto J = ExtendedKalmanFilterProcessModel::process_jacobian({a});")
    lines.append(f'  for (int i = 0; i < {len(AS)}; ++i) for (int j = 0; j < {len(AS)}; ++j) printf("J %d %d %.17g\\n", i, j, J(i, j));')
    lines.append("  return 0; }")
    ok, exe, tmp = cppgen.build(header, source, "\n".join(lines))
    if not ok:
        return [f"generated code does not compile against the stand-in: {exe[-600:]}"]
    import subprocess

    out = subprocess.run([exe], capture_output=True, text=True, timeout=60).stdout
    tmp.cleanup()
    problems = []
    vals = {}
    for ln in out.splitlines():
        p = ln.split()
        if p[0] == "state":
            vals[("state", p[1])] = float(p[2])
        else:
            vals[("J", int(p[1]), int(p[2]))] = float(p[3])
    for s in AS:
        want = float(scenarios.exact(sc.state_model[s], pt))
        got = vals.get(("state", s.name))
        if got is None or abs(got - want) > 1e-9 * max(1, abs(want)):
            problems.append(f"compiled generated model returns {got} for {s.name}, expression value {want}")
    Jx = scenarios.jacobian_at(sympy.Matrix([sc.state_model[r] for r in AS]), AS, {k: sympy.Rational(v.numerator, v.denominator) for k, v in pt.items()})
    for i, r in enumerate(AS):
        for j, c in enumerate(AS):
            want = float(Jx[i, j])
            got = vals.get(("J", i, j))
            if got is None or abs(got - want) > 1e-9 * max(1, abs(want)):
                problems.append(f"compiled process_jacobian({i},{j}) = {got}, d{r.name}/d{c.name} = {want}")
    return problems


def generator_contracts(run):
    """C02(a): the statement generators of cpp.py, for ALL programs (contracts/cpptranslate.py)."""
    from contracts import cpptranslate
    from pvc import smt

    cs = cpptranslate.callees()
    items = [(c, cs) for c in cpptranslate.contracts()]
    import ast as _ast
    import os as _os

    tree = _ast.parse(open(_os.path.join(driver.REPO, "py/formak/cpp.py")).read())
    if any(isinstance(nd, _ast.FunctionDef) and nd.name == "_partial_derivative" for nd in tree.body):
        items.append((cpptranslate.RealPartial(), {}))
    pending = []
    for (c, _), rep in zip(items, run.verify_many(items)):
        for ob, model, definitive in driver.refuted(run, rep):
            pending.append((rep, ob, model, definitive))
    return pending


def check(run):
    run.level = "translation_validation"
    pending = generator_contracts(run)
    n = 40 if run.tier == "thorough" else 6
    programs = 0
    samples = []
    refused_programs = []
    for t, (sc, shp) in enumerate(G.corpus(run.seed, n)):
        refusals = {}
        for cse in (True, False):
            programs += 1
            try:
                probs, header, source = G.validate_program(run, sc, f"prog{t}.cse_{'on' if cse else 'off'}", cse=cse, prefix="C02")
            except Exception as e:
                if "formak" not in "".join(traceback.format_exc()).split("validate_program")[-1] and "sympy" not in traceback.format_exc():
                    raise  # a failure of the checker itself
                # the GENERATOR refused the definition loudly: the property speaks about accepted models only - but acceptance
                # must not depend on the CSE setting
                refusals[cse] = f"{type(e).__name__}: {(str(e).splitlines() or [''])[0][:120]}"
                continue
            for ob, p in probs[:2]:
                confirmed = True
                run.findings.append(Finding(ob.name, p.split(":")[0].split(".")[0][:40], f"program shape n,c,k,sensors={shp} (cse={cse}): {p}", {"language": "c++", "inputs": {"shape": list(shp), "seed": run.seed + 31 * t, "cse": cse, "transcendental": t % 4 == 3, "share_reading": True, "rational": t % 3 == 1, "nonsmooth": t % 5 == 2, "magnitude": t % 6 == 4, "redundant": t % 7 == 5, "tiny": t % 6 == 3}, "model_definition": sc.describe()}, confirmed))
            if t < 2 and cse:
                run.native_runs += 1
                okc, err = cppgen.syntax_check(header, source)
                ob = run.prove(f"C02.cxx.prog{t}.compiles_against_standin", [], z3.BoolVal(okc), function=G.FN)
                if not okc:
                    run.findings.append(Finding(ob.name, "compile", f"generated header/source do not compile (stand-in Eigen): {err[-400:]}", {"language": "c++", "inputs": {"shape": list(shp), "seed": run.seed + 31 * t, "cse": cse, "transcendental": t % 4 == 3, "share_reading": True, "rational": t % 3 == 1, "nonsmooth": t % 5 == 2, "magnitude": t % 6 == 4, "redundant": t % 7 == 5, "tiny": t % 6 == 3}}, True))
                elif shp[3]:
                    run.native_runs += 1
                    for p in compile_and_run(sc, header, source)[:1]:
                        ob2 = run.prove(f"C02.cxx.prog{t}.compiled_values", [], z3.BoolVal(False), function=G.FN)
                        run.findings.append(Finding(ob2.name, "run", p, {"language": "c++", "inputs": {"shape": list(shp), "seed": run.seed + 31 * t, "cse": cse, "transcendental": t % 4 == 3, "share_reading": True, "rational": t % 3 == 1, "nonsmooth": t % 5 == 2, "magnitude": t % 6 == 4, "redundant": t % 7 == 5, "tiny": t % 6 == 3}}, True))
            if len(samples) < 2:
                samples.append({"program": sc.describe(), "generated_source_excerpt": source[:1200]})
        if refusals:
            refused_programs.append((t, shp, refusals))
            ob = run.prove(f"C02.cxx.prog{t}.accepted_with_both_cse_settings_or_neither", [], z3.BoolVal(len(refusals) == 2), function=G.FN)
            if len(refusals) == 1:
                run.findings.append(Finding(ob.name, "acceptance", f"program shape {shp}: the generator refuses it with CSE {'on' if True in refusals else 'off'} only ({list(refusals.values())[0]})", {"language": "c++", "inputs": {"shape": list(shp), "seed": run.seed + 31 * t, "cse": True in refusals, "transcendental": t % 4 == 3, "share_reading": True, "rational": t % 3 == 1, "nonsmooth": t % 5 == 2, "magnitude": t % 6 == 4, "redundant": t % 7 == 5, "tiny": t % 6 == 3}, "model_definition": sc.describe()}, True))
    if refused_programs:
        run.notes.append(f"{len(refused_programs)} corpus program(s) refused loudly by the generator under both CSE settings (not accepted models): {[(t, list(r.values())[0][:60]) for t, _, r in refused_programs][:3]}")
    # a definition whose symbols are spelled like CSE temporaries (_t0 is a declared control no expression mentions): must compile and be right
    sc0 = scenarios.renamed(scenarios.Scenario(2, 1, 1, [2], seed=run.seed + 3), "_t", run.seed, unused_control=True)
    for cse in (True, False):
        programs += 1
        probs, header, source = G.validate_program(run, sc0, f"temporary_like_names.cse_{'on' if cse else 'off'}", cse=cse, prefix="C02")
        run.native_runs += 1
        okc, err = cppgen.syntax_check(header, source)
        ob = run.prove(f"C02.cxx.temporary_like_names.cse_{'on' if cse else 'off'}.compiles_against_standin", [], z3.BoolVal(okc), function=G.FN)
        payload = {"language": "c++", "inputs": {"shape": [2, 1, 1, [2]], "seed": run.seed + 3, "cse": cse, "rename": "_t"}, "model_definition": sc0.describe()}
        if not okc:
            run.findings.append(Finding(ob.name, "compile", f"symbols named _t0, _t1, ... (cse={cse}): generated header/source do not compile: {err[-300:]}", payload, True))
        for ob2, p in probs[:1]:
            run.findings.append(Finding(ob2.name, "names", f"symbols named _t0, _t1, ... (cse={cse}): {p}", payload, True))
    # a model with a WRAPPED quantity (Mod(v, 3)): sympy leaves its derivative unevaluated.  Either back end may refuse such a model
    # loudly; what the property excludes is a generated Jacobian that is not the partial derivative, and CSE deciding whether the
    # model is accepted
    wsc = scenarios.Scenario(2, 0, 1, [1], seed=run.seed + 11, wrapped=True)
    outcome = {}
    for cse in (True, False):
        programs += 1
        run.native_runs += 1
        payload = {"language": "c++", "inputs": {"shape": [2, 0, 1, [1]], "seed": run.seed + 11, "cse": cse, "wrapped": True}, "model_definition": wsc.describe()}
        try:
            header, source, _gen = cppgen.generate(wsc, cse=cse)
        except Exception as e:
            outcome[cse] = f"refused ({type(e).__name__})"
            continue
        probs = compile_and_run(wsc, header, source)
        outcome[cse] = "generated"
        ob = run.prove(f"C02.cxx.wrapped_quantity.cse_{'on' if cse else 'off'}.compiled_values", [], z3.BoolVal(not probs), function=G.FN)
        if probs:
            run.findings.append(Finding(ob.name, "wrapped", f"model with a wrapped quantity Mod(v, 3) (cse={cse}): {probs[0]}", payload, True))
    ob = run.prove("C02.cxx.wrapped_quantity.accepted_with_both_cse_settings_or_neither", [], z3.BoolVal(outcome[True].split()[0] == outcome[False].split()[0]), function=G.FN)
    if outcome[True].split()[0] != outcome[False].split()[0]:
        run.findings.append(Finding(ob.name, "wrapped", f"model with a wrapped quantity Mod(v, 3): CSE on -> {outcome[True]}, CSE off -> {outcome[False]}", {"language": "c++", "inputs": {"shape": [2, 0, 1, [1]], "seed": run.seed + 11, "cse": True, "wrapped": True}, "model_definition": wsc.describe()}, True))
    # plain (non-EKF) Model::model path
    for t, (sc, shp) in enumerate(G.corpus(run.seed + 5, 2)):
        probs, header, source = G.validate_program(run, sc, f"model{t}", cse=True, ekf=False, prefix="C02")
        programs += 1
        for ob, p in probs[:1]:
            run.findings.append(Finding(ob.name, "Model::model", f"plain model, shape {shp}: {p}", {"language": "c++", "inputs": {"shape": list(shp), "seed": run.seed + 5 + 31 * t, "cse": True, "ekf": False}}, True))
    # plain model with a WRAPPED quantity (Mod(v, 3), no Jacobians involved): sympy's Mod and Python's % take the sign of the divisor, C's
    # fmod the sign of the dividend - the generated statement must have the value of the symbolic expression for negative operands too
    wm = scenarios.Scenario(2, 0, 1, [1], seed=run.seed + 11, wrapped="negative")
    for cse in (True, False):
        programs += 1
        probs, header, source = G.validate_program(run, wm, f"wrapped_model.cse_{'on' if cse else 'off'}", cse=cse, ekf=False, prefix="C02")
        for ob, p in probs[:1]:
            run.findings.append(Finding(ob.name, "Model::model.wrapped", f"plain model with Mod(v, 3) (cse={cse}): {p}", {"language": "c++", "inputs": {"shape": [2, 0, 1, [1]], "seed": run.seed + 11, "cse": cse, "ekf": False, "wrapped_model": True}, "model_definition": wm.describe()}, True))
    # generator-level refutations: confirmed by the per-program validation of this same run when it found a wrong program
    for rep, ob, model, definitive in pending:
        confirmed = bool(run.findings)
        structural = z3.is_false(z3.simplify(ob.goal))
        if not confirmed and not structural and not definitive:
            run.undecided.append(ob.name)
            continue
        what = f"{ob.name} refuted ({getattr(ob, 'note', '') or 'generator contract'})" + (f"; a generated program is wrong: {run.findings[0].what[:160]}" if confirmed else "")
        run.findings.append(Finding(ob.name, rep.key.split(".")[-1], what, {"language": "python", "function": rep.key, "inputs": run.findings[0].payload.get("inputs") if confirmed else None, "counter_model": str(model)[:600] if model is not None else None}, confirmed, theory=ob.theory))
    run.extra.update({"programs": programs, "disagreements_checked": sum(1 for r in run.all_obligation_rows()), "samples": samples})


def replay_file(payload):
    inp = payload.get("inputs")
    if not inp:
        print("replay C02: generator-level obligation without a concrete program (see the obligation's note)")
        return True
    shp = inp["shape"]
    if inp.get("wrapped_model"):
        wm = scenarios.Scenario(shp[0], shp[1], shp[2], shp[3], seed=inp["seed"], wrapped="negative")
        run = driver.PropertyRun("C02", "quick", 0)
        probs, h, s2 = G.validate_program(run, wm, "replay", cse=inp.get("cse", True), ekf=False)
        print("replay C02 (plain model with a wrapped quantity):", [p for _, p in probs[:3]] or "generated statements have the value of the symbolic expressions, also for negative operands")
        return not probs
    if inp.get("wrapped"):
        wsc = scenarios.Scenario(shp[0], shp[1], shp[2], shp[3], seed=inp["seed"], wrapped=True)
        out = {}
        bad = []
        for cse in (True, False):
            try:
                header, source, _g = cppgen.generate(wsc, cse=cse)
            except Exception as e:
                out[cse] = f"refused ({type(e).__name__})"
                continue
            out[cse] = "generated"
            bad += compile_and_run(wsc, header, source)
        print("replay C02 (wrapped quantity):", bad[:3] or out)
        return not bad and out[True].split()[0] == out[False].split()[0]
    if inp.get("rename"):
        sc = scenarios.renamed(scenarios.Scenario(shp[0], shp[1], shp[2], shp[3], seed=inp["seed"]), inp["rename"], inp["seed"] - 3, unused_control=True)
        run = driver.PropertyRun("C02", "quick", 0)
        probs, h, s2 = G.validate_program(run, sc, "replay", cse=inp.get("cse", True))
        okc, err = cppgen.syntax_check(h, s2)
        print("replay C02 (temporary-like names):", ([p for _, p in probs[:3]] + ([] if okc else [err[-200:]])) or "compiles and computes the symbolic expressions")
        return okc and not probs
    sc = scenarios.Scenario(shp[0], shp[1], shp[2], shp[3], seed=inp["seed"], transcendental=inp.get("transcendental", False), share_reading=inp.get("share_reading", False), rational=inp.get("rational", False), nonsmooth=inp.get("nonsmooth", False), magnitude=inp.get("magnitude", False), redundant=inp.get("redundant", False), tiny=inp.get("tiny", False))
    run = driver.PropertyRun("C02", "quick", 0)
    probs, h, s = G.validate_program(run, sc, "replay", cse=inp.get("cse", True), ekf=inp.get("ekf", True))
    print("replay C02:", [p for _, p in probs[:4]] or "generated functions equal the symbolic expressions")
    return not probs
