"""C17 - estimator parameters round-trip; fitting only retunes noise."""
from __future__ import annotations

import z3

from contracts import sklearn as K
from pvc import driver, smt
from pvc.driver import Finding
from pvc.interp import Interp, Path, PyDict
from pvc.models import Models
from pvc.sym import Unsupported,  PyRaise, SObj
from replay import sklearn_native

PROPERTY = "C17"
EXPLANATION = (
    "SklearnEKFAdapter's parameter plumbing (py/formak/python.py) is verified function by function: __init__/Create/get_params store and return "
    "exactly the six parameters; set_params is executed by the pvc interpreter for EVERY key sequence of length 1 and 2 (and selected triples) over "
    "the six parameters, the five Config fields and an unknown name, with opaque values - each Config field rewrites exactly that field of the "
    "current configuration, later keys see earlier ones, unknown names raise; _flatten_dict_diagonal / _inverse_flatten_dict_diagonal / "
    "nearest_positive_definite are proved for mappings and name lists of any size; _flatten_scoring_params / _inverse_flatten_scoring_params for any "
    "number of controls and readings and two generic sensors inserted in reverse key order (layout by sorted names, clamped positive values, the "
    "estimator's own dicts untouched); fit is verified against the assumed scipy contract D-opt: the objective restores the parameters after every "
    "call (also when score raises), fit raises only MinimizationFailure, and on return only the two noise parameters were rebound, to the inverse "
    "flattening of the optimiser's solution."
)
ASSUMPTIONS = [
    "D-opt: scipy.optimize.minimize calls the objective on arbitrary vectors of len(x0) and returns an object with .success, .x (len(x0)), .message; finiteness of .x is scipy's",
    "D-skl: sklearn.base.clone(est) = type(est)(**est.get_params()) (so get/set round trip and __init__ give clone preservation); checked natively in the thorough tier",
    "noise mappings use Symbol / reading-name keys only (no (a, b) tuple keys)",
    "two generic sensors stand for any number: the per-sensor segments do not interact (exact unrolling over sensor keys); number of readings/controls symbolic",
    "score() raises nothing for valid noise (its own contract: C16); A-REAL",
]
TRUSTED_BASE = ["pvc (own VC generator / interpreter: /verif/pvc)", "z3 5.1", "python ast module"]


def callees():
    return {K.DiagFlatten.key: K.DiagFlatten(), K.DiagInverse.key: K.DiagInverse(), K.NearestPD.key: K.NearestPD()}


def check_basics(run):
    fn = "formak.python:SklearnEKFAdapter.{__init__,Create,get_params}"
    I = Interp(driver.REPO, Path([]), contracts={}, models=Models())
    cls = K.adapter_class(I)
    I.inline |= {f"formak.python:SklearnEKFAdapter.{m}" for m in ("__init__", "Create", "get_params", "set_params")}
    vals = {k: SObj("Val", {}, k) for k in K.ALLOWED}
    problems = []
    for how in ("init", "create"):
        try:
            if how == "init":
                obj = I.call(cls, [], dict(vals))
            else:
                obj = I.call(I.getattr(cls, "Create"), [vals[k] for k in K.ALLOWED[:5]], {"config": vals["config"]})
            if set(obj.fields) != set(K.ALLOWED) or any(obj.fields[k] is not vals[k] for k in K.ALLOWED):
                problems.append(f"{how}: attributes are not exactly the six arguments: {sorted(obj.fields)}")
            # deep is optional (True by default; scikit-learn's clone asks with deep=False): the estimator has no nested estimators, so
            # all three calls return exactly the six parameters
            for dk in ({}, {"deep": False}, {"deep": True}):
                gp = I.call(I.getattr(obj, "get_params"), [], dict(dk))
                if not isinstance(gp, PyDict) or set(gp.d) != set(K.ALLOWED) or any(gp.d[k] is not vals[k] for k in K.ALLOWED):
                    problems.append(f"{how}: get_params({dk}) does not return exactly the six parameters")
            I.call(I.getattr(obj, "set_params"), [], dict(gp.d))
            if any(obj.fields[k] is not vals[k] for k in K.ALLOWED):
                problems.append(f"{how}: set_params(**get_params()) changed a parameter")
        except Unsupported as u:
            run.undecided.append(f"C17.py.basics[{how}] (interpreter: {u}; covered by the native round-trip checks only)")
        except (PyRaise, Exception) as e:
            problems.append(f"{how}: {type(e).__name__} {e}")
    ob = run.prove("C17.py.basics.six_parameters_stored_returned_round_trip", [], z3.BoolVal(not problems), function=fn)
    for p in problems[:1]:
        run.findings.append(Finding(ob.name, "basics", p, {"language": "python", "oracle_verdict": p, "inputs": {"kind": "basics"}}, True))


def check_set_params(run):
    fn = "formak.python:SklearnEKFAdapter.set_params (executed for all key sequences of length <= 2)"
    cases = K.set_params_cases()
    bad = []
    # every key sequence twice: with all Config fields holding values, and with innovation_filtering currently None (filtering off)
    for keys, disabled in [(k, d) for k in cases for d in (False, True)]:
        I = Interp(driver.REPO, Path([]), contracts={}, models=Models())
        I.inline |= {"formak.python:SklearnEKFAdapter.set_params"}
        try:
            obj, cfg, vals, outcome = K.run_set_params(I, keys, filtering_disabled=disabled)
        except Unsupported as u:
            run.undecided.append(f"C17.py.set_params[{'+'.join(keys)}] (interpreter: {u}; covered by the native checks only)")
            continue
        except Exception as e:
            bad.append((keys, f"checker could not execute: {type(e).__name__}: {e}"))
            continue
        old = {k: f"old.{k}" for k in K.ALLOWED}
        want_outcome, want_attrs, want_cfg, want_cfg_obj = K.expected_after(keys, cfg, vals, {k: None for k in K.ALLOWED})
        n_bad = len(bad)
        if want_outcome == "raise":
            if outcome != ("raise", "ModelConstructionError"):
                bad.append((keys, f"unknown parameter name not refused with ModelConstructionError: {outcome}"))
            continue
        if outcome[0] != "return" or outcome[1] is not obj:
            bad.append((keys, f"expected return self, got {outcome}"))
            continue
        for k in K.ALLOWED:
            if k == "config":
                continue
            exp = vals[k] if k in keys else None
            got = obj.fields[k]
            if (exp is not None and got is not exp) or (exp is None and getattr(got, "name", "") != f"old.{k}"):
                bad.append((keys, f"attribute {k} is {getattr(got, 'name', got)}"))
        c = obj.fields["config"]
        for f in K.CONFIG_FIELDS:
            if not isinstance(c, SObj) or c.fields.get(f) is not want_cfg[f]:
                bad.append((keys, f"config.{f} is {getattr(c.fields.get(f) if isinstance(c, SObj) else None, 'name', None)}, expected {getattr(want_cfg[f], 'name', None)}"))
                break
        if want_cfg_obj is None and c is cfg:
            bad.append((keys, "the shared Config object was edited in place instead of being replaced"))
        if disabled:
            bad[n_bad:] = [(k2, "with innovation_filtering currently None: " + why2) for k2, why2 in bad[n_bad:]]
    ob = run.prove("C17.py.set_params.every_key_sequence_up_to_length_2", [], z3.BoolVal(not bad), function=fn)
    run.extra["set_params_sequences_enumerated"] = len(cases)
    if bad:
        keys, why = bad[0]
        run.findings.append(Finding(ob.name, "+".join(keys), f"set_params({', '.join(keys)}): {why}", {"language": "python", "inputs": {"kind": "set_params", "keys": list(keys)}, "oracle_verdict": why}, True))


def native_checks(run, seeds):
    import copy

    problems = []
    for seed in seeds:
        py, ui, est, info = sklearn_native.simple_adapter(seed, 2, 2, {"innovation_filtering": 4.0, "max_dt_sec": 0.25})
        before = est.get_params()
        est.set_params(**est.get_params())
        if any(est.get_params()[k] is not before[k] for k in before):
            problems.append("set_params(**get_params()) changed a parameter")
        from sklearn.base import clone

        cl = clone(est)
        if sklearn_native.snapshot(cl) != sklearn_native.snapshot(est) and not all(sklearn_native.snapshot(cl)[k] == sklearn_native.snapshot(est)[k] for k in ("process_noise", "sensor_noises", "config")):
            problems.append("clone changed parameters")
        est.set_params(max_dt_sec=0.05, innovation_filtering=2.5)
        c = est.get_params()["config"]
        if (c.max_dt_sec, c.innovation_filtering, c.extra_validation) != (0.05, 2.5, False):
            problems.append(f"set_params(max_dt_sec=0.05, innovation_filtering=2.5) gave config ({c.max_dt_sec}, {c.innovation_filtering})")
        x = est._flatten_scoring_params()
        want = [1.0, 0.25, 2.0, 1.5, 0.5]  # controls a, b; position: x, xv; velocity: v
        if [float(v) for v in x] != want:
            problems.append(f"_flatten_scoring_params = {list(x)}, expected {want}")
        p = est._inverse_flatten_scoring_params([3.0, -1.0, 7.0, 8.0, 9.0])
        got = ({str(k): v for k, v in p["process_noise"].items()}, p["sensor_noises"])
        if got != ({"a": 3.0, "b": 1e-06}, {"position": {"x": 7.0, "xv": 8.0}, "velocity": {"v": 9.0}}):
            problems.append(f"_inverse_flatten_scoring_params gave {got}")
        problems += sklearn_native.flatten_round_trip_problems(seed)
        # the Config object an estimator was given may be shared (clones, grid searches): set_params must REPLACE it, never edit it
        shared = py.Config(innovation_filtering=4.0, max_dt_sec=0.05)
        pyS, uiS, estS, infoS = sklearn_native.simple_adapter(seed, 1, 1)
        estS.set_params(config=shared)
        estS.set_params(max_dt_sec=0.5, innovation_filtering=2.0)
        if (shared.max_dt_sec, shared.innovation_filtering) != (0.05, 4.0):
            problems.append(f"set_params(max_dt_sec=0.5, innovation_filtering=2.0) edited the Config object it was given in place: it now reads {shared}")
        if (estS.get_params()["config"].max_dt_sec, estS.get_params()["config"].innovation_filtering) != (0.5, 2.0):
            problems.append(f"set_params(max_dt_sec=0.5, innovation_filtering=2.0) left the estimator with {estS.get_params()['config']}")
        # a Config field whose CURRENT value is None (filtering off) is still a Config field
        py0, ui0, est0, info0 = sklearn_native.simple_adapter(seed, 1, 1, {"innovation_filtering": None})
        before0 = est0.get_params()["config"]
        try:
            est0.set_params(innovation_filtering=3.0)
            after0 = est0.get_params()["config"]
            if after0.innovation_filtering != 3.0 or (after0.max_dt_sec, after0.common_subexpression_elimination, after0.extra_validation) != (before0.max_dt_sec, before0.common_subexpression_elimination, before0.extra_validation):
                problems.append(f"set_params(innovation_filtering=3.0) on an estimator with filtering off gave {after0}")
        except Exception as e:
            problems.append(f"set_params(innovation_filtering=3.0) on an estimator whose configuration has innovation_filtering=None raised {type(e).__name__}")
        try:
            est.set_params(not_a_parameter=1)
            problems.append("unknown parameter accepted")
        except Exception as e:
            if type(e).__name__ != "ModelConstructionError":
                problems.append(f"unknown parameter raised {type(e).__name__}")
        for ns, k, rows in ((1, 1, 6), (2, 1, 8), (1, 0, 6), (3, 2, 8)):  # the third one: a model WITHOUT controls (process_noise == {})
            run.native_runs += 1
            pr, _ = sklearn_native.fit_problems(seed, rows, ns, k)
            problems += pr
        # a CALIBRATED model (drag in the dynamics, scale and bias in a sensor): the sensor models and calibration it started with
        run.native_runs += 1
        pr, _ = sklearn_native.fit_problems(seed, 8, 2, 1, calibrated=True)
        problems += [f"calibrated model: {p}" for p in pr]
        run.native_runs += 1
        pr, _ = sklearn_native.fit_with_failing_optimiser(seed)
        problems += pr
        # success side of the optimiser boundary, with every Config field at a non-default value and with the defaults
        run.native_runs += 1
        pr, _ = sklearn_native.fit_with_succeeding_optimiser(seed, None, calibrated=True)
        problems += [f"calibrated model: {p}" for p in pr]
        for ck in (None, {"innovation_filtering": None}):
            run.native_runs += 1
            pr, _ = sklearn_native.fit_with_succeeding_optimiser(seed, ck)
            problems += pr
        # the data set on which the unfixed fit died (zero controls, 6 rows)
        import numpy as np

        py, ui, est1, info1 = sklearn_native.simple_adapter(0, 1, 1)
        X = np.column_stack([np.zeros(6), np.random.default_rng(0).normal(0, 0.5, 6)])
        b = sklearn_native.snapshot(est1)
        try:
            est1.fit(X)
        except Exception as e:
            if type(e).__name__ != "MinimizationFailure":
                problems.append(f"fit raised {type(e).__name__} instead of MinimizationFailure; sensor noise afterwards {sklearn_native.snapshot(est1)['sensor_noises']} (was {b['sensor_noises']})")
    return problems


def check(run):
    check_basics(run)
    check_set_params(run)
    cs = callees()
    items = [(K.DiagFlatten("Sym"), {}), (K.DiagFlatten("Str"), {}), (K.DiagInverse(), {}), (K.NearestPD("Sym"), {}), (K.NearestPD("Str"), {}), (K.FlattenScoring(), cs), (K.InverseFlattenScoring(), cs), (K.Fit(False), {}), (K.Fit(True), {})]
    pending = []
    for rep in run.verify_many(items):
        for ob, model, definitive in driver.refuted(run, rep):
            pending.append((rep, ob, model, definitive))
    need = run.tier == "thorough" or pending or run.undecided or run.findings or any(r.status != "ok" for r in run.reports)
    problems = []
    if need:
        problems = native_checks(run, range(3) if run.tier == "thorough" else [0])
        run.bounded.append({"what": "native: get/set round trip, sklearn clone, two Config fields in one set_params call, flatten / inverse flatten on a 2-control 2-sensor estimator with non-alphabetical insertion order, unknown name, real fit on small data sets (outcome, names, positivity, restored parameters)", "bound": f"{3 if run.tier == 'thorough' else 1} seeds", "failures": len(problems), "counted_as_proved": False})
        for p in problems[:2]:
            run.findings.append(Finding("C17.py.native", p.split(":")[0][:40], p, {"language": "python", "inputs": {"kind": "native", "seed": run.seed}, "oracle_verdict": p}, True))
    if not need:
        # always (also in the quick tier): one real fit of a CALIBRATED estimator - model, sensor models, calibration and configuration
        # it started with, compared by value
        import contextlib
        import io

        run.native_runs += 1
        with contextlib.redirect_stdout(io.StringIO()):
            pr, _ = sklearn_native.fit_with_succeeding_optimiser(run.seed, None, calibrated=True)
            pr = pr or sklearn_native.fit_problems(run.seed, 8, 2, 1, calibrated=True)[0]
        run.bounded.append({"what": "native: fit of a calibrated 2-sensor estimator with a stub optimiser that reports success, and a real fit; outcome, names, positivity, and the model / sensor models / calibration / configuration it started with (by value)", "bound": "1 estimator x 8 rows", "failures": len(pr), "counted_as_proved": False})
        for p in pr[:1]:
            problems.append(f"calibrated model: {p}")
            run.findings.append(Finding("C17.py.native", "calibrated-fit", f"calibrated model: {p}", {"language": "python", "inputs": {"kind": "native", "seed": run.seed}, "oracle_verdict": p}, True))
    for rep, ob, model, definitive in pending:
        if not problems and not definitive:
            run.undecided.append(ob.name)
            continue
        run.findings.append(Finding(ob.name, rep.key.split(".")[-1], f"{ob.name} refuted" + (f"; native: {problems[0]}" if problems else ""), {"language": "python", "function": rep.key, "counter_model": smt.model_to_dict(model), "inputs": {"kind": "native", "seed": run.seed}}, bool(problems), theory=ob.theory))


def replay_file(payload):
    run = driver.PropertyRun("C17", "quick", payload.get("inputs", {}).get("seed", 0))
    kind = payload.get("inputs", {}).get("kind")
    if kind == "set_params":
        check_set_params(run)
    elif kind == "basics":
        check_basics(run)
    else:
        for p in native_checks(run, [0]):
            print("replay C17:", p)
            return False
    for f in run.findings:
        print("replay C17:", f.what)
    if not run.findings:
        print("replay C17: as specified")
    return not run.findings
