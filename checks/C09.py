"""C09 - valid covariance in, valid covariance out, along any update history."""
from __future__ import annotations

import os
import subprocess
import time

import z3

from contracts import gate
from pvc import driver, smt
from pvc.driver import Finding
from replay import native

PROPERTY = "C09"
EXPLANATION = (
    "What deduction decides here: (1) the validity gate python.assert_valid_covariance is symbolically executed and proved to ACCEPT every "
    "matrix that is symmetric (allclose) with lam_min >= -64*n*2^-53*||C||_2 (rounding relative to magnitude) and to REJECT clearly invalid ones "
    "(lam_min < -1e-6*||C||_2 or asymmetric), for all n and all spectra; (2) in exact arithmetic the two covariance update forms preserve "
    "symmetric positive semidefiniteness for any dimensions, singular Jacobians included (Lean 4 + Mathlib, thorough tier), which with C04/C05's "
    "postconditions means every intermediate the code asserts on is PSD. The step from exact arithmetic to floating point ALONG A HISTORY is not "
    "decidable by contract-based deduction (A-REAL); it is covered by a bounded native stand-in (float histories of the project's own singular-Jacobian "
    "mass/z/v/a model and generic models), labelled bounded and not counted as proved. Level is therefore 'other'."
)
ASSUMPTIONS = [
    "D-eig: np.linalg.eig of an (allclose-)symmetric real matrix returns its real spectrum; max|lambda| = ||C||_2; np.any(eig < t) <=> lam_min < t",
    "D-allclose / D-entry: np.allclose(C, C.T, rtol, atol) (finite C) is implied by max|C - C^T| <= atol and implies max|C - C^T| <= atol + rtol*max|C|, with the tolerances the code passes (numpy defaults 1e-5 / 1e-8 when omitted); np.max(np.abs(C), initial=0) = max|C|; 0 <= max|C - C^T| <= 2 max|C|",
    "acceptance constants P=64, u=2^-53 (smallest defensible backward-error scale; recorded in contracts/gate.py)",
    "floating-point behaviour along histories: NOT proved (bounded native stand-in only)",
    "Mathlib (PosSemidef lemmas) for the exact-arithmetic preservation lemmas",
]
TRUSTED_BASE = ["pvc (own VC generator: /verif/pvc)", "z3 5.1", "Lean 4.33 kernel + Mathlib (thorough tier)", "python ast module"]

LEVEL = "other"


def native_gate_asymmetric(n, mag, asym_v):
    """Call the real gate on the upper-triangular matrix diag(mag, ..., mag) with C[0, n-1] = asym_v: largest entry mag,
    largest asymmetry asym_v, eigenvalues all equal to mag (positive)."""
    import numpy as np

    py = native.repo_import("formak.python")
    n = max(n, 2)
    C = np.diag(np.array([mag] * n, dtype=float))
    C[0, n - 1] = asym_v
    try:
        py.assert_valid_covariance(C)
        return "accepted", C
    except AssertionError:
        return "refused", C


def native_gate(n, lam, norm):
    """Call the real gate on diag(norm, ..., norm, lam): symmetric, spectrum exactly {norm, lam}."""
    import numpy as np

    py = native.repo_import("formak.python")
    d = [norm] * max(n - 1, 0) + [lam]
    C = np.diag(np.array(d, dtype=float)) if n > 0 else np.zeros((0, 0))
    try:
        py.assert_valid_covariance(C)
        return "accepted", C
    except AssertionError as e:
        return "refused", C


def singular_history(steps, dt):
    """Exactly known and exactly correlated states: the covariance is positive SEMI-definite (singular) all along.
    Model: x' = x + dt*v, v' = v, copy' = x (exact copy, no noise of its own); start: variance 0 for x (known exactly)."""
    import numpy as np
    from replay import shim

    py = shim.install()
    ui = native.repo_import("formak.ui")
    dts, x, v, cp, u = (ui.Symbol(nm) for nm in ("dt", "x", "v", "copy", "u"))
    model = ui.Model(dt=dts, state={x, v, cp}, control={u}, state_model={x: x + dts * v, v: v + dts * u, cp: x})
    ekf = py.compile_ekf(model, {u: 0.5}, {"pos": {"px": x}, "both": {"px": x, "pc": cp}}, {"pos": {"px": 0.25}, "both": {"px": 0.25, "pc": 0.5}}, config={"innovation_filtering": None})
    state, cov = ekf.State(x=1.0, v=0.5, copy=1.0), ekf.Covariance(x=0.0, copy=0.0)
    for i in range(steps):
        try:
            if i % 2 == 0:
                state, cov = ekf.process_model(dt, state, cov, ekf.Control(u=0.1))
            else:
                key = "pos" if i % 4 == 1 else "both"
                rd = ekf.make_reading(key, **({"px": 1.0 + 0.01 * i} if key == "pos" else {"px": 1.0 + 0.01 * i, "pc": 1.0}))
                state, cov = ekf.sensor_model(state, cov, sensor_key=key, sensor_reading=rd)
        except Exception as e:  # AssertionError (gate) or LinAlgError: a valid semi-definite covariance was refused
            return False, f"singular-covariance history: refused at step {i + 1} (dt={dt}) with {type(e).__name__}: {(str(e).splitlines() or [''])[0][:120]}"
        c = cov.data
        w = np.linalg.eigvalsh((c + c.T) / 2)
        mag = max(abs(w).max(), 1e-300)
        if not np.allclose(c, c.T, rtol=1e-7, atol=1e-12 * mag) or w.min() < -1e-9 * mag:
            return False, f"singular-covariance history, step {i + 1}: covariance invalid (lam_min {w.min():.3e}, magnitude {mag:.3e})"
    return True, "ok"


def mass_model_history(steps, dt, updates=True):
    """The project's own singular-Jacobian example, propagated natively; returns (ok, detail)."""
    import numpy as np
    from replay import shim

    py = shim.install()
    ui = native.repo_import("formak.ui")
    dts = ui.Symbol("dt")
    tp = {k: ui.Symbol(k) for k in ["mass", "z", "v", "a"]}
    thrust = ui.Symbol("thrust")
    state_model = {tp["mass"]: tp["mass"], tp["z"]: tp["z"] + dts * tp["v"], tp["v"]: tp["v"] + dts * tp["a"], tp["a"]: -9.81 * tp["mass"] + thrust}
    model = ui.Model(dt=dts, state=set(tp.values()), control={thrust}, state_model=state_model)
    ekf = py.compile_ekf(model, {thrust: 1.0}, {"simple": {"v": tp["v"]}}, {"simple": {"v": 1.0}}, config={"innovation_filtering": None, "max_dt_sec": 0.1})
    state, cov = ekf.State(mass=1.0), ekf.Covariance()
    for i in range(steps):
        try:
            state, cov = ekf.process_model(dt, state, cov, ekf.Control(thrust=10.0))
            if updates and i % 3 == 2:
                state, cov = ekf.sensor_model(state, cov, sensor_key="simple", sensor_reading=ekf.make_reading("simple", v=float(i % 5)))
        except AssertionError as e:
            w = np.linalg.eigvalsh((cov.data + cov.data.T) / 2)
            return False, f"refused at step {i + 1} (dt={dt}): {(str(e).splitlines() or [type(e).__name__])[0]}; last accepted covariance has eigenvalues in [{w.min():.3e}, {w.max():.3e}]"
        c = cov.data
        if not np.all(np.isfinite(c)):
            return True, f"stopped at step {i+1}: covariance no longer finite (outside the bounded-magnitude premise)"
        w = np.linalg.eigvalsh((c + c.T) / 2)
        scale = max(abs(w).max(), 1e-300)
        if not np.allclose(c, c.T) or w.min() < -1e-9 * scale:
            return False, f"step {i + 1} (dt={dt}): covariance not symmetric PSD relative to magnitude (lam_min {w.min():.3e}, scale {scale:.3e})"
        if scale > 1e100:
            return True, f"stopped at step {i+1}: magnitude {scale:.1e} outside the bounded premise"
    return True, "ok"


def rank_deficient_history(steps, seed=0):
    """The mass model with one more derived state (weight = 9.81 mass): two states do not depend on their old values, so the process
    Jacobian has two zero columns and every propagated covariance is rank deficient by TWO - a repeated eigenvalue 0, whose rounding
    noise a general eigen-solver reports as a conjugate pair with tiny imaginary parts.  Full (correlated) random SPD start covariance,
    random step lengths, two sensors.  No step may be refused; every covariance symmetric PSD relative to its magnitude."""
    import numpy as np
    from replay import shim

    py = shim.install()
    ui = native.repo_import("formak.ui")
    dts = ui.Symbol("dt")
    tp = {k: ui.Symbol(k) for k in ["mass", "z", "v", "a", "weight"]}
    thrust = ui.Symbol("thrust")
    state_model = {tp["mass"]: tp["mass"], tp["z"]: tp["z"] + dts * tp["v"], tp["v"]: tp["v"] + dts * tp["a"], tp["a"]: -9.81 * tp["mass"] + thrust, tp["weight"]: 9.81 * tp["mass"]}
    model = ui.Model(dt=dts, state=set(tp.values()), control={thrust}, state_model=state_model)
    ekf = py.compile_ekf(model, {thrust: 1.0}, {"simple": {"v": tp["v"]}, "height": {"z": tp["z"]}}, {"simple": {"v": 1.0}, "height": {"z": 0.25}}, config={"innovation_filtering": None})
    rng = np.random.default_rng(seed + 9)
    for start in range(3):
        A = rng.normal(size=(5, 5))
        cov = ekf.Covariance.from_data(A @ A.T + 0.1 * np.eye(5))
        state = ekf.State(mass=1.0, z=0.5 * start, v=0.1, a=-0.2, weight=9.81)
        for i in range(steps):
            dt = float(rng.uniform(0.005, 0.1))
            try:
                state, cov = ekf.process_model(dt, state, cov, ekf.Control(thrust=float(rng.uniform(8.0, 11.0))))
                if i % 3 == 2:
                    state, cov = ekf.sensor_model(state, cov, sensor_key="simple", sensor_reading=ekf.make_reading("simple", v=float(rng.normal())))
                if i % 5 == 4:
                    state, cov = ekf.sensor_model(state, cov, sensor_key="height", sensor_reading=ekf.make_reading("height", z=float(rng.normal())))
            except AssertionError as e:
                w = np.linalg.eigvalsh((cov.data + cov.data.T) / 2)
                return False, f"start {start}: refused at step {i + 1}: {(str(e).splitlines() or [type(e).__name__])[0][:120]}; last accepted covariance has eigenvalues in [{w.min():.3e}, {w.max():.3e}]"
            c = cov.data
            w = np.linalg.eigvalsh((c + c.T) / 2)
            scale = max(abs(w).max(), 1e-300)
            if not np.allclose(c, c.T, rtol=0, atol=1e-9 * scale) or w.min() < -1e-9 * scale:
                return False, f"start {start}, step {i + 1}: covariance not symmetric PSD relative to magnitude (lam_min {w.min():.3e}, scale {scale:.3e})"
    return True, "ok"


PATTERN = ["proc", "v", "proc", "proc", "z", "v", "proc", "j", "proc", "z", "j", "v", "proc"]  # j: a sensor with two CORRELATED readings


def mass_filter():
    from replay import shim

    py = shim.install()
    ui = native.repo_import("formak.ui")
    dts = ui.Symbol("dt")
    tp = {k: ui.Symbol(k) for k in ["mass", "z", "v", "a"]}
    thrust = ui.Symbol("thrust")
    state_model = {tp["mass"]: tp["mass"], tp["z"]: tp["z"] + dts * tp["v"], tp["v"]: tp["v"] + dts * tp["a"], tp["a"]: -9.81 * tp["mass"] + thrust}
    model = ui.Model(dt=dts, state=set(tp.values()), control={thrust}, state_model=state_model)

    def build(unit=1.0):
        # `unit`: the same physical filter with every quantity expressed in a unit 1/unit times as large (variances scale by unit^2)
        return py.compile_ekf(
            model,
            {thrust: 1.0 * unit * unit},
            {"simple": {"v": tp["v"]}, "alt": {"z": tp["z"]}, "joint": {"jv": tp["v"], "jz": tp["z"] + tp["v"]}},
            {"simple": {"v": 1.0 * unit * unit}, "alt": {"z": 0.5 * unit * unit}, "joint": {"jv": 1.0 * unit * unit, "jz": 0.5 * unit * unit}},
            config={"innovation_filtering": None},
        )

    return build


def diffuse_history(seed, prior_scale, unit=1.0, build=None):
    """The project's mass/z/v/a model from a diffuse prior (prior_scale times the sensor noise), predictions interleaved with velocity and
    altitude updates; `unit` = 2^k re-expresses the SAME history in other units (exact in binary floating point: the model is linear).
    Returns (verdict, detail, list of covariances)."""
    import numpy as np

    ekf = (build or mass_filter())(unit)
    rng = np.random.default_rng(seed)
    vals = {"mass": rng.uniform(0.1, 5), "z": rng.normal(), "v": rng.normal(), "a": rng.normal()}
    s = ekf.State(**{k: v * unit for k, v in vals.items()})
    A = rng.normal(size=(4, 4))
    P0 = prior_scale * (A @ A.T)
    P0 = (P0 + P0.T) / 2
    P = ekf.Covariance.from_data(P0 * unit * unit)
    covs = []
    for step, op in enumerate(PATTERN):
        dtv, u, zv = rng.uniform(0.001, 0.1), rng.normal(), rng.normal()
        try:
            if op == "proc":
                s, P = ekf.process_model(dtv, s, P, ekf.Control(thrust=u * unit))
            elif op == "v":
                s, P = ekf.sensor_model(s, P, sensor_key="simple", sensor_reading=ekf.make_reading("simple", v=zv * unit))
            elif op == "j":
                s, P = ekf.sensor_model(s, P, sensor_key="joint", sensor_reading=ekf.make_reading("joint", jv=zv * unit, jz=(zv + u) * unit))
            else:
                s, P = ekf.sensor_model(s, P, sensor_key="alt", sensor_reading=ekf.make_reading("alt", z=zv * unit))
        except AssertionError:
            mag = float(np.max(np.abs(P.data)))
            asym_v = float(np.max(np.abs(P.data - P.data.T)))
            w = np.linalg.eigvalsh((P.data + P.data.T) / 2)
            return "refused", f"step {step} ({op}) refused the covariance the filter itself produced: largest entry {mag:.3g}, largest asymmetry {asym_v:.3g} ({asym_v / mag:.2g} relative), smallest eigenvalue {w.min():.3g}", covs
        covs.append(P.data.copy())
    return "completed", "", covs


def diffuse_and_units(run, seeds):
    """(a) diffuse priors (1e6 and 1e8 times the sensor noise) are never refused; (b) the verdict and the covariances do not depend on the
    unit the state is expressed in (factor 2^k: the whole computation scales exactly)."""
    import numpy as np

    build = mass_filter()
    fails = 0
    n_hist = 0
    for seed in seeds:
        for kappa in (1e6, 1e8):
            n_hist += 1
            run.native_runs += 1
            verdict, why, _ = diffuse_history(seed, kappa, build=build)
            if verdict != "completed":
                fails += 1
                run.findings.append(Finding("C09.py.history.diffuse_prior", "diffuse-prior-refused", f"mass/z/v/a model, prior {kappa:g} x sensor noise, history seed {seed}: {why}", {"language": "python", "inputs": {"model": "diffuse", "seed": seed, "prior_scale": kappa, "unit": 1.0}, "oracle_verdict": why}, True))
                return fails, n_hist
    for seed in seeds[:3]:
        base = diffuse_history(seed, 100.0, build=build)
        for k in (20, -20, 10):
            unit = 2.0**k
            n_hist += 1
            run.native_runs += 1
            verdict, why, covs = diffuse_history(seed, 100.0, unit=unit, build=build)
            same = verdict == base[0] and len(covs) == len(base[2]) and all(np.array_equal(c, b * unit * unit) for c, b in zip(covs, base[2]))
            if not same:
                fails += 1
                what = f"mass/z/v/a model, history seed {seed}: expressed in units 2^{-k} times as large (variances x 4^{k}) the filter {'is ' + verdict if verdict != base[0] else 'gives covariances that are not the scaled ones'} ({why or 'same history in the original units: ' + base[0]})"
                run.findings.append(Finding("C09.py.history.unit_invariance", "unit-dependent", what, {"language": "python", "inputs": {"model": "diffuse", "seed": seed, "prior_scale": 100.0, "unit": unit}, "oracle_verdict": what}, True))
                return fails, n_hist
    return fails, n_hist


def generic_history(seed, steps, dt, scale=1.0):
    """scale: prior variance `scale`, sensor noise `scale**2` (accurate sensors on a small-scale prior make S << 1), process noise `scale`."""
    import numpy as np
    from replay import scenarios

    sc = scenarios.Scenario(3, 1, 2, [2, 1], seed=seed)
    if scale != 1.0:
        sc.sensor_noises = {k: {r: v * scale * scale for r, v in m.items()} for k, m in sc.sensor_noises.items()}
        sc.process_noise = {u: v * scale for u, v in sc.process_noise.items()}
    # keep the dynamics bounded: use a contraction-like linearised model
    for s in sc.state:
        sc.state_model[s] = s + sc.dt * sum((0.3 * v for v in sc.state + sc.control), 0) - sc.dt * s
    py, ekf = scenarios.build_ekf(sc)
    pt = sc.point(seed)
    state, cov = scenarios.named_state(ekf, sc, pt), ekf.Covariance()
    if scale != 1.0:
        cov = ekf.Covariance.from_data(cov.data * scale)
    ctl = scenarios.named_control(ekf, sc, pt)
    keys = sorted(sc.sensor_models)
    for i in range(steps):
        try:
            state, cov = ekf.process_model(dt, state, cov, ctl)
            key = keys[i % len(keys)]
            rd = ekf.make_reading(key, **{r: 0.1 * (i % 7) for r in sc.sensor_models[key]})
            state, cov = ekf.sensor_model(state, cov, sensor_key=key, sensor_reading=rd)
        except (AssertionError, ValueError) as e:
            return False, f"generic model seed {seed}, scale {scale}: refused at step {i + 1} (dt={dt}): {(str(e).splitlines() or [type(e).__name__])[0]}"
        c = cov.data
        w = np.linalg.eigvalsh((c + c.T) / 2)
        mag = max(abs(w).max(), 1e-300)
        if not np.allclose(c, c.T, rtol=1e-7, atol=1e-12 * mag) or w.min() < -1e-9 * mag:
            return False, f"generic model seed {seed}, prior scale {scale}, step {i + 1}: covariance invalid (lam_min {w.min():.3e}, magnitude {max(abs(w).max(), 1e-300):.3e})"
    return True, "ok"


def lean_lemmas(run):
    src = os.path.join(driver.VERIF, "lean", "kalman_psd.lean")
    t0 = time.time()
    try:
        out = subprocess.run(["lean", src], capture_output=True, text=True, timeout=1500, cwd="/opt/veriftools/mathlib4")
        txt = out.stdout + out.stderr
        # accepted without errors, and the two theorems depend on no `sorry`
        ok = out.returncode == 0 and "error" not in txt and "sorryAx" not in txt and txt.count("depends on axioms") == 3
        detail = (out.stdout + out.stderr)[-1500:]
    except Exception as e:
        ok, detail = False, repr(e)
    ms = (time.time() - t0) * 1000
    for name in ("predict_preserves_psd", "innovation_covariance_psd", "joseph_form", "update_preserves_psd", "posterior_le_prior"):
        run.add_obligation(f"C09.lean.{name}", "proved" if ok else "undecided", "lean4+mathlib", ms / 5, detail=None if ok else detail, theory="math")
    if not ok:
        run.undecided.append("C09.lean.*")
        run.notes.append("Lean lemmas not checked: " + detail[-400:])


def check(run):
    run.level = "other"
    rep = run.verify(gate.AssertValidCovariance(), {})
    n, lam, norm = z3.Int("n"), gate.lam_min(z3.Const("C", gate.Mat)), gate.norm2(z3.Const("C", gate.Mat))
    for ob in rep.obligations:
        if ob.result.status != "sat":
            continue
        r = smt.prove(ob.hyps + [n >= 1, n <= 4, norm <= 1000, norm >= z3.RealVal("1/1000")], ob.goal, timeout_ms=5000)
        model = r.model if r.status == "sat" and r.model is not None else ob.result.model

        def num(e):
            v = model.eval(e, model_completion=True)
            if z3.is_int_value(v):
                return v.as_long()
            return v.numerator_as_long() / v.denominator_as_long()

        nv, lv, mv = max(int(num(n)), 1), float(num(lam)), float(num(norm))  # a spectrum needs at least one eigenvalue
        accept_clause = "accepts_relatively_psd" in ob.name
        from pvc.np_model import asym as asym_f, max_abs as max_abs_f

        av, gv = float(num(asym_f(z3.Const("C", gate.Mat)))), float(num(max_abs_f(z3.Const("C", gate.Mat))))
        sym_part = (av > 64 * nv * 2**-53 * gv) if not accept_clause else False
        run.native_runs += 1
        if accept_clause:
            # which conjunct of the acceptance region does the counter-model exercise?  try the symmetry witness first when the
            # model's asymmetry is non-zero, then the spectral one
            tried = []
            confirmed = False
            for cand in ((gv, av), (1e12, 1e12 * 64 * nv * 2**-54), (1e6, 1e6 * 64 * nv * 2**-54), (1e3, 1e3 * 64 * nv * 2**-54)):
                if cand[0] <= 0 or cand[1] <= 0 or cand[1] > 64 * max(nv, 2) * 2**-53 * cand[0]:
                    continue
                verdict, C = native_gate_asymmetric(nv, cand[0], cand[1])
                tried.append((cand, verdict))
                if verdict == "refused":
                    confirmed = True
                    what = f"assert_valid_covariance refused the {max(nv,2)}x{max(nv,2)} matrix diag({cand[0]:g}) with one off-diagonal pair differing by {cand[1]:.3g} ({cand[1]/cand[0]:.2g} of the largest entry: symmetric up to rounding relative to its magnitude)"
                    run.findings.append(Finding(ob.name, "relative-asymmetry-refused", what, {"language": "python", "inputs": {"n": max(nv, 2), "max_abs": cand[0], "asymmetry": cand[1]}, "solver_result": "sat", "counter_model": smt.model_to_dict(model), "oracle_verdict": verdict}, True))
                    break
            if confirmed:
                continue
        verdict, C = native_gate(nv, lv, mv)
        confirmed = (verdict == "refused") if accept_clause else (verdict == "accepted")
        what = (
            f"assert_valid_covariance {verdict} the {nv}x{nv} symmetric matrix diag({mv}, ..., {lv}) whose smallest eigenvalue {lv} is "
            + ("within rounding relative to its magnitude (>= -64*n*2^-53*||C|| = %.3e)" % (-64 * nv * 2**-53 * mv) if accept_clause else "clearly negative (< -1e-6*||C||)")
        )
        sig = "relative-rounding-refused" if accept_clause else "tiny-negative-accepted"
        run.findings.append(Finding(ob.name, sig, what, {"language": "python", "inputs": {"n": nv, "lam_min": lv, "norm2": mv}, "solver_result": "sat", "counter_model": smt.model_to_dict(model), "oracle_verdict": verdict}, confirmed))
    # bounded stand-in for the float-history half
    fails = 0
    t0 = time.time()
    histories = 0
    steps = 2000 if run.tier == "thorough" else 300
    for dt in (0.1, 0.05, 0.07, 0.01) if run.tier == "thorough" else (0.1, 0.07):
        histories += 1
        run.native_runs += 1
        ok, why = mass_model_history(steps, dt)
        if not ok:
            fails += 1
            run.findings.append(Finding("C09.py.history.mass_model", "mass-model-refused", f"project's mass/z/v/a model: {why}", {"language": "python", "inputs": {"model": "mass", "dt": dt, "steps": steps}, "oracle_verdict": why}, True))
            break
    if not fails:
        histories += 1
        run.native_runs += 1
        rsteps = 120 if run.tier == "thorough" else 40
        ok, why = rank_deficient_history(rsteps, run.seed)
        if not ok:
            fails += 1
            run.findings.append(Finding("C09.py.history.rank_deficient_model", "rank-deficient-refused", f"mass model with a derived weight state (covariances rank deficient by two): {why}", {"language": "python", "inputs": {"model": "rank_deficient", "steps": rsteps, "seed": run.seed}, "oracle_verdict": why}, True))
    if not fails:
        # ONE state with a THREE-reading sensor (H 3x1, S 3x3): the update's covariance against the exact textbook value, then two
        # more operations on it (a refused covariance would raise)
        from replay import kalman

        histories += 1
        run.native_runs += 1
        op = kalman.native_update((1, 0, 3), run.seed, None)[0]
        if op:
            fails += 1
            run.findings.append(Finding("C09.py.history.one_state_many_readings", "1xm", f"one-state model with a three-reading sensor: {op[0]}", {"language": "python", "inputs": {"model": "one_state", "seed": run.seed}, "oracle_verdict": op[:3]}, True))
    if not fails:
        histories += 1
        run.native_runs += 1
        ok, why = singular_history(400 if run.tier == "thorough" else 80, 0.1)
        if not ok:
            fails += 1
            run.findings.append(Finding("C09.py.history.singular_covariance", "singular", why, {"language": "python", "inputs": {"model": "singular", "steps": 400 if run.tier == "thorough" else 80, "dt": 0.1}, "oracle_verdict": why}, True))
    if not fails:
        for seed in range(3 if run.tier == "thorough" else 1):
            for scale in (1.0, 1e-2, 1e3) if (run.tier == "thorough" or seed == 0) else (1.0,):
                histories += 1
                run.native_runs += 1
                ok, why = generic_history(run.seed + seed, steps // 4, 0.05, scale)
                if not ok:
                    fails += 1
                    run.findings.append(Finding("C09.py.history.generic_model", "generic-model", why, {"language": "python", "inputs": {"model": "generic", "seed": run.seed + seed, "steps": steps // 4, "dt": 0.05, "scale": scale}, "oracle_verdict": why}, True))
                    break
            if fails:
                break
    if not fails:
        f2, n2 = diffuse_and_units(run, list(range(5, 5 + (40 if run.tier == "thorough" else 12))))
        fails += f2
        histories += n2
    run.bounded.append({"what": "native float histories (predict + interleaved updates) through the real filter; oracle: no refusal, covariance symmetric and PSD relative to magnitude; diffuse priors (1e6, 1e8 x sensor noise) on the mass model; the same history re-expressed in units 2^k (k = 20, -20, 10) gives the same verdict and exactly the scaled covariances", "bound": f"{histories} histories x up to {steps} steps", "failures": fails, "counted_as_proved": False, "seconds": round(time.time() - t0, 1)})
    from checks.ekf_common import dtype_sweep

    dtype_sweep(run, "C09", ("predicted", "posterior"))
    if run.tier == "thorough":
        lean_lemmas(run)
    run.extra["evaluations"] = histories
    run.extra["distinct_nontrivial"] = histories


def replay_file(payload):
    inp = payload["inputs"]
    if inp.get("model") == "mass":
        ok, why = mass_model_history(inp["steps"], inp["dt"])
        print("replay mass model history:", why)
        return ok
    if inp.get("model") == "one_state":
        from replay import kalman

        op = kalman.native_update((1, 0, 3), inp.get("seed", 0), None)[0]
        print("replay one-state / three-reading update:", op[:2] or "as the textbook update")
        return not op
    if inp.get("model") == "rank_deficient":
        ok, why = rank_deficient_history(inp["steps"], inp.get("seed", 0))
        print("replay rank-deficient history:", why)
        return ok
    if inp.get("model") == "singular":
        ok, why = singular_history(inp["steps"], inp["dt"])
        print("replay singular-covariance history:", why)
        return ok
    if inp.get("dtypes"):
        from checks.ekf_common import replay_dtypes

        return replay_dtypes(inp)
    if inp.get("model") == "diffuse":
        verdict, why, covs = diffuse_history(inp["seed"], inp["prior_scale"], unit=inp.get("unit", 1.0))
        if inp.get("unit", 1.0) != 1.0:
            import numpy as np

            base = diffuse_history(inp["seed"], inp["prior_scale"])
            u2 = inp["unit"] ** 2
            same = verdict == base[0] and len(covs) == len(base[2]) and all(np.array_equal(c, b * u2) for c, b in zip(covs, base[2]))
            print(f"replay unit invariance (unit {inp['unit']:g}): {'same verdict and scaled covariances' if same else 'DIFFERS: ' + verdict + ' ' + why}")
            return same
        print("replay diffuse-prior history:", verdict, why)
        return verdict == "completed"
    if inp.get("model") == "generic":
        ok, why = generic_history(inp["seed"], inp["steps"], inp["dt"], inp.get("scale", 1.0))
        print("replay generic history:", why)
        return ok
    if "asymmetry" in inp:
        verdict, C = native_gate_asymmetric(int(inp["n"]), inp["max_abs"], inp["asymmetry"])
        print(f"replay gate on diag({inp['max_abs']:g}) with one off-diagonal pair differing by {inp['asymmetry']:g} (n={inp['n']}): {verdict}")
        return False if payload.get("oracle_verdict") == verdict else True
    verdict, C = native_gate(max(int(inp["n"]), 1), inp["lam_min"], inp["norm2"])
    print(f"replay gate on diag({inp['norm2']},...,{inp['lam_min']}) (n={inp['n']}): {verdict}")
    return False if payload.get("oracle_verdict") == verdict else True
