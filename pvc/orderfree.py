"""Order-token non-interference scan (C15).

Iteration orders that python does not fix by the VALUE of a container are uninterpreted enumerations in the symbolic
theories: hash order of a set / declaration order of a list (`hash_order`, `hash_order_pos`), insertion order of a dict
(`<dict>_key`, `<dict>_pos`, `_key2`, `_pos2`).  The name-sorted enumerations (`srt`, `*_sorted_key`) are functions of the set.
A result whose terms, and whose path condition, mention no order token is the same for every such order (sufficient,
syntactic: a harmless mention is reported as undecided by the caller, never as a violation).
"""
from __future__ import annotations

import re

import z3

TOKEN = re.compile(r"^(hash_order(_pos)?|.*(?<!sorted)_(key|pos)2?)(!\d+)?$")


def tokens_in_term(t, acc, seen):
    stack = [t]
    while stack:
        e = stack.pop()
        if not z3.is_expr(e):
            continue
        k = e.get_id()
        if k in seen:
            continue
        seen.add(k)
        if z3.is_quantifier(e):
            stack.append(e.body())
            continue
        if z3.is_app(e):
            nm = e.decl().name()
            if e.num_args() > 0 and TOKEN.match(nm):
                acc.add(nm)
            stack.extend(e.children())


def tokens_in_value(v, I, acc=None, seen=None, depth=0, visited=None):
    """Order tokens occurring in a (possibly nested) symbolic value; sequences / matrices are probed at fresh indices."""
    from .interp import PyDict, PyList
    from .sym import SMat, SObj, SSeq

    acc = set() if acc is None else acc
    seen = set() if seen is None else seen
    visited = set() if visited is None else visited
    if depth > 8 or id(v) in visited:
        return acc
    visited.add(id(v))
    if z3.is_expr(v):
        tokens_in_term(v, acc, seen)
    elif isinstance(v, SSeq):
        tokens_in_value(v.length, I, acc, seen, depth + 1, visited)
        i = z3.Int(I.path.names.fresh("probe_i"))
        try:
            tokens_in_value(v.at(i), I, acc, seen, depth + 1, visited)
        except Exception:
            acc.add("<unprobeable sequence>")
    elif isinstance(v, SMat):
        i, j = z3.Int(I.path.names.fresh("probe_r")), z3.Int(I.path.names.fresh("probe_c"))
        tokens_in_term(v.el(i, j), acc, seen)
        tokens_in_value(v.rows(), I, acc, seen, depth + 1, visited)
        tokens_in_value(v.cols(), I, acc, seen, depth + 1, visited)
    elif isinstance(v, SObj):
        for f, x in v.fields.items():
            tokens_in_value(x, I, acc, seen, depth + 1, visited)
    elif isinstance(v, PyList):
        for x in v.items:
            tokens_in_value(x, I, acc, seen, depth + 1, visited)
    elif isinstance(v, PyDict):
        for k, x in v.d.items():
            tokens_in_value(k, I, acc, seen, depth + 1, visited)
            tokens_in_value(x, I, acc, seen, depth + 1, visited)
    elif isinstance(v, (tuple, list)):
        for x in v:
            tokens_in_value(x, I, acc, seen, depth + 1, visited)
    elif hasattr(v, "z") and z3.is_expr(getattr(v, "z")):
        tokens_in_term(v.z, acc, seen)
    elif hasattr(v, "term") and z3.is_expr(getattr(v, "term")):
        tokens_in_term(v.term, acc, seen)
    return acc


def tokens_in_path(P, start):
    """Order tokens in the branch decisions taken after index `start` of the path condition (definitional instances excluded)."""
    acc, seen = set(), set()
    skip = getattr(P, "defined_idx", set())
    for k, c in enumerate(P.pc):
        if k < start or k in skip:
            continue
        tokens_in_term(c, acc, seen)
    return acc
