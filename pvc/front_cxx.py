"""C++ front end: clang's JSON AST of the REAL headers -> Python ast -> the same symbolic interpreter.

`clang++ -std=c++20 -fsyntax-only -Xclang -ast-dump=json -Xclang -ast-dump-filter=<name>` is run on a
one-line translation unit that includes the header from the repository working tree (every run).
The statement/expression tree is clang's; three kinds of leaves that clang 14's JSON dump omits are read
from the source range clang reports for the node: template arguments of `std::is_same_v<...>`,
designator names of designated initialisers, and the spelling of dependent names (`Impl::Tag::x`,
unresolved member calls).

Lowering (documented subset; anything else raises Unsupported -> bounded fallback, never a violation):
  CompoundStmt, DeclStmt(VarDecl, StaticAssertDecl), IfStmt (constexpr or not), ForStmt (counting loop),
  CXXForRangeStmt, ReturnStmt, BinaryOperator (incl. assignment), UnaryOperator, CallExpr (incl. immediately
  invoked lambdas and std::abs/floor/sqrt), member / dependent member expressions, static_cast (identity),
  InitListExpr with designators (struct construction), literals, implicit casts / parens / temporaries
  (transparent), CXXOperatorCallExpr (matrix operators, for the generated code).
Dropped: ScopeTimer objects, access specifiers, `const`/reference qualifiers (value semantics of the
opaque estimate type make copies unobservable).
"""
from __future__ import annotations

import ast
import json
import os
import re
import subprocess
import tempfile

from .sym import Unsupported


def run_clang(tu_text, include_dirs, filt, std="c++20", defines=()):
    with tempfile.TemporaryDirectory(prefix="pvc-clang-") as d:
        tu = os.path.join(d, "tu.cpp")
        with open(tu, "w") as f:
            f.write(tu_text)
        cmd = ["clang++", f"-std={std}", "-fsyntax-only", "-Wno-everything"]
        for inc in include_dirs:
            cmd += ["-I", inc]
        for df in defines:
            cmd += [f"-D{df}"]
        cmd += ["-Xclang", "-ast-dump=json", "-Xclang", f"-ast-dump-filter={filt}", tu]
        out = subprocess.run(cmd, capture_output=True, text=True, timeout=300)
        if out.returncode != 0 and not out.stdout.strip():
            raise Unsupported(f"clang failed: {out.stderr[-800:]}")
        return parse_concatenated_json(out.stdout), out.stderr


def parse_concatenated_json(s):
    dec = json.JSONDecoder()
    i, objs = 0, []
    while i < len(s):
        while i < len(s) and s[i].isspace():
            i += 1
        if i >= len(s):
            break
        o, j = dec.raw_decode(s, i)
        objs.append(o)
        i = j
    return objs


TRANSPARENT = {"ImplicitCastExpr", "ParenExpr", "ExprWithCleanups", "MaterializeTemporaryExpr", "CXXBindTemporaryExpr", "CXXFunctionalCastExpr", "ConstantExpr", "CXXStaticCastExpr", "SubstNonTypeTemplateParmExpr"}
BINOPS = {"+": ast.Add, "-": ast.Sub, "*": ast.Mult, "/": ast.Div}
EIGEN_OPS = {"*": "cxx_mul", "+": "cxx_add", "-": "cxx_sub"}
CMPOPS = {"<": ast.Lt, "<=": ast.LtE, ">": ast.Gt, ">=": ast.GtE, "==": ast.Eq, "!=": ast.NotEq}


class Lowerer:
    def __init__(self, source_text, flags=None, method_resolver=None, self_name="self", eigen=False):
        """eigen=True (generated filter code / Eigen helpers): every `*` becomes cxx_mul (matrix product on matrices),
        `.transpose()` / `.inverse()` become cxx_transpose / cxx_inverse, qualified static callees keep their qualification
        (A::B::f -> A_B.f), `(expr)(i, j)` is element access, positional braced returns take their designators from the source."""
        self.eigen = eigen
        self.src_text = source_text
        self.flags = flags or {}
        self.resolve_method = method_resolver
        self.pre = []  # statements to emit before the current one (lambda definitions)
        self.lambda_count = 0
        self.dropped = set()

    # -- source text ---------------------------------------------------------------------------
    def text(self, n):
        r = n.get("range")
        if not r:
            return ""
        b, e = r["begin"], r["end"]
        b = b.get("expansionLoc", b)
        e = e.get("expansionLoc", e)
        if "offset" not in b or "offset" not in e:
            return ""
        return self.src_text[b["offset"] : e["offset"] + e.get("tokLen", 0)]

    # -- expressions ---------------------------------------------------------------------------
    def expr(self, n):
        k = n.get("kind")
        inner = [c for c in n.get("inner", []) if c]
        if k in TRANSPARENT:
            return self.expr(inner[-1])
        if k == "IntegerLiteral":
            return ast.Constant(int(n["value"]))
        if k == "FloatingLiteral":
            return ast.Constant(float(n["value"]))
        if k == "CXXBoolLiteralExpr":
            return ast.Constant(bool(n["value"]))
        if k == "DeclRefExpr":
            name = n["referencedDecl"]["name"]
            if self.eigen and n["referencedDecl"].get("kind") in ("CXXMethodDecl", "FunctionDecl", "VarDecl"):
                t = re.sub(r"\s+", "", self.text(n))
                if t.startswith("std::"):
                    t = t[5:]
                if "::" in t and re.fullmatch(r"[\w:]+", t):
                    return self.dependent_name(t)
            return ast.Name(self.rename(name), ast.Load())
        if k == "UnresolvedLookupExpr":
            name = n.get("name")
            if name == "is_same_v":
                return self.is_same(self.text(n))
            return ast.Name(self.rename(name), ast.Load())
        if k == "DependentScopeDeclRefExpr":
            return self.dependent_name(self.text(n))
        if k == "CXXThisExpr":
            return ast.Name("self", ast.Load())
        if k == "MemberExpr":
            base = self.expr(inner[0]) if inner else ast.Name("self", ast.Load())
            return ast.Attribute(base, n["name"], ast.Load())
        if k == "CXXDependentScopeMemberExpr":
            if inner:
                return ast.Attribute(self.expr(inner[0]), n["member"], ast.Load())
            return self.dependent_name(self.text(n))
        if k == "UnresolvedMemberExpr":
            t = self.text(n)
            return ("unresolved_member", t.split("(")[0].strip())
        if k == "UnaryOperator":
            op = n["opcode"]
            v = self.expr(inner[0])
            if op == "-":
                return ast.UnaryOp(ast.USub(), v)
            if op == "!":
                return ast.UnaryOp(ast.Not(), v)
            if op == "+":
                return v
            if op in ("*", "&"):
                return v
            raise Unsupported(f"C++ unary operator {op}")
        if k == "BinaryOperator":
            op = n["opcode"]
            a, b = self.expr(inner[0]), self.expr(inner[1])
            if op in EIGEN_OPS and self.eigen:
                return ast.Call(ast.Name(EIGEN_OPS[op], ast.Load()), [a, b], [])
            if op in BINOPS:
                return ast.BinOp(a, BINOPS[op](), b)
            if op in CMPOPS:
                return ast.Compare(a, [CMPOPS[op]()], [b])
            if op == "&&":
                return ast.BoolOp(ast.And(), [a, b])
            if op == "||":
                return ast.BoolOp(ast.Or(), [a, b])
            raise Unsupported(f"C++ binary operator {op} in expression position")
        if k in ("CallExpr", "CXXMemberCallExpr"):
            callee = inner[0]
            args = [self.expr(a) for a in inner[1:] if a.get("kind") != "CXXDefaultArgExpr"]
            ck = callee
            while ck.get("kind") in TRANSPARENT:
                ck = [c for c in ck["inner"] if c][-1]
            if ck.get("kind") == "LambdaExpr":
                fname = self.lower_lambda(ck)
                return ast.Call(ast.Name(fname, ast.Load()), args, [])
            if self.eigen and ck.get("kind") in ("BinaryOperator", "CXXOperatorCallExpr", "CallExpr", "CXXMemberCallExpr"):
                # (matrix expression)(i, j): element access
                return ast.Subscript(self.expr(callee), ast.Tuple(args, ast.Load()) if len(args) != 1 else args[0], ast.Load())
            f = self.expr(callee)
            if self.eigen and isinstance(f, ast.Attribute) and f.attr in ("transpose", "inverse") and not args:
                return ast.Call(ast.Name("cxx_" + f.attr, ast.Load()), [f.value], [])
            if isinstance(f, tuple) and f[0] == "unresolved_member":
                target = self.resolve_method(f[1], len(args)) if self.resolve_method else f[1]
                return ast.Call(ast.Attribute(ast.Name("self", ast.Load()), target, ast.Load()), args, [])
            return ast.Call(f, args, [])
        if k == "CXXOperatorCallExpr":
            opname = self.operator_name(inner[0])
            args = [self.expr(a) for a in inner[1:]]
            if opname in BINOPS and len(args) == 2:
                # Eigen: * is the matrix product
                if opname in EIGEN_OPS and self.eigen:
                    return ast.Call(ast.Name(EIGEN_OPS[opname], ast.Load()), args, [])
                if opname == "*":
                    return ast.BinOp(args[0], ast.MatMult(), args[1])
                return ast.BinOp(args[0], BINOPS[opname](), args[1])
            if opname == "()":
                return ast.Subscript(args[0], ast.Tuple(args[1:], ast.Load()) if len(args) > 2 else args[1], ast.Load())
            if opname == "[]":
                return ast.Subscript(args[0], args[1], ast.Load())
            if opname == "-" and len(args) == 1:
                return ast.UnaryOp(ast.USub(), args[0])
            if opname == "=":
                return ("assign", args[0], args[1])
            raise Unsupported(f"C++ operator{opname}")
        if k == "InitListExpr":
            kws = []
            if self.eigen and inner and all(c.get("kind") != "DesignatedInitExpr" for c in inner):
                # semantic form of a designated list in non-dependent code: designators are read from the source text
                names = re.findall(r"\.(\w+)\s*=(?!=)", self.text(n))
                if len(names) == len(inner):
                    return ast.Call(ast.Name("mk_struct", ast.Load()), [], [ast.keyword(nm, self.expr(c)) for nm, c in zip(names, inner)])
            for c in inner:
                if c.get("kind") == "DesignatedInitExpr":
                    t = self.text(c)
                    m = re.match(r"\s*\.(\w+)\s*=", t)
                    if not m:
                        raise Unsupported(f"designator text {t!r}")
                    kws.append(ast.keyword(m.group(1), self.expr([x for x in c["inner"] if x][-1])))
                else:
                    raise Unsupported("positional initializer list")
            return ast.Call(ast.Name("mk_struct", ast.Load()), [], kws)
        if k == "CXXUnresolvedConstructExpr" or k == "CXXTemporaryObjectExpr" or k == "CXXConstructExpr":
            if len(inner) == 1:
                return self.expr(inner[0])
            t = self.text(n)
            m = re.match(r"\s*(\w+)\s*\{", t)
            if inner and inner[0].get("kind") == "InitListExpr":
                return self.expr(inner[0])
            if not inner:
                return ast.Call(ast.Name("default_construct", ast.Load()), [ast.Constant(n.get("type", {}).get("qualType", ""))], [])
            raise Unsupported(f"constructor expression {t[:60]!r}")
        if k == "LambdaExpr":
            fname = self.lower_lambda(n)
            return ast.Name(fname, ast.Load())
        if k == "ArraySubscriptExpr":
            return ast.Subscript(self.expr(inner[0]), self.expr(inner[1]), ast.Load())
        if k == "ConditionalOperator":
            return ast.IfExp(self.expr(inner[0]), self.expr(inner[1]), self.expr(inner[2]))
        raise Unsupported(f"C++ expression kind {k}")

    def operator_name(self, callee):
        c = callee
        while c.get("kind") in TRANSPARENT:
            c = [x for x in c["inner"] if x][-1]
        if c.get("kind") == "DeclRefExpr":
            nm = c["referencedDecl"]["name"]
        elif c.get("kind") == "UnresolvedLookupExpr":
            nm = c.get("name", "")
        else:
            nm = self.text(c)
        return nm.replace("operator", "").strip()

    def rename(self, name):
        return {"abs": "abs", "floor": "floor", "sqrt": "sqrt"}.get(name, name)

    def is_same(self, text):
        m = re.search(r"is_same_v\s*<\s*(?:typename\s+)?([\w:]+)\s*,\s*([\w:]+)\s*>", text)
        if not m:
            raise Unsupported(f"is_same_v arguments not recognised in {text!r}")
        a, b = m.group(1), m.group(2)
        if b != "std::false_type":
            a, b = b, a
        if b != "std::false_type":
            raise Unsupported(f"is_same_v of {a}, {b}")
        tag = a.split("::")[-1]
        flag = {"ControlT": "HAS_CONTROL", "CalibrationT": "HAS_CALIBRATION"}.get(tag)
        if flag is None:
            raise Unsupported(f"is_same_v on {a}")
        # is_same_v<X, false_type>  ==  not HAS_X
        return ast.UnaryOp(ast.Not(), ast.Name(flag, ast.Load()))

    def dependent_name(self, text):
        t = text.strip()
        m = re.match(r"^(?:typename\s+)?([\w:]+)$", t)
        if not m:
            raise Unsupported(f"dependent name {t!r}")
        parts = m.group(1).split("::")
        node = ast.Name("_".join(parts[:-1]) if len(parts) > 1 else parts[0], ast.Load())
        if len(parts) > 1:
            return ast.Attribute(node, parts[-1], ast.Load())
        return node

    def lower_lambda(self, n):
        self.lambda_count += 1
        fname = f"_lambda_{self.lambda_count}"
        rec = [c for c in n["inner"] if c.get("kind") == "CXXRecordDecl"][0]
        call_op = [c for c in rec["inner"] if c.get("kind") == "CXXMethodDecl" and c.get("name") == "operator()"][0]
        params = [c["name"] for c in call_op.get("inner", []) if c.get("kind") == "ParmVarDecl"]
        body = [c for c in call_op["inner"] if c.get("kind") == "CompoundStmt"][0]
        saved = self.pre
        self.pre = []
        stmts = self.block(body)
        inner_pre = self.pre
        self.pre = saved
        fd = ast.FunctionDef(fname, ast.arguments([], [ast.arg(p) for p in params], None, [], [], None, []), inner_pre + stmts or [ast.Pass()], [], None, None)
        if hasattr(fd, "type_params"):
            fd.type_params = []
        self.pre.append(fd)
        return fname

    # -- statements ------------------------------------------------------------------------------
    def block(self, n):
        out = []
        for c in n.get("inner", []):
            if not c:
                continue
            s = self.stmt(c)
            out.extend(self.pre)
            self.pre = []
            out.extend(s)
        return out

    def stmt(self, n):
        k = n.get("kind")
        inner = [c for c in n.get("inner", []) if c]
        if k == "CompoundStmt":
            return self.block(n)
        if k == "NullStmt":
            return []
        if k == "DeclStmt":
            out = []
            for d in inner:
                if d.get("kind") == "StaticAssertDecl":
                    cond = self.expr([c for c in d["inner"] if c][0])
                    out.append(ast.Expr(ast.Call(ast.Name("static_assert", ast.Load()), [cond], [])))
                elif d.get("kind") == "VarDecl":
                    ty = d.get("type", {}).get("qualType", "")
                    if "ScopeTimer" in ty:
                        self.dropped.add("ScopeTimer objects")
                        continue
                    init = [c for c in d.get("inner", []) if c]
                    if init:
                        v = self.expr(init[-1])
                    else:
                        v = ast.Call(ast.Name("default_construct", ast.Load()), [ast.Constant(ty)], [])
                    out.append(ast.Assign([ast.Name(d["name"], ast.Store())], v))
                elif d.get("kind") in ("TypeAliasDecl", "UsingDecl", "TypedefDecl"):
                    continue
                else:
                    raise Unsupported(f"declaration {d.get('kind')}")
            return out
        if k == "ReturnStmt":
            return [ast.Return(self.expr(inner[0]) if inner else None)]
        if k == "IfStmt":
            cond = self.expr(inner[0])
            then = self.stmt(inner[1])
            then = self.flush(then)
            els = self.flush(self.stmt(inner[2])) if len(inner) > 2 else []
            return [ast.If(cond, then or [ast.Pass()], els)]
        if k == "ForStmt":
            init, cond, inc, body = (n["inner"] + [None] * 5)[0], None, None, None
            parts = n["inner"]
            # clang: [init, condvar, cond, inc, body]
            init, cond, inc, body = parts[0], parts[2], parts[3], parts[4]
            var = [c for c in init["inner"] if c][0]
            start = self.expr([c for c in var["inner"] if c][-1])
            ck = cond
            while ck.get("kind") in TRANSPARENT:
                ck = [c for c in ck["inner"] if c][-1]
            if not (ck.get("kind") == "BinaryOperator" and ck["opcode"] == "<"):
                raise Unsupported("for loop that is not a counting loop")
            lhs, rhs = [c for c in ck["inner"] if c]
            if not (inc.get("kind") == "UnaryOperator" and inc["opcode"] == "++"):
                raise Unsupported("for loop increment")
            bound = self.expr(rhs)
            rng = ast.Call(ast.Name("range", ast.Load()), [start, bound] if not (isinstance(start, ast.Constant) and start.value == 0) else [bound], [])
            return [ast.For(ast.Name(var["name"], ast.Store()), rng, self.flush(self.stmt(body)) or [ast.Pass()], [])]
        if k == "CXXForRangeStmt":
            # children: [init?, range decl stmt, begin, end, cond, inc, loop var decl stmt, body]
            decls = [c for c in n["inner"] if c and c.get("kind") == "DeclStmt"]
            range_decl = [c for c in decls[0]["inner"] if c][0]
            rng = self.expr([c for c in range_decl["inner"] if c][-1])
            var = [c for c in decls[-1]["inner"] if c][0]
            body = [c for c in n["inner"] if c][-1]
            return [ast.For(ast.Name(var["name"], ast.Store()), rng, self.flush(self.stmt(body)) or [ast.Pass()], [])]
        # expression statements
        if k == "BinaryOperator" and n.get("opcode") == "=":
            tgt, val = self.expr(inner[0]), self.expr(inner[1])
            return [ast.Assign([self.store(tgt)], val)]
        if k == "CompoundAssignOperator":
            tgt, val = self.expr(inner[0]), self.expr(inner[1])
            op = n["opcode"][0]
            return [ast.AugAssign(self.store(tgt), BINOPS[op](), val)]
        if k in TRANSPARENT:
            return self.stmt(inner[-1])
        e = self.expr(n)
        if isinstance(e, tuple) and e[0] == "assign":
            return [ast.Assign([self.store(e[1])], e[2])]
        return [ast.Expr(e)]

    def flush(self, stmts):
        out = list(self.pre) + list(stmts)
        self.pre = []
        return out

    def store(self, t):
        if isinstance(t, ast.Name):
            return ast.Name(t.id, ast.Store())
        if isinstance(t, ast.Attribute):
            return ast.Attribute(t.value, t.attr, ast.Store())
        if isinstance(t, ast.Subscript):
            return ast.Subscript(t.value, t.slice, ast.Store())
        raise Unsupported("assignment target")

    def function(self, decl, pyname, is_method=True):
        params = [c["name"] for c in decl.get("inner", []) if c.get("kind") == "ParmVarDecl"]
        body = [c for c in decl.get("inner", []) if c.get("kind") == "CompoundStmt"]
        if not body:
            raise Unsupported(f"{pyname}: no body")
        self.pre = []
        inits = []
        for c in decl.get("inner", []):
            if c.get("kind") == "CXXCtorInitializer":
                # constructor member initialiser: self.<member> = <initialiser>
                member = (c.get("anyInit") or {}).get("name")
                ini = [x for x in c.get("inner", []) if x]
                if member is None or len(ini) != 1:
                    raise Unsupported("constructor initialiser (base class / delegating)")
                e = ini[0]
                if e.get("kind") == "ParenListExpr":
                    sub = [x for x in e.get("inner", []) if x]
                    if not sub:
                        val = ast.Call(ast.Name("default_construct", ast.Load()), [ast.Constant((c.get("anyInit") or {}).get("type", {}).get("qualType", ""))], [])
                    elif len(sub) == 1:
                        val = self.expr(sub[0])
                    else:
                        raise Unsupported("constructor initialiser with several arguments")
                else:
                    val = self.expr(e)
                inits.extend(self.pre)
                self.pre = []
                inits.append(ast.Assign([ast.Attribute(ast.Name("self", ast.Load()), member, ast.Store())], val))
        stmts = inits + self.block(body[0])
        args = ([ast.arg("self")] if is_method else []) + [ast.arg(p) for p in params]
        fd = ast.FunctionDef(pyname, ast.arguments([], args, None, [], [], None, []), stmts or [ast.Pass()], [], None, None)
        if hasattr(fd, "type_params"):
            fd.type_params = []
        return fd, params


def python_module_source(prelude, class_name, functions):
    """Python source text of the lowered functions (shown in the evidence as the verified text)."""
    body = functions or [ast.Pass()]
    if class_name:
        cls = ast.ClassDef(class_name, [], [], body, [])
        if hasattr(cls, "type_params"):
            cls.type_params = []
        mod = ast.Module([cls], [])
    else:
        mod = ast.Module(body, [])
    ast.fix_missing_locations(mod)
    return prelude + "\n" + ast.unparse(mod) + "\n"
