"""Mechanical translation sympy expression -> z3 Real term.

Floats become exact rationals (shortest decimal repr), integer powers become
products / quotients, elementary functions become uninterpreted functions
(sound: any identity proved holds for the real functions too; may answer
'unknown', never a spurious proof).
"""
from __future__ import annotations

from fractions import Fraction

import sympy
import z3

_UF = {}


def uf(name, arity=1):
    key = (name, arity)
    if key not in _UF:
        _UF[key] = z3.Function(name, *([z3.RealSort()] * (arity + 1)))
    return _UF[key]


class Translator:
    def __init__(self, symbol_map=None, prefix=""):
        self.symbol_map = dict(symbol_map or {})
        self.prefix = prefix
        self.side_conditions = []  # denominators != 0 etc.
        self.used_uf = set()

    def sym(self, s):
        if s not in self.symbol_map:
            self.symbol_map[s] = z3.Real(self.prefix + s.name)
        return self.symbol_map[s]

    def cond(self, c):
        if c is sympy.true:
            return z3.BoolVal(True)
        if c is sympy.false:
            return z3.BoolVal(False)
        if isinstance(c, sympy.And):
            return z3.And(*[self.cond(a) for a in c.args])
        if isinstance(c, sympy.Or):
            return z3.Or(*[self.cond(a) for a in c.args])
        if isinstance(c, sympy.Not):
            return z3.Not(self.cond(c.args[0]))
        rel = {sympy.Eq: lambda a, b: a == b, sympy.Ne: lambda a, b: a != b, sympy.Lt: lambda a, b: a < b, sympy.Le: lambda a, b: a <= b, sympy.Gt: lambda a, b: a > b, sympy.Ge: lambda a, b: a >= b}
        for k, f in rel.items():
            if isinstance(c, k):
                return f(self.tr(c.args[0]), self.tr(c.args[1]))
        raise ValueError(f"cannot translate condition {c}")

    def tr(self, e):
        e = sympy.sympify(e)
        if e.is_Symbol:
            return self.sym(e)
        if e.is_Integer:
            return z3.RealVal(int(e))
        if e.is_Rational:
            return z3.RealVal(f"{int(e.p)}/{int(e.q)}")
        if e.is_Float:
            fr = Fraction(repr(float(e)))
            return z3.RealVal(f"{fr.numerator}/{fr.denominator}")
        if e.is_Add:
            args = [self.tr(a) for a in e.args]
            r = args[0]
            for a in args[1:]:
                r = r + a
            return r
        if e.is_Mul:
            args = [self.tr(a) for a in e.args]
            r = args[0]
            for a in args[1:]:
                r = r * a
            return r
        if e.is_Pow:
            base, ex = e.args
            if ex.is_Integer:
                n = int(ex)
                b = self.tr(base)
                if n == 0:
                    return z3.RealVal(1)
                r = b
                for _ in range(abs(n) - 1):
                    r = r * b
                if n < 0:
                    self.side_conditions.append(b != 0)
                    return z3.RealVal(1) / r
                return r
            if ex == sympy.Rational(1, 2):
                self.used_uf.add("sqrt")
                b = self.tr(base)
                r = uf("sqrt")(b)
                self.side_conditions.append(z3.Implies(b >= 0, z3.And(r >= 0, r * r == b)))
                return r
            if ex == sympy.Rational(-1, 2):
                self.used_uf.add("sqrt")
                b = self.tr(base)
                r = uf("sqrt")(b)
                self.side_conditions.append(z3.Implies(b >= 0, z3.And(r >= 0, r * r == b)))
                self.side_conditions.append(r != 0)
                return z3.RealVal(1) / r
            self.used_uf.add("pow")
            return uf("pow", 2)(self.tr(base), self.tr(ex))
        if isinstance(e, sympy.Mod):
            # sympy (like Python's %): Mod(a, b) = a - b * floor(a / b)  (result has the sign of the DIVISOR)
            a, b = self.tr(e.args[0]), self.tr(e.args[1])
            self.side_conditions.append(b != 0)
            return a - b * z3.ToReal(z3.ToInt(a / b))
        if isinstance(e, sympy.floor):
            return z3.ToReal(z3.ToInt(self.tr(e.args[0])))
        if isinstance(e, sympy.ceiling):
            return -z3.ToReal(z3.ToInt(-self.tr(e.args[0])))
        if isinstance(e, sympy.Abs):
            a = self.tr(e.args[0])
            return z3.If(a >= 0, a, -a)
        if isinstance(e, sympy.sign):
            a = self.tr(e.args[0])
            return z3.If(a > 0, z3.RealVal(1), z3.If(a < 0, z3.RealVal(-1), z3.RealVal(0)))
        if isinstance(e, sympy.Piecewise):
            out = None
            for val, cond in reversed(e.args):
                v = self.tr(val)
                out = v if (cond is sympy.true or out is None) else z3.If(self.cond(cond), v, out)
            return out
        if isinstance(e, sympy.Function) or e.is_Function:
            name = type(e).__name__
            self.used_uf.add(name)
            return uf(name, len(e.args))(*[self.tr(a) for a in e.args])
        if e is sympy.pi:
            self.used_uf.add("pi")
            return z3.Real("pi")
        if e is sympy.E:
            self.used_uf.add("E")
            return z3.Real("E")
        raise ValueError(f"cannot translate sympy node {type(e).__name__}: {e}")
