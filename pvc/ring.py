"""Back end for polynomial / rational-function identities over the reals.

z3's nlsat does not terminate on degree-6 identities in 14 variables (C19 position
update); ring normalisation decides them exactly: both sides are brought to the normal
form  numerator / denominator  with polynomials in canonical expanded form over Q
(dict: monomial -> Fraction); a/b == c/d is accepted iff a*d - c*b normalises to 0 and every
denominator that occurs is nonzero under the hypotheses (each hypothesis `t != 0`
licenses denominators whose normal form is c * nf(t)^k, c != 0).

Atoms: z3 constants and applications of uninterpreted functions (as opaque variables).
This is the same decision procedure as the `ring`/`field_simp` tactics; it is complete for
identities and never answers 'proved' for a non-identity.
"""
from __future__ import annotations

from fractions import Fraction

import z3


class Poly:
    __slots__ = ("t",)

    def __init__(self, terms=None):
        self.t = {k: v for k, v in (terms or {}).items() if v != 0}

    @staticmethod
    def const(c):
        return Poly({(): Fraction(c)})

    @staticmethod
    def var(name):
        return Poly({((name, 1),): Fraction(1)})

    def __add__(self, o):
        r = dict(self.t)
        for k, v in o.t.items():
            r[k] = r.get(k, 0) + v
        return Poly(r)

    def __neg__(self):
        return Poly({k: -v for k, v in self.t.items()})

    def __sub__(self, o):
        return self + (-o)

    def __mul__(self, o):
        r = {}
        for k1, v1 in self.t.items():
            for k2, v2 in o.t.items():
                d = dict(k1)
                for n, e in k2:
                    d[n] = d.get(n, 0) + e
                k = tuple(sorted(d.items()))
                r[k] = r.get(k, 0) + v1 * v2
        return Poly(r)

    def is_zero(self):
        return not self.t

    def is_const(self):
        return all(k == () for k in self.t)

    def __eq__(self, o):
        return self.t == o.t

    def scale(self, c):
        return Poly({k: v * c for k, v in self.t.items()})

    def __len__(self):
        return len(self.t)


class NotRing(Exception):
    pass


def _num(e):
    if z3.is_int_value(e):
        return Fraction(e.as_long())
    if z3.is_rational_value(e):
        return Fraction(e.numerator_as_long(), e.denominator_as_long())
    return None


def normalise(e, dens):
    """z3 arithmetic term -> (num Poly, den Poly); collects every denominator polynomial in `dens`."""
    c = _num(e)
    if c is not None:
        return Poly.const(c), Poly.const(1)
    k = e.decl().kind()
    ch = e.children()
    if k == z3.Z3_OP_ADD:
        n, d = normalise(ch[0], dens)
        for x in ch[1:]:
            n2, d2 = normalise(x, dens)
            if d == d2:
                n = n + n2
            else:
                n, d = n * d2 + n2 * d, d * d2
        return n, d
    if k == z3.Z3_OP_SUB:
        n, d = normalise(ch[0], dens)
        for x in ch[1:]:
            n2, d2 = normalise(x, dens)
            if d == d2:
                n = n - n2
            else:
                n, d = n * d2 - n2 * d, d * d2
        return n, d
    if k == z3.Z3_OP_UMINUS:
        n, d = normalise(ch[0], dens)
        return -n, d
    if k == z3.Z3_OP_MUL:
        n, d = normalise(ch[0], dens)
        for x in ch[1:]:
            n2, d2 = normalise(x, dens)
            n, d = n * n2, d * d2
        return n, d
    if k == z3.Z3_OP_DIV:
        n, d = normalise(ch[0], dens)
        n2, d2 = normalise(ch[1], dens)
        dens.append(n2)
        return n * d2, d * n2
    if k == z3.Z3_OP_TO_REAL:
        return normalise(ch[0], dens)
    if k == z3.Z3_OP_POWER:
        ex = _num(ch[1])
        if ex is not None and ex.denominator == 1 and 0 <= ex <= 8:
            n, d = normalise(ch[0], dens)
            rn, rd = Poly.const(1), Poly.const(1)
            for _ in range(int(ex)):
                rn, rd = rn * n, rd * d
            return rn, rd
        raise NotRing("power")
    if k == z3.Z3_OP_UNINTERPRETED or k == z3.Z3_OP_ITE:
        if k == z3.Z3_OP_ITE:
            raise NotRing("ite")
        return Poly.var(e.sexpr()), Poly.const(1)
    raise NotRing(f"operator {e.decl().name()}")


def _licensed(den, nonzero_polys):
    """den is nonzero if it is a nonzero constant, or c * p^k for a hypothesis p != 0, or a product of such."""
    if den.is_zero():
        return False
    if den.is_const():
        return True
    for p in nonzero_polys:
        cur = p
        for _k in range(1, 5):
            # compare up to a constant factor
            k0 = next(iter(cur.t))
            if k0 in den.t and len(den) == len(cur):
                c = den.t[k0] / cur.t[k0]
                if cur.scale(c) == den:
                    return True
            cur = cur * p
    return False


def prove_identity(hyps, goal):
    """Try to prove `goal` (an equation lhs == rhs of real terms) from hyps of the form t != 0.
    Returns (True, info) / (False, reason).  False means 'not decided by this back end'."""
    if not (z3.is_eq(goal) and goal.children()[0].sort() == z3.RealSort()):
        return False, "goal is not a real equation"
    nonzero = []
    try:
        for h in hyps:
            if z3.is_distinct(h) or (z3.is_not(h) and z3.is_eq(h.children()[0])):
                eq = h if z3.is_distinct(h) else h.children()[0]
                a, b = eq.children()[0], eq.children()[1]
                dd = []
                na, da = normalise(a, dd)
                nb, db = normalise(b, dd)
                if not dd:
                    nonzero.append(na * db - nb * da)
        dens = []
        ln, ld = normalise(goal.children()[0], dens)
        rn, rd = normalise(goal.children()[1], dens)
    except NotRing as e:
        return False, f"outside the ring fragment: {e}"
    diff = ln * rd - rn * ld
    if not diff.is_zero():
        return False, f"normal forms differ ({len(diff)} monomials in the difference)"
    for d in dens:
        if not _licensed(d, nonzero):
            return False, "a denominator is not licensed nonzero by the hypotheses"
    return True, f"ring normal form: {len(ln)} x {len(rd)} monomials, {len(dens)} denominators licensed"
