"""Model functions = ASSUMED contracts of dependencies (builtins, math, numpy, ...).

Each model states, in executable form over the symbolic value domain, what the
dependency is assumed to do.  They are listed in every evidence file under
`assumptions` (D-np, D-py, ...).  See DESIGN.md section 3.6.
"""
from __future__ import annotations

import ast

import z3

from .interp import (
    BoundMethod,
    Builtin,
    ClassV,
    Closure,
    ExcClass,
    GenV,
    NTClass,
    NTInst,
    PyDict,
    PyList,
    SliceV,
    Splat,
    as_seq2,
)
from .sym import (
    EXC_BASES,
    Mat,
    PyRaise,
    SBool,
    SInt,
    SMat,
    SObj,
    SOpaque,
    SNum,
    SReal,
    SSeq,
    SV,
    Unsupported,
    is_intlike,
    is_numeric,
    mat_add,
    mat_cols,
    mat_el,
    mat_emul,
    mat_eye,
    mat_inv,
    mat_mm,
    mat_rows,
    mat_sub,
    mat_T,
    mat_zeros,
    merge_values,
    subst,
    to_bool,
    to_int,
    to_real,
    wrap,
)

# uninterpreted helpers --------------------------------------------------------
floor_f = z3.Function("floor", z3.RealSort(), z3.IntSort())
sqrt_f = z3.Function("sqrt", z3.RealSort(), z3.RealSort())


class TypeV:
    """Builtin / library type object used in isinstance checks."""

    def __init__(self, name, pred=None):
        self.name = name
        self.pred = pred

    def __repr__(self):
        return f"<type {self.name}>"

    def pvc_call(self, I, args, kwargs):
        return I.models.type_call(I, self, args, kwargs)


class ModelModule:
    def __init__(self, name, attrs):
        self.name = name
        self.attrs = attrs

    def pvc_getattr(self, I, name):
        if name in self.attrs:
            return self.attrs[name]
        raise Unsupported(f"model of {self.name}.{name} missing")


def B(name):
    def deco(fn):
        return Builtin(name, fn)

    return deco


class Models:
    """Registry; instances may be extended per property (extra opaque models)."""

    def __init__(self):
        self.builtins = {}
        self.modules = {}
        self.froms = {}
        self.instances = []  # hooks for isinstance on opaque values
        self.assumptions = set()
        self._install()

    # ---- registry --------------------------------------------------------
    def builtin(self, name, I):
        if name in self.builtins:
            return self.builtins[name]
        if name in EXC_BASES:
            return ExcClass(name)
        raise Unsupported(f"name {name!r} is not defined / not modelled")

    def module(self, name, I):
        if name in self.modules:
            return self.modules[name]
        raise Unsupported(f"import of unmodelled module {name}")

    def from_import(self, mod, name, I):
        if (mod, name) in self.froms:
            return self.froms[(mod, name)]
        if mod in self.modules and name in self.modules[mod].attrs:
            return self.modules[mod].attrs[name]
        raise Unsupported(f"from {mod} import {name}: not modelled")

    # ---- installation ------------------------------------------------------
    def _install(self):
        b = self.builtins
        T = {n: TypeV(n) for n in ["float", "int", "bool", "str", "dict", "list", "tuple", "set", "object", "type"]}
        self.types = T
        for n, t in T.items():
            b[n] = t
        b["None"] = None
        b["True"] = True
        b["False"] = False
        b["len"] = Builtin("len", self.m_len)
        b["range"] = Builtin("range", self.m_range)
        b["abs"] = Builtin("abs", self.m_abs)
        b["isinstance"] = Builtin("isinstance", self.m_isinstance)
        b["enumerate"] = Builtin("enumerate", self.m_enumerate)
        b["zip"] = Builtin("zip", self.m_zip)
        b["min"] = Builtin("min", lambda I, a, k: self.m_minmax(I, a, k, True))
        b["max"] = Builtin("max", lambda I, a, k: self.m_minmax(I, a, k, False))
        b["print"] = Builtin("print", lambda I, a, k: None)
        b["sorted"] = Builtin("sorted", self.m_sorted)
        b["reversed"] = Builtin("reversed", self.m_reversed)
        b["getattr"] = Builtin("getattr", self.m_getattr)
        b["hasattr"] = Builtin("hasattr", self.m_hasattr)
        b["setattr"] = Builtin("setattr", lambda I, a, k: I.setattr(a[0], self.conc_str(a[1]), a[2]))
        b["iter"] = Builtin("iter", lambda I, a, k: GenV(I.iter_seq(a[0])))
        b["super"] = Builtin("super", self.m_super)
        b["locals"] = Builtin("locals", lambda I, a, k: PyDict({k2: v for k2, v in I.frame.locals.items()}))
        b["any"] = Builtin("any", lambda I, a, k: self.m_anyall(I, a, True))
        b["all"] = Builtin("all", lambda I, a, k: self.m_anyall(I, a, False))
        b["sum"] = Builtin("sum", self.m_sum)
        b["NotImplementedError"] = ExcClass("NotImplementedError")

        self.modules["math"] = ModelModule("math", {"floor": Builtin("floor", self.m_floor), "sqrt": Builtin("sqrt", self.m_sqrt), "isclose": Builtin("isclose", self.m_isclose)})
        # the clock is an input nobody controls: every reading is a fresh, unconstrained real (code whose RESULT depends on it then
        # fails its postcondition on some path instead of falling outside the interpreter)
        clock = lambda nm: Builtin(nm, lambda I, a, k, nm=nm: SReal(I.path.fresh_real(f"clock_{nm}")))
        self.modules["time"] = ModelModule("time", {nm: clock(nm) for nm in ("monotonic", "time", "perf_counter", "process_time")})
        for nm in ("monotonic", "time", "perf_counter", "process_time"):
            self.froms[("time", nm)] = self.modules["time"].attrs[nm]
        self.froms[("math", "isclose")] = self.modules["math"].attrs["isclose"]
        self.froms[("math", "floor")] = self.modules["math"].attrs["floor"]
        self.froms[("math", "sqrt")] = self.modules["math"].attrs["sqrt"]
        self.froms[("collections", "namedtuple")] = Builtin("namedtuple", self.m_namedtuple)
        for n in ["List", "Optional", "Any", "Dict", "Tuple", "Union", "Iterator", "Iterable"]:
            self.froms[("typing", n)] = TypeV("typing." + n)
        self.froms[("__future__", "annotations")] = None
        self.froms[("itertools", "count")] = Builtin("count", lambda I, a, k: _unsup("itertools.count"))
        self.froms[("itertools", "product")] = Builtin("product", lambda I, a, k: ProductV(a[0], a[1]) if len(a) == 2 else _unsup("itertools.product arity"))
        self.froms[("itertools", "chain")] = ChainV()
        self.froms[("dataclasses", "dataclass")] = Builtin("dataclass", lambda I, a, k: a[0] if a else Builtin("dataclass()", lambda I2, a2, k2: a2[0]))
        def asdict(I, args, kw):
            obj = args[0]
            if isinstance(obj, SObj) and isinstance(obj.cls, ClassV):
                out = PyDict()
                for name in dataclass_fields(I, obj.cls):
                    out.d[name] = I.getattr(obj, name)
                return out
            if isinstance(obj, SObj) and "_dataclass_fields" in obj.fields:
                out = PyDict()
                for name in obj.fields["_dataclass_fields"]:
                    out.d[name] = obj.fields[name]
                return out
            raise Unsupported("dataclasses.asdict of a non-dataclass")

        self.modules["dataclasses"] = ModelModule("dataclasses", {"asdict": Builtin("dataclasses.asdict", asdict), "dataclass": self.froms[("dataclasses", "dataclass")]})
        self.froms[("enum", "Enum")] = "Enum"
        self.froms[("enum", "auto")] = Builtin("enum.auto", lambda I, a, k: EnumAuto())

        def signature(I, args, kw):
            f = args[0]
            fn = f.fn if isinstance(f, BoundMethod) else f
            if not isinstance(fn, Closure):
                raise Unsupported("inspect.signature of a non-function")
            return SignatureV(I, fn)

        self.modules["inspect"] = ModelModule("inspect", {"signature": Builtin("inspect.signature", signature)})
        self.modules["abc"] = ModelModule("abc", {"ABC": "ABC"})
        def new_class(I, args, kw):
            import ast as _ast

            from .interp import ClassV

            name = args[0]
            bases = kw.get("bases", args[1] if len(args) > 1 else ())
            node = _ast.ClassDef(name=str(name), bases=[], keywords=[], body=[], decorator_list=[])
            b0 = bases[0]
            return ClassV(str(name), node, b0.module, list(bases), b0.qualname + "/" + str(name), b0.enclosing)

        self.modules["types"] = ModelModule("types", {"new_class": Builtin("types.new_class", new_class)})
        from . import np_model, sympy_model

        np_model.install(self)
        sympy_model.install(self)

    # ---- python builtins ---------------------------------------------------
    def conc_str(self, v):
        if isinstance(v, str):
            return v
        raise Unsupported("symbolic attribute name")

    def m_len(self, I, args, kw):
        (v,) = args
        if hasattr(v, "pvc_len"):
            return v.pvc_len(I)
        if isinstance(v, GenV):
            raise PyRaise("TypeError")
        if isinstance(v, PyList):
            return len(v.items)
        if isinstance(v, PyDict):
            return len(v.d)
        if isinstance(v, (tuple, str, list)):
            return len(v)
        if isinstance(v, SSeq):
            return v.length
        if isinstance(v, SMat):
            return v.rows()
        if isinstance(v, SObj):
            m = I.find_method(v, "__len__")
            if m is not None:
                return I.call(m, [], {})
        raise Unsupported(f"len of {v!r}")

    def m_range(self, I, args, kw):
        if all(isinstance(a, int) for a in args):
            return PyList(list(range(*args)))
        if len(args) == 1:
            n = to_int(args[0])
            n0 = z3.simplify(z3.If(n < 0, z3.IntVal(0), n))
            return SSeq(wrap(n0), lambda i: wrap(i), "range")
        if len(args) == 2:
            lo, hi = to_int(args[0]), to_int(args[1])
            n0 = z3.simplify(z3.If(hi - lo < 0, z3.IntVal(0), hi - lo))
            return SSeq(wrap(n0), lambda i: wrap(i + lo), "range")
        raise Unsupported("range with symbolic step")

    def m_abs(self, I, args, kw):
        (v,) = args
        if isinstance(v, (int, float)) and not isinstance(v, bool):
            return abs(v)
        if isinstance(v, SInt):
            return SInt(z3.If(v.z >= 0, v.z, -v.z))
        if isinstance(v, SReal):
            return SReal(z3.If(v.z >= 0, v.z, -v.z))
        if isinstance(v, SMat):
            return I.models.np_abs(I, v)
        raise Unsupported(f"abs of {v!r}")

    def m_floor(self, I, args, kw):
        (v,) = args
        if isinstance(v, int):
            return v
        x = to_real(v)
        r = floor_f(x)
        # defining property of floor, instantiated at this argument (sound: it is a theorem)
        I.path.assume(z3.And(z3.ToReal(r) <= x, x < z3.ToReal(r) + 1))
        return SInt(r)

    def m_isclose(self, I, args, kw):
        """math.isclose(a, b, *, rel_tol=1e-09, abs_tol=0.0) over the reals: |a - b| <= max(rel_tol * max(|a|, |b|), abs_tol)"""
        if len(args) != 2 or set(kw) - {"rel_tol", "abs_tol"}:
            raise Unsupported("math.isclose call shape")
        a, b = to_real(args[0]), to_real(args[1])
        rel = to_real(kw["rel_tol"]) if "rel_tol" in kw else z3.RealVal("1/1000000000")
        ab = to_real(kw["abs_tol"]) if "abs_tol" in kw else z3.RealVal(0)
        mag = lambda t: z3.If(t >= 0, t, -t)
        big = z3.If(mag(a) >= mag(b), mag(a), mag(b))
        tol = z3.If(rel * big >= ab, rel * big, ab)
        return wrap(mag(a - b) <= tol)

    def m_sqrt(self, I, args, kw):
        (v,) = args
        x = to_real(v)
        I.raise_if(x < 0, "ValueError")
        r = sqrt_f(x)
        I.path.assume(z3.And(r >= 0, r * r == x))
        return SReal(r)

    def m_namedtuple(self, I, args, kw):
        name, fields = args[0], args[1]
        if isinstance(fields, PyList):
            fields = fields.items
        return NTClass(name, list(fields))

    def isinstance_one(self, I, v, t):
        if isinstance(t, TypeV):
            n = t.name
            if n in ("float", "int") and isinstance(v, SNum):
                return wrap(v.class_flag(n))
            if n == "float":
                return isinstance(v, (SReal, float)) and not isinstance(v, bool)
            if n == "int":
                return isinstance(v, (SInt, int))
            if n == "bool":
                return isinstance(v, (SBool, bool))
            if n == "str":
                return isinstance(v, str) or (isinstance(v, SOpaque) and v.kind == "Str")
            if n == "dict":
                return isinstance(v, PyDict) or getattr(v, "pvc_type", None) == "dict"
            if n == "list":
                return isinstance(v, PyList) or getattr(v, "pvc_type", None) == "list" or (isinstance(v, SSeq) and getattr(v, "pvc_type", "list") == "list")
            if n == "tuple":
                return isinstance(v, tuple)
            if n == "set":
                return getattr(v, "pvc_type", None) == "set"
            if n == "object":
                return True
            if t.pred is not None:
                return t.pred(I, v)
            raise Unsupported(f"isinstance(..., {n})")
        if isinstance(t, ClassV):
            if isinstance(v, SObj):
                if isinstance(v.cls, ClassV):
                    return v.cls.is_subclass_of(t)
                return v.cls == t.name
            if hasattr(v, "pvc_isinstance"):
                return v.pvc_isinstance(I, t)
            return False
        if isinstance(t, NTClass):
            return isinstance(v, NTInst) and v.ntc is t
        if hasattr(t, "pvc_instancecheck"):
            return t.pvc_instancecheck(I, v)
        raise Unsupported(f"isinstance(..., {t!r})")

    def m_isinstance(self, I, args, kw):
        v, t = args
        ts = t if isinstance(t, tuple) else (t,)
        res = False
        for x in ts:
            r = self.isinstance_one(I, v, x)
            if r is True:
                return True
            if r is not False:
                res = r if res is False else wrap(z3.Or(to_bool(res), to_bool(r)))
        return res

    def m_enumerate(self, I, args, kw):
        s = I.iter_seq(args[0])
        if isinstance(s, PyList):
            return PyList([(i, x) for i, x in enumerate(s.items)])
        return SSeq(s.length, lambda i: (wrap(i), s.at(i)), f"enumerate({s.desc})")

    def m_zip(self, I, args, kw):
        seqs = [I.iter_seq(a) for a in args]
        if all(isinstance(s, PyList) for s in seqs):
            return PyList([tuple(t) for t in zip(*[s.items for s in seqs])])
        seqs = [as_seq2(s) for s in seqs]
        n = seqs[0].len_z()
        for s in seqs[1:]:
            l2 = s.len_z()
            n = z3.If(l2 < n, l2, n)
        n = z3.simplify(n)
        return SSeq(wrap(n), lambda i: tuple(s.at(i) for s in seqs), "zip")

    def m_minmax(self, I, args, kw, is_min):
        if len(args) == 1:
            s = I.iter_seq(args[0])
            if not isinstance(s, PyList):
                raise Unsupported("min/max over symbolic sequence")
            args = s.items
        if not args:
            raise PyRaise("ValueError")
        cur = args[0]
        for x in args[1:]:
            if not (is_numeric(cur) and is_numeric(x)):
                raise Unsupported("min/max on non-numeric")
            if not isinstance(cur, SV) and not isinstance(x, SV):
                cur = min(cur, x) if is_min else max(cur, x)
                continue
            if is_intlike(cur) and is_intlike(x):
                a, b = to_int(cur), to_int(x)
                cur = SInt(z3.If(b < a, b, a) if is_min else z3.If(b > a, b, a))
            else:
                a, b = to_real(cur), to_real(x)
                # python keeps the first argument on ties
                cur = SReal(z3.If(b < a, b, a) if is_min else z3.If(b > a, b, a))
        return cur

    def m_sorted(self, I, args, kw):
        if type(args[0]).__name__ == "OpaqueMsg":
            return args[0]
        s = I.iter_seq(args[0])
        key = kw.get("key")
        rev = kw.get("reverse", False)
        key = self.normalise_sort_key(I, args[0], s, key)
        if hasattr(args[0], "pvc_sorted"):
            return args[0].pvc_sorted(I, key, rev)
        if hasattr(s, "pvc_sorted"):
            return s.pvc_sorted(I, key, rev)
        if isinstance(s, PyList):
            items = s.items
            keys = [I.call(key, [x], {}) if key is not None else x for x in items]
            if all(isinstance(k, (int, str)) for k in keys) or all(isinstance(k, tuple) and all(isinstance(e, (int, str)) for e in k) for k in keys):
                order = sorted(range(len(items)), key=lambda i: keys[i], reverse=bool(rev))
                return PyList([items[i] for i in order])
            if len(items) <= 1:
                return PyList(list(items))
            srt = self.solver_sort(I, items, keys, rev)
            if srt is not None:
                return PyList(srt)
        r = self.sort_by_enumerated_key(I, s, key, rev)
        if r is not None:
            return r
        # not modelled: the result may be stored but any inspection of it is unsupported
        return LazyUnsupported(f"sorted over {type(args[0]).__name__}")

    def normalise_sort_key(self, I, src, s, key):
        """`key=str` and `key=lambda item: str(item[0])` on STRING keys (or tuples led by pairwise distinct string keys) sort exactly like
        no key at all: str(x) is x for a str, and a tie never reaches the later tuple components.  Such a key is dropped, so that the
        keyed and the key-less spelling of the same sort are one construct for the contracts."""
        import ast as _ast

        from .symtheory import StrV

        if key is None:
            return None
        is_str = isinstance(key, TypeV) and key.name == "str"
        lead_str = False
        node = getattr(key, "node", None)
        if isinstance(node, _ast.Lambda) and len(node.args.args) == 1:
            a = node.args.args[0].arg
            b = node.body
            lead_str = isinstance(b, _ast.Call) and isinstance(b.func, _ast.Name) and b.func.id == "str" and len(b.args) == 1 and isinstance(b.args[0], _ast.Subscript) and isinstance(b.args[0].value, _ast.Name) and b.args[0].value.id == a and isinstance(b.args[0].slice, _ast.Constant) and b.args[0].slice.value == 0
        if not (is_str or lead_str):
            return key

        def is_string(v):
            return isinstance(v, (str, StrV))

        sample = None
        try:
            if isinstance(s, PyList):
                sample = s.items[0] if s.items else "-"
            elif isinstance(s, SSeq):
                sample = s.at(z3.Int(I.path.names.fresh("sort_key_probe")))
        except Exception:
            sample = None
        if sample is None:
            # dict views of string-keyed symbolic dicts: the view knows its key sort
            d = getattr(src, "d", None) or getattr(getattr(src, "src", None), "d", None)
            ks = getattr(d, "key_sort", None) or getattr(d, "ksort", None)
            from .symtheory import Str as _Str

            return None if ks is not None and ks == _Str else key
        if is_str and is_string(sample):
            return None
        if lead_str and isinstance(sample, tuple) and sample and is_string(sample[0]):
            return None
        return key

    def sort_by_enumerated_key(self, I, s, key, rev):
        """sorted() of a symbolic-length sequence whose element i is a string key kkey(i) of a dict (insertion-order enumeration of
        pairwise distinct keys), or a tuple led by it, and depends on i only through that key: the result enumerates the same
        elements along the dict's key-sorted enumeration (ties never reach the later tuple components: keys are distinct)."""
        from .orderfree import TOKEN
        from .symtheory import StrV

        if not isinstance(s, SSeq) or key is not None or rev or isinstance(s.length, int):
            return None
        c = z3.Int(I.path.names.fresh("sort_probe"))
        try:
            el = s.at(c)
        except Exception:
            return None
        lead = el[0] if isinstance(el, tuple) and el else el
        if not isinstance(lead, StrV) or not z3.is_app(lead.z) or lead.z.num_args() != 1 or not z3.eq(lead.z.arg(0), c):
            return None
        fn = lead.z.decl()
        reg = I.path.ghost.get("order_enums", {})
        if not TOKEN.match(fn.name()) or fn.name() not in reg:
            return None
        skey = reg[fn.name()](I.path)
        probe_id = c.get_id()

        def mentions_probe(v):
            found = []

            def walk(t):
                stack, seen = [t], set()
                while stack:
                    e = stack.pop()
                    if e.get_id() in seen:
                        continue
                    seen.add(e.get_id())
                    if e.get_id() == probe_id:
                        found.append(1)
                        return
                    if z3.is_quantifier(e):
                        stack.append(e.body())
                    elif z3.is_app(e):
                        stack.extend(e.children())

            def vals(x):
                if z3.is_expr(x):
                    walk(x)
                elif isinstance(x, (tuple, list)):
                    for y in x:
                        vals(y)
                else:
                    for attr in ("z", "k", "term"):
                        t = getattr(x, attr, None)
                        if z3.is_expr(t):
                            walk(t)

            vals(v)
            return bool(found)

        j0 = z3.Int(I.path.names.fresh("sort_j"))
        if mentions_probe(subst(el, [(fn(c), skey(j0))])):
            return None  # the element depends on the position itself, not only on the key
        out = SSeq(s.length, lambda j: subst(el, [(fn(c), skey(to_int(j)))]), f"sorted({s.desc})")
        out.pvc_type = "list"
        return out

    def solver_sort(self, I, items, keys, rev):
        """Sort a concrete-length list whose keys are opaque strings (or tuples led by one) when the path condition fixes their order."""
        from . import smt
        from .symtheory import StrV, ord_f

        def lead(k):
            if isinstance(k, StrV):
                return k
            if isinstance(k, tuple) and k and isinstance(k[0], StrV):
                return k[0]
            return None

        leads = [lead(k) for k in keys]
        if any(l is None for l in leads):
            return None
        order = list(range(len(items)))
        hyps = I.path.hyps()

        def less(a, b):
            c = ord_f(leads[a].z) < ord_f(leads[b].z)
            if not smt.feasible(hyps + [z3.Not(c)]):
                return True
            if not smt.feasible(hyps + [c]):
                return False
            raise Unsupported("order of string keys is not determined by the path condition")

        import functools

        order.sort(key=functools.cmp_to_key(lambda a, b: -1 if less(a, b) else 1))
        if rev:
            order.reverse()
        return [items[i] for i in order]

    def m_reversed(self, I, args, kw):
        s = I.iter_seq(args[0])
        if isinstance(s, PyList):
            return PyList(list(reversed(s.items)))
        n = s.len_z()
        return SSeq(s.length, lambda i: s.at(n - 1 - i), "reversed")

    def m_getattr(self, I, args, kw):
        name = self.conc_str(args[1])
        if len(args) == 3:
            try:
                return I.getattr(args[0], name)
            except Unsupported:
                return args[2]
        return I.getattr(args[0], name)

    def m_hasattr(self, I, args, kw):
        name = self.conc_str(args[1])
        try:
            I.getattr(args[0], name)
            return True
        except Unsupported:
            return False

    def m_super(self, I, args, kw):
        # zero-argument super(): find enclosing method's class and self
        f = I.frame
        while f is not None and (f.closure is None or f.closure.cls is None):
            f = f.enclosing
        if f is None:
            raise Unsupported("super() outside method")
        cls = f.closure.cls
        params = f.closure.node.args.args
        self_ = f.locals[params[0].arg]
        return SuperProxy(cls, self_)

    def m_anyall(self, I, args, is_any):
        s = I.iter_seq(args[0])
        if isinstance(s, PyList):
            acc = []
            for x in s.items:
                t = I.truth(x)
                if isinstance(t, bool):
                    if t == is_any:
                        return is_any
                else:
                    acc.append(t)
            if not acc:
                return not is_any
            return wrap(z3.Or(*acc) if is_any else z3.And(*acc))
        raise Unsupported("any/all over symbolic sequence")

    def m_sum(self, I, args, kw):
        s = I.iter_seq(args[0])
        if isinstance(s, PyList):
            acc = args[1] if len(args) > 1 else 0
            for x in s.items:
                acc = I.binop(ast.Add(), acc, x)
            return acc
        raise Unsupported("sum over symbolic sequence")

    def type_call(self, I, t, args, kw):
        n = t.name
        if n == "float":
            (v,) = args
            if isinstance(v, SMat):
                return I.models.np_float(I, v)
            if is_numeric(v):
                return SReal(to_real(v)) if isinstance(v, SV) else float(v)
            raise Unsupported(f"float({v!r})")
        if n == "int":
            (v,) = args
            if is_intlike(v):
                return v
            raise Unsupported(f"int({v!r})")
        if n == "list":
            if not args:
                return PyList([])
            v = args[0]
            if hasattr(v, "pvc_list"):
                return v.pvc_list(I)
            s = I.iter_seq(v)
            if isinstance(s, PyList):
                return PyList(list(s.items))
            return s  # list(seq) of a symbolic sequence: same enumeration (a copy)
        if n == "tuple":
            s = I.iter_seq(args[0]) if args else PyList([])
            if isinstance(s, PyList):
                return tuple(s.items)
            raise Unsupported("tuple() of symbolic sequence")
        if n == "dict":
            if not args:
                return PyDict(dict(kw))
            v = args[0]
            if isinstance(v, PyDict):
                return PyDict(dict(v.d))
            if hasattr(v, "pvc_dict_copy"):
                return v.pvc_dict_copy(I)
            s = I.iter_seq(v)
            return self.dict_from_pairs(I, s)
        if n == "set":
            if not args:
                return self.make_set(I, [])
            v = args[0]
            if hasattr(v, "pvc_set"):
                return v.pvc_set(I)
            s = I.iter_seq(v)
            return self.make_set(I, s)
        if n == "str":
            (v,) = args
            return self.to_str(I, v)
        if n == "bool":
            t2 = I.truth(args[0])
            return t2 if isinstance(t2, bool) else wrap(t2)
        if n == "type":
            (v,) = args
            if isinstance(v, SObj):
                return v.cls
            return TypeV(type(v).__name__)
        raise Unsupported(f"call of type {n}")

    # ---- strings -----------------------------------------------------------
    def to_str(self, I, v):
        if isinstance(v, str):
            return v
        if isinstance(v, int) and not isinstance(v, bool):
            return str(v)
        if hasattr(v, "pvc_str"):
            return v.pvc_str(I)
        raise Unsupported(f"str({v!r})")

    def fmt(self, I, parts):
        if all(isinstance(p, (str, int)) and not isinstance(p, bool) for p in parts):
            return "".join(str(p) for p in parts)
        return FmtV(tuple(parts))

    def str_eq(self, I, a, b):
        if hasattr(self, "str_eq_hook"):
            return self.str_eq_hook(I, a, b)
        raise Unsupported(f"string equality {a!r} == {b!r}")

    def str_method(self, I, s, name):
        if name == "format":
            return Builtin("str.format", lambda I, a, k: self.m_format(I, s, a, k))
        if name in ("upper", "title", "lower", "ljust", "rjust", "join", "split"):
            def f(I, a, k, name=name):
                conc = [x.items if isinstance(x, PyList) else x for x in a]
                if all(isinstance(x, (str, int, list)) for x in conc) and all(not isinstance(x, list) or all(isinstance(e, str) for e in x) for x in conc):
                    return getattr(s, name)(*conc)
                if name == "join":
                    if type(a[0]).__name__ == "OpaqueMsg":
                        return FmtV(("join", s, "<message>"))
                    seq = I.iter_seq(a[0])
                    if isinstance(seq, PyList):
                        return FmtV(("join", s, tuple(seq.items)))
                    r = FmtV(("join", s, "<symbolic sequence>"))
                    r.joined_seq = seq  # kept for contracts that state what is joined (not part of structural equality)
                    return r
                raise Unsupported(f"str.{name} on symbolic arguments")
            return Builtin("str." + name, f)
        if not hasattr("", name):
            raise PyRaise("AttributeError")  # a str has no such attribute
        raise Unsupported(f"str.{name}")

    def m_format(self, I, s, args, kw):
        if all(isinstance(a, (str, int)) for a in args) and not kw:
            return s.format(*args)
        if isinstance(s, str) and not kw:
            # "a{}b{}".format(x, y) and f"a{x}b{y}" are the same string: one structural form for both
            import string

            try:
                fields = list(string.Formatter().parse(s))
            except ValueError:
                fields = None
            if fields is not None and all(spec in ("", None) and conv is None for _, _, spec, conv in fields):
                names = [name for _, name, _, _ in fields if name is not None]
                auto = all(n == "" for n in names)
                numbered = all(n.isdigit() for n in names)
                if (auto and len(names) == len(args)) or (numbered and names and all(int(n) < len(args) for n in names)):
                    parts, k = [], 0
                    for lit, name, _, _ in fields:
                        if lit:
                            parts.append(lit)
                        if name is not None:
                            parts.append(args[k] if auto else args[int(name)])
                            k += 1
                    return self.fmt(I, parts)
        return FmtV(("format", s) + tuple(args))

    def seq_contains(self, I, seq, item):
        """`item in seq` over a symbolic-length sequence: existential over the index."""
        j = I.path.fresh_int("m")
        n = seq.len_z()
        r = I.equals(seq.at(j), item)
        body = z3.And(j >= 0, j < n, to_bool(r) if not isinstance(r, bool) else z3.BoolVal(r))
        return wrap(z3.Exists([j], body))

    def seq_method(self, I, seq, name):
        if name in ("extend", "append"):

            def f(I2, args, kw):
                if I2.merge_depth:
                    raise Unsupported(f"list.{name} of a symbolic list inside a summarised loop")
                if name == "append":
                    tail = SSeq.from_list([args[0]])
                else:
                    t = I2.iter_seq(args[0])
                    tail = as_seq2(t)
                new = seq.concat(tail)
                new.pvc_type = "list"
                I2.replace_object(seq, new)
                return None

            return Builtin(f"list.{name}", f)
        if name == "index":
            raise Unsupported("list.index on a symbolic list")
        raise Unsupported(f"sequence method {name}")

    def opaque_getattr(self, I, obj, name):
        if hasattr(self, "opaque_getattr_hook"):
            r = self.opaque_getattr_hook(I, obj, name)
            if r is not NotImplemented:
                return r
        raise Unsupported(f"attribute {name} of opaque {obj!r}")

    def make_set(self, I, items):
        if hasattr(self, "make_set_hook"):
            return self.make_set_hook(I, items)
        if isinstance(items, PyList):
            items = items.items
        if isinstance(items, (list, tuple)):
            return ConcreteSet(list(items))
        raise Unsupported("set construction")

    def dict_from_pairs(self, I, pairs):
        if type(pairs).__name__ == "SymComp":
            from .sympy_model import renaming_from_pairs

            return renaming_from_pairs(I, pairs)
        if isinstance(pairs, PyList):
            d = PyDict()
            for k, v in pairs.items:
                d.set(I, k, v)
            return d
        if isinstance(pairs, SSeq):
            from .symtheory import SeqDict

            probe = pairs.at(z3.Int("probe!"))
            if isinstance(probe, tuple) and len(probe) == 2 and isinstance(probe[0], SOpaque) and isinstance(probe[1], (SReal, SOpaque)):
                ksort = probe[0].z.sort()
                vsort = probe[1].z.sort()
                n = pairs.len_z()
                key_at = lambda i: pairs.at(i)[0].z
                val_at = lambda i: pairs.at(i)[1].z
                # premise of the keyed view: keys pairwise distinct (else later entries win) - made an obligation
                a, b = I.path.fresh_int("ka"), I.path.fresh_int("kb")
                I.path.oblige(f"{I.path.ghost.get('site', 'dict')}.dict_keys_distinct", z3.Implies(z3.And(a >= 0, a < n, b >= 0, b < n, a != b), key_at(a) != key_at(b)))
                return SeqDict(I.path, "sd", n, key_at, val_at, ksort, vsort)
        raise Unsupported("dict from symbolic sequence of pairs")

    def floordiv(self, I, a, b):
        # python floor division for b > 0 coincides with SMT-LIB div; general case via floor of the quotient
        q = I.path.fresh_int("q")
        I.path.assume(z3.If(b > 0, z3.And(q * b <= a, a < (q + 1) * b), z3.And(q * b >= a, a > (q + 1) * b)))
        return SInt(q)

    def pymod(self, I, a, b):
        q = self.floordiv(I, a, b)
        return SInt(a - q.z * b)


class EnumAuto:
    pass


class EnumMember:
    def __init__(self, cls, name, value):
        self.cls, self.name, self.value = cls, name, value

    def pvc_isinstance(self, I, t):
        return t is self.cls

    def pvc_eq(self, I, other):
        if isinstance(other, EnumMember):
            return other is self
        return False

    def pvc_getattr(self, I, attr):
        if attr == "name":
            return self.name
        if attr == "value":
            return self.value
        return NotImplemented

    def __repr__(self):
        return f"{self.cls.name}.{self.name}"


class SignatureV:
    def __init__(self, I, fn):
        self.I, self.fn = I, fn

    def pvc_getattr(self, I, attr):
        if attr == "return_annotation":
            r = self.fn.node.returns
            if r is None:
                raise Unsupported("function without return annotation")
            return I.eval_in(r, self.fn.module, self.fn.enclosing)
        return NotImplemented


def dataclass_fields(I, cls):
    """Annotated class attributes of a @dataclass class (own + inherited), in definition order."""
    import ast as _ast

    out = []
    for b in cls.bases:
        if isinstance(b, ClassV):
            out += [f for f in dataclass_fields(I, b) if f not in out]
    for st in cls.node.body:
        if isinstance(st, _ast.AnnAssign) and isinstance(st.target, _ast.Name):
            if st.target.id not in out:
                out.append(st.target.id)
    return out


class LazyUnsupported:
    """Result of an unmodelled pure operation: it may be stored and passed around; any use raises Unsupported."""

    def __init__(self, why):
        self.why = why

    def _no(self, *a, **k):
        raise Unsupported(self.why)

    pvc_getattr = pvc_getitem = pvc_iter = pvc_len = pvc_truth = pvc_call = pvc_list = pvc_eq = pvc_contains = _no


class ProductV:
    """itertools.product(A, B) of two symbol containers; only the idiom `[(x, y) for x, y in product(A, B) if x != y]` is modelled."""

    def __init__(self, a, b):
        self.a, self.b = a, b

    def pvc_comprehension(self, I, gen, elt_thunk):
        import ast as _ast

        ok = isinstance(gen.target, _ast.Tuple) and len(gen.target.elts) == 2 and len(gen.ifs) <= 1
        if not ok:
            raise Unsupported("comprehension over product()")
        distinct = False
        if gen.ifs:
            t = gen.ifs[0]
            names = [e.id for e in gen.target.elts if isinstance(e, _ast.Name)]
            if isinstance(t, _ast.Compare) and len(t.ops) == 1 and isinstance(t.ops[0], _ast.NotEq) and isinstance(t.left, _ast.Name) and isinstance(t.comparators[0], _ast.Name) and {t.left.id, t.comparators[0].id} == set(names):
                distinct = True
            else:
                raise Unsupported("filter over product() other than x != y")
        return PairSeqV(self.a, self.b, distinct)


class PairSeqV:
    """[(x, y) for x in A for y in B (if x != y)]"""

    pvc_type = "list"

    def __init__(self, a, b, distinct):
        self.a, self.b, self.distinct = a, b, distinct

    def pvc_binop(self, I, op, other, swapped):
        import ast as _ast

        if isinstance(op, _ast.Add):
            return HeteroSeqV([other, self] if swapped else [self, other])
        return NotImplemented


class HeteroSeqV:
    """Concatenation of sequences of different element kinds (symbols, pairs)."""

    pvc_type = "list"

    def __init__(self, parts):
        self.parts = parts

    def pvc_set(self, I):
        return HeteroSetV(self.parts)


class HeteroSetV:
    pvc_type = "set"

    def __init__(self, parts):
        self.parts = parts

    def pvc_comprehension(self, I, gen, elt_thunk):
        from .symtheory import OpaqueMsg

        return OpaqueMsg()  # only ever rendered into an error message

    def pvc_contains(self, I, x):
        from .symtheory import SymV, set_membership

        res = []
        for part in self.parts:
            if isinstance(part, PairSeqV):
                if isinstance(x, tuple) and len(x) == 2 and all(isinstance(e, SymV) for e in x):
                    ma, mb = set_membership(getattr(part.a, "set", part.a)), set_membership(getattr(part.b, "set", part.b))
                    if ma is None or mb is None:
                        raise Unsupported("pair membership")
                    c = z3.And(ma(x[0].z), mb(x[1].z))
                    if part.distinct:
                        c = z3.And(c, x[0].z != x[1].z)
                    res.append(c)
                continue
            src = getattr(part, "set", part)
            m = set_membership(src)
            if m is None:
                raise Unsupported(f"membership in {part!r}")
            if isinstance(x, SymV):
                res.append(m(x.z))
        if not res:
            return False
        return wrap(z3.Or(*res))


class ConcreteSet:
    """Python set with a concrete number of elements, compared by identity / python equality."""

    pvc_type = "set"

    def __init__(self, items):
        self.items = []
        for x in items:
            if not any(x is y or (not isinstance(x, SV) and not isinstance(y, SV) and x == y) for y in self.items):
                self.items.append(x)

    def _has(self, x):
        return any(x is y or (not isinstance(x, SV) and not isinstance(y, SV) and x == y) for y in self.items)

    def pvc_eq(self, I, other):
        if isinstance(other, ConcreteSet):
            return len(self.items) == len(other.items) and all(other._has(x) for x in self.items)
        return NotImplemented

    def pvc_contains(self, I, x):
        return self._has(x)

    def pvc_len(self, I):
        return len(self.items)

    def pvc_iter(self, I):
        return PyList(list(self.items))


class SuperProxy:
    def __init__(self, cls, self_):
        self.cls = cls
        self.self_ = self_

    def pvc_getattr(self, I, name):
        for b in self.cls.bases:
            if isinstance(b, ClassV):
                m = b.lookup(name)
                if isinstance(m, Closure):
                    return BoundMethod(self.self_, m)
        if name == "__init__":
            return Builtin("object.__init__", lambda I, a, k: None)
        raise Unsupported(f"super().{name}")


class ChainV:
    """itertools.chain: only chain.from_iterable(sequence of fixed-length tuples) is modelled: the flattening is the two-level
    sequence cell(i, j) = element_i[j] (row-major), no div/mod reasoning."""

    def pvc_getattr(self, I, name):
        if name != "from_iterable":
            raise Unsupported(f"itertools.chain.{name}")

        def m(I2, a, k):
            from .interp import Flat2Seq

            seq = I2.iter_seq(a[0])
            if isinstance(seq, PyList):
                out = []
                for it in seq.items:
                    inner = I2.iter_seq(it)
                    if not isinstance(inner, PyList):
                        raise Unsupported("chain.from_iterable over symbolic inner sequences")
                    out += inner.items
                return PyList(out)
            probe = z3.Int(I2.path.names.fresh("chain_probe"))
            el = seq.at(probe)
            if not isinstance(el, tuple):
                raise Unsupported("chain.from_iterable over non-tuple elements")
            width = len(el)

            def cell(i, j, seq=seq):
                e = seq.at(to_int(i))
                if isinstance(j, int):
                    return e[j]
                jz = z3.simplify(to_int(j))
                if z3.is_int_value(jz):
                    return e[jz.as_long()]
                raise Unsupported("symbolic column of a chained tuple sequence")

            return Flat2Seq(seq.len_z(), z3.IntVal(width), cell)

        return Builtin("chain.from_iterable", m)

    def pvc_call(self, I, args, kw):
        raise Unsupported("itertools.chain(...)")


class FmtV:
    """Structured string (f-string / format result with symbolic holes): compared structurally."""

    def __init__(self, parts):
        self.parts = parts

    def pvc_eq(self, I, other):
        if isinstance(other, FmtV):
            return I.equals(self.parts, other.parts)
        return NotImplemented

    def pvc_subst(self, pairs):
        return FmtV(subst(self.parts, pairs))

    def pvc_binop(self, I, op, other, swapped):
        return FmtV(("binop", type(op).__name__, other, self) if swapped else ("binop", type(op).__name__, self, other))

    def pvc_truth(self, I):
        return True

    def __repr__(self):
        return f"Fmt{self.parts!r}"


def _unsup(msg):
    raise Unsupported(msg)
