"""numpy model (assumed contract D-np): 2-d float arrays as SMat.

Shapes are tracked explicitly; element laws of +, -, * follow numpy
broadcasting (decided by path branching on the symbolic shapes); matmul and
inv are uninterpreted (mm, inv) with shape rules; transpose is transparent.
Under numpy >= 1.25 semantics `truth value of an array with more than one
element` raises ValueError; a size-1 array used as a scalar denotes its
element (A-NP1: the repository pins numpy 1.23).
"""
from __future__ import annotations

import ast

import z3

from .interp import Builtin, PyList, SliceV
from .sym import (
    Mat,
    PyRaise,
    SBool,
    SInt,
    SMat,
    SReal,
    SSeq,
    SV,
    Unsupported,
    is_intlike,
    is_numeric,
    mat_add,
    mat_cols,
    mat_el,
    mat_emul,
    mat_eye,
    mat_inv,
    mat_mm,
    mm,
    mat_rows,
    mat_sub,
    mat_T,
    mat_zeros,
    subst,
    to_bool,
    to_int,
    to_real,
    wrap,
)

lam_min = z3.Function("lam_min", Mat, z3.RealSort())  # smallest eigenvalue (real part) of a matrix
is_sym_close = z3.Function("allclose_T", Mat, z3.BoolSort())  # np.allclose(C, C.T)
neg_f = z3.Function("neg", Mat, Mat)
scale_f = z3.Function("scale", z3.RealSort(), Mat, Mat)


class SBoolArr(SV):
    def __init__(self, shape, cells):
        self.shape = shape
        self.cells = cells


class EigVals(SV):
    def __init__(self, mat):
        self.mat = mat

    def pvc_compare(self, I, op, other, swapped):
        if swapped or not is_numeric(other):
            return NotImplemented
        return EigCmp(self.mat, type(op), other)


class EigCmp(SV):
    def __init__(self, mat, op, bound):
        self.mat, self.op, self.bound = mat, op, bound


class EigAbs(SV):
    """np.abs(eigenvalues of mat)."""

    def __init__(self, mat):
        self.mat = mat


norm2 = z3.Function("norm2", Mat, z3.RealSort())  # spectral radius = 2-norm for symmetric matrices
max_abs = z3.Function("max_abs_entry", Mat, z3.RealSort())  # max |C[i,j]|  (0 for an empty matrix)
asym = z3.Function("max_asymmetry", Mat, z3.RealSort())  # max |C[i,j] - C[j,i]|
RTOL_DEFAULT, ATOL_DEFAULT = z3.RealVal("1/100000"), z3.RealVal("1/100000000")


class AbsMat(SV):
    """np.abs(matrix): only its maximum is modelled."""

    def __init__(self, mat):
        self.mat = mat


def entry_axioms(t):
    """D-entry: 0 <= max|C - C^T| <= 2 max|C|."""
    return z3.And(max_abs(t) >= 0, asym(t) >= 0, asym(t) <= 2 * max_abs(t))


def allclose_T(t, rtol, atol):
    """D-allclose for np.allclose(C, C.T, rtol, atol) = all |C_ij - C_ji| <= atol + rtol |C_ji| (C finite):
    a fresh Boolean b with   max_asym <= atol  =>  b   and   b  =>  max_asym <= atol + rtol * max_abs."""
    return (asym(t) <= atol, asym(t) <= atol + rtol * max_abs(t))


def eig_axioms(t):
    """D-eig: |lam_min| <= max |lambda| = norm2 >= 0."""
    lm, nr = lam_min(t), norm2(t)
    return z3.And(nr >= 0, lm <= nr, -lm <= nr)


def shape_eq(a, b):
    return z3.And(to_int(a[0]) == to_int(b[0]), to_int(a[1]) == to_int(b[1]))


def install(M):
    from .models import ModelModule, TypeV

    def np_zeros(I, args, kw):
        shp = args[0]
        if not (isinstance(shp, tuple) and len(shp) == 2):
            raise Unsupported("np.zeros of non-2d shape")
        r, c = shp
        name = I.path.names.fresh("Z")
        return SMat(z3.Const(name, Mat), cells=lambda i, j: z3.RealVal(0), shape=(r, c), ident=object())

    def np_eye(I, args, kw):
        n = args[0]
        name = I.path.names.fresh("E")
        return SMat(z3.Const(name, Mat), cells=lambda i, j: z3.If(i == j, z3.RealVal(1), z3.RealVal(0)), shape=(n, n), ident=object())

    def need_mat(v):
        if isinstance(v, SMat):
            return v
        raise Unsupported(f"expected ndarray, got {v!r}")

    def np_matmul(I, args, kw):
        a, b = need_mat(args[0]), need_mat(args[1])
        I.raise_if(to_int(a.cols()) != to_int(b.rows()), "ValueError")
        return SMat(mm(a.term, b.term), shape=(a.rows(), b.cols()), ident=object())

    def transpose(I, a):
        a = need_mat(a)
        return SMat(mat_T(a.term), cells=lambda i, j: a.el(j, i), shape=(a.cols(), a.rows()), ident=object())

    def np_inv(I, args, kw):
        a = need_mat(args[0])
        I.raise_if(to_int(a.rows()) != to_int(a.cols()), "LinAlgError")
        # singular matrices raise LinAlgError: singularity is not modelled; contracts state invertibility as a premise
        return SMat(mat_inv(a.term), shape=(a.rows(), a.cols()), ident=object())

    def np_eig(I, args, kw):
        a = need_mat(args[0])
        return (EigVals(a), SMat(z3.Const(I.path.names.fresh("eigvec"), Mat), shape=(a.rows(), a.cols())))

    def np_allclose(I, args, kw):
        a, b = args[0], args[1]
        if isinstance(a, SMat) and isinstance(b, SMat) and z3.eq(b.term, mat_T(a.term)) and len(args) == 2 and not (set(kw) - {"rtol", "atol"}):
            rtol = to_real(kw["rtol"]) if "rtol" in kw else RTOL_DEFAULT
            atol = to_real(kw["atol"]) if "atol" in kw else ATOL_DEFAULT
            P = I.path
            t = a.term
            P.define(entry_axioms(t), "D-entry: 0 <= max|C - C^T| <= 2 max|C|")
            suff, nec = allclose_T(t, rtol, atol)
            res = z3.Const(P.names.fresh("allclose_T"), z3.BoolSort())
            P.define(z3.And(z3.Implies(suff, res), z3.Implies(res, nec)), "D-allclose: np.allclose(C, C.T, rtol, atol) in terms of max|C - C^T| and max|C|")
            P.ghost.setdefault("allclose_results", []).append((t, res))
            return wrap(res)
        raise Unsupported("np.allclose on general arguments")

    def np_any(I, args, kw):
        v = args[0]
        if isinstance(v, EigCmp):
            lm = lam_min(v.mat.term)
            if v.op is ast.Lt:
                return wrap(lm < to_real(v.bound))
            if v.op is ast.LtE:
                return wrap(lm <= to_real(v.bound))
            raise Unsupported("np.any(eigenvalues > x)")
        if isinstance(v, SBoolArr):
            i = I.path.fresh_int("ai")
            j = I.path.fresh_int("aj")
            return wrap(z3.Exists([i, j], z3.And(i >= 0, i < to_int(v.shape[0]), j >= 0, j < to_int(v.shape[1]), v.cells(i, j))))
        if isinstance(v, (bool, SBool)):
            return v
        raise Unsupported(f"np.any({v!r})")

    def np_abs(I, args, kw):
        v = args[0]
        if isinstance(v, EigVals):
            return EigAbs(v.mat)
        if isinstance(v, SMat):
            return AbsMat(v)
        if is_numeric(v):
            return I.models.m_abs(I, [v], {})
        raise Unsupported(f"np.abs({v!r})")

    def np_max(I, args, kw):
        v = args[0]
        if isinstance(v, EigAbs):
            t = v.mat.term
            I.path.define(eig_axioms(t), "D-eig: spectrum bounds (|lam_min| <= norm2, norm2 >= 0)")
            # `initial=0.0` only matters for an empty spectrum (0x0 matrix), where norm2 = 0 as well
            return SReal(norm2(t))
        if isinstance(v, AbsMat):
            # (`initial=0.0` only matters for an empty matrix, where max_abs_entry = 0 as well)
            I.path.define(entry_axioms(v.mat.term), "D-entry: 0 <= max|C - C^T| <= 2 max|C|")
            return SReal(max_abs(v.mat.term))
        raise Unsupported(f"np.max({v!r})")

    def np_array(I, args, kw):
        v = args[0]
        if isinstance(v, PyList) and len(v.items) == 1 and isinstance(v.items[0], (SSeq, PyList)):
            row = v.items[0]
            from .interp import as_seq2

            row = as_seq2(row)
            return SMat(z3.Const(I.path.names.fresh("arr"), Mat), cells=lambda i, j: to_real(row.at(j)), shape=(1, row.length), ident=object())
        raise Unsupported(f"np.array({v!r})")

    def np_diag(I, args, kw):
        v = args[0]
        if isinstance(v, SMat):
            raise Unsupported("np.diag of a matrix")
        from .interp import as_seq2

        row = as_seq2(I.iter_seq(v)) if not isinstance(v, SSeq) else v
        n = row.length
        return SMat(z3.Const(I.path.names.fresh("diag"), Mat), cells=lambda i, j: z3.If(i == j, to_real(row.at(i)), z3.RealVal(0)), shape=(n, n), ident=object())

    np_attrs = {
        "diag": Builtin("np.diag", np_diag),
        "array": Builtin("np.array", np_array),
        "abs": Builtin("np.abs", np_abs),
        # np.sqrt of a scalar is the correctly rounded IEEE square root, like math.sqrt (arrays: not modelled)
        "sqrt": Builtin("np.sqrt", lambda I, a, k: M.m_sqrt(I, a, k) if is_numeric(a[0]) else (_ for _ in ()).throw(Unsupported("np.sqrt of a non-scalar"))),
        "max": Builtin("np.max", np_max),
        "zeros": Builtin("np.zeros", np_zeros),
        "eye": Builtin("np.eye", np_eye),
        "matmul": Builtin("np.matmul", np_matmul),
        "transpose": Builtin("np.transpose", lambda I, a, k: transpose(I, a[0])),
        "allclose": Builtin("np.allclose", np_allclose),
        "any": Builtin("np.any", np_any),
        "ndarray": TypeV("ndarray", lambda I, v: isinstance(v, SMat)),
        "linalg": ModelModule("numpy.linalg", {"inv": Builtin("np.linalg.inv", np_inv), "eig": Builtin("np.linalg.eig", np_eig)}),
    }
    M.modules["numpy"] = ModelModule("numpy", np_attrs)
    M.froms[("numpy.typing", "NDArray")] = TypeV("NDArray")

    # ---- SMat protocol -----------------------------------------------------
    def mat_getattr(I, m, name):
        if name == "T":
            return transpose(I, m)
        if name == "transpose":
            return Builtin("ndarray.transpose", lambda I, a, k: transpose(I, m))
        if name == "shape":
            return (m.rows(), m.cols())
        if name == "flatten":
            def fl(I, a, k):
                c = to_int(m.cols())
                n = z3.simplify(to_int(m.rows()) * c)
                if isinstance(m.cols(), int) and m.cols() == 1:
                    return SSeq(m.rows(), lambda i: SReal(m.el(i, 0)), "flatten")
                raise Unsupported("flatten of general matrix")
            return Builtin("ndarray.flatten", fl)
        raise Unsupported(f"ndarray.{name}")

    def bounds(I, m, i, j):
        iz, jz = to_int(i), to_int(j)
        I.raise_if(z3.Or(iz < 0, iz >= to_int(m.rows()), jz < 0, jz >= to_int(m.cols())), "IndexError")

    def mat_getitem(I, m, idx):
        if isinstance(idx, tuple) and len(idx) == 2 and all(is_intlike(x) for x in idx):
            bounds(I, m, idx[0], idx[1])
            return SReal(m.el(idx[0], idx[1]))
        raise Unsupported(f"ndarray index {idx!r}")

    def mat_setitem(I, m, idx, value):
        if not (isinstance(idx, tuple) and len(idx) == 2 and all(is_intlike(x) for x in idx)):
            raise Unsupported(f"ndarray store index {idx!r}")
        if hasattr(value, "present_value"):
            value = value.present_value(I)
        if isinstance(value, SMat):
            # A-NP1: a size-1 array stored into a cell denotes its element
            I.raise_if(z3.Or(to_int(value.rows()) != 1, to_int(value.cols()) != 1), "ValueError")
            vz = value.el(0, 0)
        else:
            vz = to_real(value)
        bounds(I, m, idx[0], idx[1])
        iz, jz = to_int(idx[0]), to_int(idx[1])
        if I.merge_depth:
            I.effects.append(("store", m, (iz, jz), vz, I.cur_guard()))
            return
        old = m.cells if m.cells is not None else (lambda i, j, t=m.term: mat_el(t, i, j))
        m.cells = lambda i, j: z3.If(z3.And(i == iz, j == jz), vz, old(i, j))
        m.term = z3.Const(I.path.names.fresh("M"), Mat)

    def mat_iter(I, m):
        # iterating a 2-d array yields its rows; only (n,1) column vectors are supported (rows of size 1)
        if isinstance(m.cols(), int) and m.cols() == 1:
            return SSeq(m.rows(), lambda i: RowScalar(SReal(m.el(i, 0))), "rows")
        raise Unsupported("iteration over a general matrix")

    def elementwise(I, op, a, b):
        """numpy broadcasting for + - * between 2-d arrays / scalars."""
        fn = {ast.Add: lambda x, y: x + y, ast.Sub: lambda x, y: x - y, ast.Mult: lambda x, y: x * y}.get(type(op))
        tf = {ast.Add: mat_add, ast.Sub: mat_sub, ast.Mult: mat_emul}.get(type(op))
        if fn is None:
            raise Unsupported(f"array operator {type(op).__name__}")
        if not isinstance(a, SMat) or not isinstance(b, SMat):
            if isinstance(a, SMat) and is_numeric(b):
                s = to_real(b)
                return SMat(scale_op(op, a.term, s, False), cells=lambda i, j: fn(a.el(i, j), s), shape=(a.rows(), a.cols()), ident=object())
            if isinstance(b, SMat) and is_numeric(a):
                s = to_real(a)
                return SMat(scale_op(op, b.term, s, True), cells=lambda i, j: fn(s, b.el(i, j)), shape=(b.rows(), b.cols()), ident=object())
            raise Unsupported(f"array op on {a!r}, {b!r}")
        ar, ac, br, bc = to_int(a.rows()), to_int(a.cols()), to_int(b.rows()), to_int(b.cols())
        ok_r = z3.Or(ar == br, ar == 1, br == 1)
        ok_c = z3.Or(ac == bc, ac == 1, bc == 1)
        I.raise_if(z3.Not(z3.And(ok_r, ok_c)), "ValueError")
        rr = wrap(z3.simplify(z3.If(ar == 1, br, ar)))
        rc = wrap(z3.simplify(z3.If(ac == 1, bc, ac)))

        def cells(i, j):
            ia = z3.If(ar == 1, z3.IntVal(0), i)
            ja = z3.If(ac == 1, z3.IntVal(0), j)
            ib = z3.If(br == 1, z3.IntVal(0), i)
            jb = z3.If(bc == 1, z3.IntVal(0), j)
            return fn(a.el(z3.simplify(ia), z3.simplify(ja)), b.el(z3.simplify(ib), z3.simplify(jb)))

        return SMat(tf(a.term, b.term), cells=cells, shape=(rr, rc), ident=object())

    def scale_op(op, t, s, swapped):
        return z3.Const("scaled", Mat) if False else scale_f(s, t)

    def mat_binop(I, op, a, b):
        if isinstance(op, ast.MatMult):
            return np_matmul(I, [a, b], {})
        if isinstance(a, RowScalar):
            a = a.v
        if isinstance(b, RowScalar):
            b = b.v
        return elementwise(I, op, a, b)

    def mat_compare(I, op, a, b):
        f = {ast.Lt: lambda x, y: x < y, ast.LtE: lambda x, y: x <= y, ast.Gt: lambda x, y: x > y, ast.GtE: lambda x, y: x >= y}[type(op)]
        if isinstance(a, SMat) and is_numeric(b):
            s = to_real(b)
            return SBoolArr((a.rows(), a.cols()), lambda i, j: f(a.el(i, j), s))
        if isinstance(b, SMat) and is_numeric(a):
            s = to_real(a)
            return SBoolArr((b.rows(), b.cols()), lambda i, j: f(s, b.el(i, j)))
        raise Unsupported("array comparison of two arrays")

    def mat_truth(I, m):
        I.raise_if(z3.Or(to_int(m.rows()) != 1, to_int(m.cols()) != 1), "ValueError")
        return m.el(0, 0) != 0

    def mat_neg(I, m):
        return SMat(neg_f(m.term), cells=lambda i, j: -m.el(i, j), shape=(m.rows(), m.cols()), ident=object())

    def np_float(I, m):
        # float(size-1 array): its element (A-NP1)
        I.raise_if(z3.Or(to_int(m.rows()) != 1, to_int(m.cols()) != 1), "TypeError")
        return SReal(m.el(0, 0))

    M.mat_getattr = mat_getattr
    M.mat_getitem = mat_getitem
    M.mat_setitem = mat_setitem
    M.mat_iter = mat_iter
    M.mat_binop = mat_binop
    M.mat_compare = mat_compare
    M.mat_truth = mat_truth
    M.mat_neg = mat_neg
    M.np_float = np_float
    M.apply_store_effects = apply_store_effects

    def boolarr_truth(self, I):
        I.raise_if(z3.Or(to_int(self.shape[0]) != 1, to_int(self.shape[1]) != 1), "ValueError")
        return self.cells(z3.IntVal(0), z3.IntVal(0))

    SBoolArr.pvc_truth = boolarr_truth


class RowScalar(SV):
    """A row of an (n,1) array: a length-1 array; used as a scalar argument (A-NP1)."""

    def __init__(self, v):
        self.v = v

    def pvc_subst(self, pairs):
        return RowScalar(subst(self.v, pairs))

    def pvc_merge(self, c, other):
        from .sym import merge_values

        o = other.v if isinstance(other, RowScalar) else other
        if is_numeric(o):
            return RowScalar(merge_values(c, self.v, o))
        return NotImplemented


def scalar_of(v):
    if isinstance(v, RowScalar):
        return v.v
    return v


# --------------------------------------------------------------------------
# store effects of summarised loops


def _flatten(effects, ctx):
    out = []
    for e in effects:
        if e[0] == "nested":
            _, inner, idx, n, g = e
            for x in _flatten([inner], ctx + [(idx, n)]):
                x = dict(x)
                x["guard"] = z3.And(g, x["guard"])
                out.append(x)
        elif e[0] == "store":
            _, m, (iz, jz), vz, g = e
            out.append({"kind": "store", "mat": m, "index": (iz, jz), "value": vz, "guard": g, "loops": list(ctx)})
        elif e[0] == "append":
            _, lst, v, g = e
            out.append({"kind": "append", "list": lst, "value": v, "guard": g, "loops": list(ctx)})
        else:
            raise Unsupported(f"effect {e[0]} in summarised loop")
    return out


def apply_store_effects(I, effects, loops):
    flat = _flatten(effects, list(loops))
    if not flat:
        return
    by_mat = {}
    for k, e in enumerate(flat):
        e["seq"] = k
        if e["kind"] == "append":
            _apply_append(I, e)
            continue
        by_mat.setdefault(id(e["mat"]), []).append(e)
    for stores in by_mat.values():
        _apply_mat_stores(I, stores)


def _apply_append(I, e):
    lst = e["list"]
    if len(e["loops"]) != 1 or not z3.is_true(z3.simplify(e["guard"])):
        raise Unsupported("guarded / nested list.append in summarised loop")
    idx, n = e["loops"][0]
    tmpl = e["value"]
    new = SSeq(wrap(n), lambda j: subst(tmpl, [(idx, j)]), "loop-append")
    if lst.items:
        new = SSeq.from_list(lst.items).concat(new)
    new.pvc_type = "list"
    # the python list object is mutated in place: every reference to it now sees the symbolic-length list
    I.replace_object(lst, new)


def _apply_mat_stores(I, stores):
    """Last-writer-wins closed form for stores `m[f(i), g(j)] = v(i, j)` where every loop
    index appears directly as a cell index (so each cell has at most one writing iteration per store)."""
    m = stores[0]["mat"]
    loops = stores[0]["loops"]
    for s in stores:
        if [str(a) for a, _ in s["loops"]] != [str(a) for a, _ in loops]:
            raise Unsupported("stores to one array from different loop nests")
    old = m.cells if m.cells is not None else (lambda i, j, t=m.term: mat_el(t, i, j))
    idx_consts = [a for a, _ in loops]

    def preimage(store, r, c):
        """Substitution sending the loop indices to the iteration that writes cell (r, c); plus side condition."""
        sub = {}
        conds = []
        for cell_term, target in zip(store["index"], (r, c)):
            ct = z3.simplify(cell_term)
            hit = [a for a in idx_consts if z3.eq(ct, a)]
            if hit:
                a = hit[0]
                if str(a) in sub:
                    conds.append(sub[str(a)][1] == target)
                else:
                    sub[str(a)] = (a, target)
            else:
                for a in idx_consts:
                    if _occurs(a, ct):
                        raise Unsupported(f"non-trivial index expression {ct} in summarised store")
                conds.append(ct == target)
        if len(sub) != len(idx_consts):
            raise Unsupported("loop index does not determine the written cell (repeated writes)")
        pairs = [sub[str(a)] for a in idx_consts]
        return pairs, conds

    def cells(r, c):
        cands = []
        for s in stores:
            pairs, conds = preimage(s, r, c)
            dom = [z3.And(t >= 0, t < n) for (a, t), (_, n0) in zip(pairs, loops) for n in [z3.substitute(n0, *pairs) if z3.is_expr(n0) else n0]]
            valid = z3.And(*(conds + dom + [z3.substitute(s["guard"], *pairs)]))
            val = z3.substitute(s["value"], *pairs)
            time = [t for _, t in pairs]
            cands.append((valid, val, time, s["seq"]))
        res = old(r, c)
        # candidate k wins iff valid and every other valid candidate is earlier
        order = []
        for k, (valid, val, time, seq) in enumerate(cands):
            later = []
            for l, (v2, _, t2, seq2) in enumerate(cands):
                if l == k:
                    continue
                later.append(z3.And(v2, _lex_less(time, seq, t2, seq2)))
            wins = z3.And(valid, z3.Not(z3.Or(*later))) if later else valid
            order.append((wins, val))
        for wins, val in reversed(order):
            res = z3.If(wins, val, res)
        return z3.simplify(res)

    m.cells = cells
    m.term = z3.Const(I.path.names.fresh("M"), Mat)


def _lex_less(t1, s1, t2, s2):
    """(t1, s1) < (t2, s2) lexicographically; t vectors of z3 ints, s python ints."""
    res = z3.BoolVal(s1 < s2)
    for a, b in reversed(list(zip(t1, t2))):
        res = z3.Or(a < b, z3.And(a == b, res))
    return res


def _occurs(c, term):
    if z3.eq(c, term):
        return True
    return any(_occurs(c, ch) for ch in term.children())
