"""Contracts and the per-function verifier driver.

A contract is a sidecar object keyed by the qualified name of a function in the
repository.  `verify_contract` symbolically executes the *real* body (re-read
from the working tree) from `setup()`'s symbolic inputs along every feasible
path and lets `post()` emit proof obligations; `apply()` is what callers see
instead of the body (modular verification).
"""
from __future__ import annotations

import ast
import time
import traceback

import z3

from . import smt
from .interp import Closure, Frame, Infeasible, Interp, Path, ReturnSignal
from .sym import PyRaise, Unsupported


class PathEnd(Exception):
    """Terminates a path that only existed to verify a loop body."""


class Call:
    def __init__(self, args=(), kwargs=None, enclosing=None, **ctx):
        self.args = list(args)
        self.kwargs = dict(kwargs or {})
        self.enclosing = enclosing  # dict of closure variables for nested functions
        self.ctx = ctx

    def __getattr__(self, k):
        try:
            return self.__dict__["ctx"][k]
        except KeyError:
            raise AttributeError(k)


class Contract:
    key = None  # "formak.runtime:ManagedFilter._process_model"
    kind = "repo"  # repo | assumed
    prefix = None  # obligation-name prefix, e.g. "C10.py._process_model"
    loops = {}
    inline = ()  # qualnames of repo callees that are interpreted in place (stated in evidence)

    def setup(self, I) -> Call:
        raise NotImplementedError

    def post(self, I, call, outcome):
        raise NotImplementedError

    def apply(self, I, args, kwargs):
        raise Unsupported(f"contract {self.key} has no caller-side form")

    def describe(self):
        return (self.__doc__ or "").strip()


class LoopInv:
    """Invariant rule for a loop with loop-carried state.

    carried : names of local variables havocked by the loop (dict name -> maker(I, tag))
    inv     : inv(I, k, env, call) -> list[(clause_name, z3 Bool)]; env maps carried names to values,
              k is the number of completed iterations (z3 Int / int)
    havoc_extra / ghost makers can be given via `extra` (callables run when havocking).
    """

    def __init__(self, carried, inv, extra_havoc=None, name="loop", pass_k=False):
        self.carried = carried
        self.inv = inv
        self.extra_havoc = extra_havoc
        self.name = name
        self.contract = None
        self.pass_k = pass_k  # makers receive the iteration count (k in the body, n after the loop)

    def env(self, I):
        return {k: I.frame.locals.get(k) for k in self.carried}

    def run(self, I, node, it):
        P = I.path
        n = it.len_z()
        prefix = self.contract.prefix if self.contract else "loop"
        # entry
        for cname, g in self.inv(I, 0, self.env(I), self.call):
            P.oblige(f"{prefix}.{self.name}.inv_entry.{cname}", g)
        verify_body = P.choose()
        # havoc
        tag = "body" if verify_body else "exit"
        k = P.fresh_int(f"k_{self.name}")
        for name, maker in self.carried.items():
            I.frame.locals[name] = maker(I, f"{name}_{tag}", k if verify_body else n) if self.pass_k else maker(I, f"{name}_{tag}")
        if self.extra_havoc:
            self.extra_havoc(I, tag)
        if verify_body:
            P.assume(z3.And(k >= 0, k < n))
            for cname, g in self.inv(I, k, self.env(I), self.call):
                P.assume(g)
            if not smt.feasible(P.hyps()):
                raise Infeasible()
            I.assign(node.target, it.at(k))
            I.loop_kinds.append(("concrete", len(I.guards)))
            try:
                try:
                    I.exec_block(node.body)
                except Exception as e:
                    from .interp import ContinueSignal, BreakSignal

                    if isinstance(e, ContinueSignal):
                        pass
                    elif isinstance(e, BreakSignal):
                        raise Unsupported("break in invariant-rule loop")
                    else:
                        raise
            finally:
                I.loop_kinds.pop()
            for cname, g in self.inv(I, k + 1, self.env(I), self.call):
                P.oblige(f"{prefix}.{self.name}.inv_preserved.{cname}", g)
            raise PathEnd()
        # after the loop
        P.assume(n >= 0)
        for cname, g in self.inv(I, n, self.env(I), self.call):
            P.assume(g)


class FunctionReport:
    def __init__(self, contract):
        self.contract = contract
        self.key = contract.key
        self.obligations = []  # Obligation objects with .result
        self.paths = 0
        self.status = "ok"  # ok | unsupported | error
        self.reason = None
        self.dropped = set()
        self.seconds = 0.0
        self.outcomes = []


def resolve_function(I, key, enclosing_locals=None):
    """`module:Outer.inner` -> Closure, descending through classes and (for nested
    definitions) function bodies.  `a.<locals>.B.f` descends into function `a`."""
    modname, path = key.split(":")
    mod = I.load_module(modname)
    parts = path.split(".")
    node_list = mod.tree.body
    cur = None
    cls = None
    enclosing = None
    qual = modname + ":"
    i = 0
    while i < len(parts):
        p = parts[i]
        if p == "<locals>":
            # enter the body of the function `cur`; bind its closure variables
            fr = Frame(Closure(cur, mod, None, qual.rstrip(".")), dict(enclosing_locals or {}), enclosing)
            enclosing = fr
            node_list = cur.body
            cls = None
            i += 1
            qual += "<locals>."
            continue
        found = None
        for nd in node_list:
            if isinstance(nd, (ast.FunctionDef, ast.ClassDef)) and nd.name == p:
                found = nd
        if found is None:
            raise Unsupported(f"{key}: {p} not found in source")
        cur = found
        qual += p + "."
        if isinstance(found, ast.ClassDef):
            if enclosing is None:
                cls = I.module_attr(mod, p) if node_list is mod.tree.body else I.make_class(found, mod, enclosing, qual.rstrip("."))
            else:
                cls = I.make_class(found, mod, enclosing, qual.rstrip("."))
                enclosing.locals.setdefault(p, cls)
            node_list = found.body
        i += 1
    if not isinstance(cur, ast.FunctionDef):
        raise Unsupported(f"{key} is not a function")
    if cls is not None and cur.name in cls.methods:
        return cls.methods[cur.name]
    return Closure(cur, mod, enclosing, key)


MUTATORS = {"append", "extend", "insert", "pop", "remove", "clear", "update", "setdefault", "popitem", "add", "discard", "sort", "reverse", "fill", "resize", "put"}


def self_write_set(fn_node):
    """Attributes of the first parameter (self) that the function's own text assigns, deletes, augments, stores into
    (self.a[k] = v) or mutates through a well-known mutator call (self.a.append(v)); '*' for setattr(self, ...)."""
    if not fn_node.args.args:
        return set()
    me = fn_node.args.args[0].arg
    out = set()

    def attr_of(t):
        # self.a  /  self.a[...]  /  self.a[...][...]
        while isinstance(t, ast.Subscript):
            t = t.value
        if isinstance(t, ast.Attribute) and isinstance(t.value, ast.Name) and t.value.id == me:
            return t.attr
        return None

    def targets(t):
        if isinstance(t, (ast.Tuple, ast.List)):
            for e in t.elts:
                yield from targets(e)
        elif isinstance(t, ast.Starred):
            yield from targets(t.value)
        else:
            yield t

    for nd in ast.walk(fn_node):
        tg = []
        if isinstance(nd, ast.Assign):
            for t in nd.targets:
                tg += list(targets(t))
        elif isinstance(nd, (ast.AugAssign, ast.AnnAssign)):
            tg += list(targets(nd.target))
        elif isinstance(nd, ast.Delete):
            for t in nd.targets:
                tg += list(targets(t))
        elif isinstance(nd, (ast.For, ast.AsyncFor)):
            tg += list(targets(nd.target))
        elif isinstance(nd, ast.Call):
            f = nd.func
            if isinstance(f, ast.Attribute) and f.attr in MUTATORS:
                a = attr_of(f.value)
                if a:
                    out.add(a)
            for kw in nd.keywords:
                # numpy's out=<array>: the call writes into the array held in self.<attr>
                if kw.arg == "out":
                    a = attr_of(kw.value)
                    if a:
                        out.add(a)
            if isinstance(f, ast.Name) and f.id in ("setattr", "delattr") and nd.args and isinstance(nd.args[0], ast.Name) and nd.args[0].id == me:
                out.add("*")
        for t in tg:
            a = attr_of(t)
            if a:
                out.add(a)
    return out


def verify_contract(contract, repo, callee_contracts, models_factory, max_paths=400, log=None):
    rep = FunctionReport(contract)
    frame_checked = False
    t0 = time.time()
    work = [[]]
    seen = 0
    while work:
        dec = work.pop()
        seen += 1
        if seen > max_paths:
            rep.status = "unsupported"
            rep.reason = f"more than {max_paths} paths"
            break
        P = Path(dec)
        models = models_factory()
        I = Interp(repo, P, contracts=dict(callee_contracts), models=models, inline=contract.inline)
        for ordinal, spec in contract.loops.items():
            spec.contract = contract
            I.loop_specs[(contract.key, ordinal)] = spec
        try:
            call = contract.setup(I)
            for spec in contract.loops.values():
                spec.call = call
            fn = call.ctx.get("fn") or resolve_function(I, contract.key, call.enclosing)
            from .interp import check_signature

            check_signature(contract.key, fn)  # the contract's setup was written for this signature
            assignable = getattr(contract, "assignable", None)
            if assignable is not None and not frame_checked and hasattr(fn, "node") and isinstance(fn.node, ast.FunctionDef):
                # assignable clause, checked on the function's TEXT (independent of how far symbolic execution gets)
                frame_checked = True
                from .interp import Obligation

                wrote = self_write_set(fn.node)
                extra = sorted(wrote - set(assignable))
                ob = Obligation(f"{contract.prefix}.frame.assignable_clause", [], z3.BoolVal(not extra), "syntactic")
                ob.note = f"the method's text writes self.{', self.'.join(extra)}; the contract's frame allows only {sorted(assignable) or 'nothing'}" if extra else ""
                rep.obligations.append(ob)
            try:
                try:
                    rv = I.run_closure(fn, call.args, call.kwargs)
                    if hasattr(rv, "_thunk") and hasattr(rv, "seq"):
                        rv.seq  # a generator's body runs when it is consumed: consume it here so that its exceptions are the outcome
                    outcome = ("return", rv)
                except PyRaise as e:
                    outcome = ("raise", e.exc_type)
                contract.post(I, call, outcome)
                rep.outcomes.append(outcome[0] if outcome[0] == "return" else f"raise {outcome[1]}")
                rep.paths += 1
            except PathEnd:
                rep.paths += 1
        except Infeasible:
            pass
        except Unsupported as u:
            rep.status = "unsupported"
            rep.reason = str(u)
            if log:
                log(f"  unsupported: {u}")
            break
        except Exception as e:  # checker bug: never a violation
            rep.status = "error"
            rep.reason = f"{type(e).__name__}: {e}\n{traceback.format_exc()}"
            break
        rep.dropped |= I.dropped
        rep.definitions = getattr(rep, "definitions", set()) | P.definitions
        rep.obligations.extend(P.obligations)
        work.extend(P.alternatives)
    rep.seconds = time.time() - t0
    return rep


def discharge(rep, timeout_ms=None):
    """Run the SMT back ends on every obligation of a function report.  With PVC_CROSSCHECK=1 (thorough tier) a sample of the
    obligations z3 5.1 proved is re-run on the other installed solvers (z3 4.8.12, cvc5) from the SMT-LIB dump."""
    import os
    import zlib

    cross = os.environ.get("PVC_CROSSCHECK") == "1"
    for ob in rep.obligations:
        if ob.result is None:
            ob.result = smt.prove(ob.hyps, ob.goal, timeout_ms=timeout_ms)
            if cross and ob.result.status == "unsat" and ob.result.backend.startswith("z3") and ob.hyps and zlib.crc32(ob.name.encode()) % 4 == 0:
                ob.result.cross = smt.cross_check(ob.hyps, ob.goal)
    return rep
