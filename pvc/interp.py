"""pvc: symbolic interpreter for the Python subset used by formak.

It executes the *real* function bodies (ast of the file in the repository's
working tree, re-read on every run) over the symbolic value domain of
pvc/sym.py.  Calls to other repository functions are replaced by their
contracts (modular verification); dependency functions (numpy, math, sympy ...)
are replaced by model functions from pvc/models.py (assumed contracts).

Path exploration is by decision replay: a run follows a vector of branch
decisions; every new two-sided branch schedules the alternative vector.
"""
from __future__ import annotations

import ast
import os

import z3

from . import smt
from .sym import (
    EXC_BASES,
    NameSupply,
    PyRaise,
    SBool,
    SInt,
    SMat,
    SObj,
    SOpaque,
    SReal,
    SSeq,
    SV,
    Unsupported,
    as_seq,
    exc_is_subclass,
    is_intlike,
    is_numeric,
    ite_value,
    merge_values,
    real_of_float,
    seq_len,
    subst,
    to_bool,
    to_int,
    to_real,
    wrap,
)

# --------------------------------------------------------------------------
# control-flow signals


class ReturnSignal(Exception):
    def __init__(self, value):
        self.value = value


class BreakSignal(Exception):
    pass


class ContinueSignal(Exception):
    pass


class Infeasible(Exception):
    """Current path condition is unsatisfiable: abandon the path."""


# --------------------------------------------------------------------------
# static values


class ModuleV:
    def __init__(self, name, path, tree, source):
        self.name = name
        self.path = path
        self.tree = tree
        self.source = source
        self.defs = {}  # name -> ast node (FunctionDef/ClassDef/Assign value/import)
        self.cache = {}
        for node in tree.body:
            if isinstance(node, (ast.FunctionDef, ast.ClassDef)):
                self.defs[node.name] = node
            elif isinstance(node, ast.Assign):
                for t in node.targets:
                    if isinstance(t, ast.Name):
                        self.defs[t.id] = node
            elif isinstance(node, ast.AnnAssign) and isinstance(node.target, ast.Name) and node.value is not None:
                self.defs[node.target.id] = node
            elif isinstance(node, ast.Import):
                for a in node.names:
                    self.defs[(a.asname or a.name).split(".")[0]] = ("import", a.name if a.asname else a.name.split(".")[0])
            elif isinstance(node, ast.ImportFrom):
                for a in node.names:
                    self.defs[a.asname or a.name] = ("from", node.module, a.name)

    def __repr__(self):
        return f"<module {self.name}>"


class ClassV:
    def __init__(self, name, node, module, bases, qualname, enclosing=None):
        self.name = name
        self.node = node
        self.module = module
        self.bases = bases  # list of ClassV / strings
        self.qualname = qualname
        self.enclosing = enclosing
        self.methods = {}
        self.attrs = {}
        self.decorators = {}

    def lookup(self, name):
        if name in self.methods:
            return self.methods[name]
        if name in self.attrs:
            return self.attrs[name]
        for b in self.bases:
            if isinstance(b, ClassV):
                r = b.lookup(name)
                if r is not None:
                    return r
        return None

    def is_subclass_of(self, other):
        if self is other:
            return True
        if isinstance(other, str):
            if self.name == other:
                return True
        for b in self.bases:
            if isinstance(b, ClassV):
                if b.is_subclass_of(other):
                    return True
            elif b == other or (isinstance(other, ClassV) and b == other.name):
                return True
        return False

    def __repr__(self):
        return f"<class {self.qualname}>"


class Closure:
    def __init__(self, node, module, enclosing, qualname, cls=None, kind="function"):
        self.node = node
        self.module = module
        self.enclosing = enclosing  # Frame or None
        self.qualname = qualname
        self.cls = cls
        self.kind = kind  # function | classmethod | staticmethod | property
        self.is_generator = _contains_yield(node)

    def __repr__(self):
        return f"<closure {self.qualname}>"


class BoundMethod:
    def __init__(self, self_, fn):
        self.self_ = self_
        self.fn = fn

    def __repr__(self):
        return f"<bound {self.fn} of {self.self_}>"


class Builtin:
    """Model function: fn(interp, args, kwargs) -> value."""

    def __init__(self, name, fn):
        self.name = name
        self.fn = fn

    def __repr__(self):
        return f"<model {self.name}>"


class ExcClass:
    def __init__(self, name):
        self.name = name

    def __repr__(self):
        return f"<exc {self.name}>"


class ExcV:
    def __init__(self, name):
        self.name = name


class NTClass:
    """collections.namedtuple class."""

    def __init__(self, name, fields):
        self.name = name
        self.fields = list(fields)

    def make(self, values):
        return NTInst(self, values)


class NTInst(tuple):
    def __new__(cls, ntc, values):
        o = super().__new__(cls, values)
        o.ntc = ntc
        return o

    def get(self, name):
        return self[self.ntc.fields.index(name)]


class OpaqueMethod:
    """Method of an opaque (contract-only) object."""

    def __init__(self, key):
        self.key = key


def _contains_yield(node):
    class V(ast.NodeVisitor):
        found = False

        def visit_Yield(self, n):
            self.found = True

        def visit_YieldFrom(self, n):
            self.found = True

        def visit_FunctionDef(self, n):
            if n is node:
                self.generic_visit(n)

        def visit_Lambda(self, n):
            if n is node:
                self.generic_visit(n)

        visit_AsyncFunctionDef = visit_FunctionDef

    v = V()
    v.visit(node)
    return v.found


class Frame:
    def __init__(self, closure, locals_, enclosing=None):
        self.closure = closure
        self.locals = locals_
        self.enclosing = enclosing
        self.yields = None  # list of segments when executing a generator
        self.loop_ordinal = 0


# --------------------------------------------------------------------------
# obligations


class Obligation:
    def __init__(self, name, hyps, goal, theory="interp", note=None):
        self.name = name
        self.hyps = list(hyps)
        self.goal = goal
        self.theory = theory
        self.note = note
        self.result = None


_SIGNATURES = None


def signature_of(fn):
    a = fn.node.args
    pos = [p.arg for p in a.posonlyargs + a.args]
    nd = len(a.defaults)
    return {"params": pos, "defaults": nd, "vararg": a.vararg.arg if a.vararg else None, "kwonly": [p.arg for p in a.kwonlyargs], "kwarg": a.kwarg.arg if a.kwarg else None}


def check_signature(q, fn):
    """A callee contract was written for the signature the function had when the contract was written (contracts/signatures.json,
    recorded from the tree the contracts were verified on).  A different signature means the contract no longer describes the
    callee: Unsupported (-> undecided + bounded stand-in), never a silent application."""
    global _SIGNATURES
    import json
    import os

    if not hasattr(fn, "node") or not hasattr(fn.node, "args"):
        return
    path = os.path.join(os.path.dirname(os.path.dirname(os.path.abspath(__file__))), "contracts", "signatures.json")
    if _SIGNATURES is None:
        try:
            _SIGNATURES = json.load(open(path))
        except Exception:
            _SIGNATURES = {}
    sig = signature_of(fn)
    if os.environ.get("PVC_RECORD_SIGNATURES"):
        if _SIGNATURES.get(q) != sig:
            _SIGNATURES[q] = sig
            try:
                cur = json.load(open(path))
            except Exception:
                cur = {}
            cur[q] = sig
            json.dump(cur, open(path, "w"), indent=1, sort_keys=True)
        return
    want = _SIGNATURES.get(q)
    if want is not None and want != sig:
        raise Unsupported(f"signature of {q} changed: contract written for {want['params']}, now {sig['params']} (callee contract not applicable)")


class Path:
    def __init__(self, decisions):
        self.decisions = list(decisions)
        self.pos = 0
        self.pc = []
        self.names = NameSupply()
        self.obligations = []
        self.alternatives = []
        self.ghost = {}
        self.log = []
        self.facts = []  # universally quantified hypotheses (z3 ForAll terms)
        self.definitions = set()
        self.noraise = []  # (index const, length, guard template): "no iteration raised" facts, for manual instantiation

    def assume(self, cond):
        c = cond if z3.is_expr(cond) else z3.BoolVal(bool(cond))
        c = z3.simplify(c)
        if z3.is_true(c):
            return
        if z3.is_false(c):
            raise Infeasible()
        self.pc.append(c)

    def hyps(self):
        return list(self.pc) + list(self.facts)

    def define(self, axiom_instance, what="spec-function unfolding"):
        """Add an instance of a *definitional* axiom (spec function unfolding, floor/sqrt law).
        Sound because it is an instance of a definition/theorem; recorded for the evidence."""
        self.definitions.add(what)
        before = len(self.pc)
        self.assume(axiom_instance)
        if not hasattr(self, "defined_idx"):
            self.defined_idx = set()
        self.defined_idx.update(range(before, len(self.pc)))

    def branch(self, cond):
        """Decide a symbolic condition; schedules the alternative when both sides are feasible."""
        if isinstance(cond, bool):
            return cond
        c = z3.simplify(cond)
        if z3.is_true(c):
            return True
        if z3.is_false(c):
            return False
        if self.pos < len(self.decisions):
            d = self.decisions[self.pos]
            self.pos += 1
            self.pc.append(c if d else z3.Not(c))
            return d
        t_ok = smt.feasible(self.hyps() + [c])
        f_ok = smt.feasible(self.hyps() + [z3.Not(c)])
        if not t_ok and not f_ok:
            raise Infeasible()
        if t_ok and f_ok:
            self.alternatives.append(self.decisions[: self.pos] + [False])
            d = True
        else:
            d = t_ok
        self.decisions = self.decisions[: self.pos] + [d]
        self.pos += 1
        self.pc.append(c if d else z3.Not(c))
        return d

    def choose(self):
        """Unconditional fork (both alternatives are explored)."""
        if self.pos < len(self.decisions):
            d = self.decisions[self.pos]
            self.pos += 1
            return d
        self.alternatives.append(self.decisions[: self.pos] + [False])
        self.decisions = self.decisions[: self.pos] + [True]
        self.pos += 1
        return True

    def assume_checked(self, cond):
        self.assume(cond)
        if not smt.feasible(self.hyps()):
            raise Infeasible()

    def oblige(self, name, goal, theory="interp", note=None):
        g = goal if z3.is_expr(goal) else z3.BoolVal(bool(goal))
        self.obligations.append(Obligation(name, self.hyps(), g, theory, note))

    def fresh_int(self, base):
        return z3.Int(self.names.fresh(base))

    def fresh_real(self, base):
        return z3.Real(self.names.fresh(base))

    def fresh_bool(self, base):
        return z3.Bool(self.names.fresh(base))

    def fresh_const(self, base, sort):
        return z3.Const(self.names.fresh(base), sort)


# --------------------------------------------------------------------------
# the interpreter


class Interp:
    def __init__(self, repo, path, contracts=None, models=None, inline=(), verifying=None):
        self.repo = repo
        self.path = path
        self.contracts = contracts or {}
        self.models = models
        self.inline = set(inline)
        self.verifying = verifying  # qualname of the function whose body is being verified
        self.modules = {}
        self.frames = []
        self.loop_specs = {}
        self.dropped = set()
        self.merge_depth = 0  # >0: inside a summarised loop body (if-conversion instead of forking)
        self.guards = []  # guard stack in merge mode
        self.effects = None  # effect log in merge mode
        self.alive = []  # negated guards of `continue`/`raise` taken earlier in the current iteration
        self.loop_kinds = []  # stack: ("concrete", guard_depth) | ("summary",)

    # ----- modules --------------------------------------------------------
    def load_module(self, modname):
        if modname in self.modules:
            return self.modules[modname]
        rel = modname.replace(".", "/") + ".py"
        for root in (os.path.join(self.repo, "py"), self.repo):
            p = os.path.join(root, rel)
            if os.path.exists(p):
                src = open(p).read()
                m = ModuleV(modname, p, ast.parse(src), src)
                self.modules[modname] = m
                return m
        raise Unsupported(f"module {modname} not found in repo")

    def module_attr(self, mod, name):
        if name in mod.cache:
            return mod.cache[name]
        if name not in mod.defs:
            raise Unsupported(f"{mod.name}.{name} undefined")
        d = mod.defs[name]
        if isinstance(d, tuple):
            v = self.resolve_import(mod, d)
        elif isinstance(d, ast.FunctionDef):
            v = Closure(d, mod, None, f"{mod.name}:{d.name}")
        elif isinstance(d, ast.ClassDef):
            v = self.make_class(d, mod, None, f"{mod.name}:{d.name}")
        elif isinstance(d, (ast.Assign, ast.AnnAssign)):
            fr = Frame(None, {}, None)
            fr.module = mod
            self.frames.append(fr)
            try:
                v = self.eval(d.value)
            finally:
                self.frames.pop()
            if isinstance(d, ast.Assign) and isinstance(d.targets[0], ast.Tuple):
                raise Unsupported("tuple assignment at module level")
        else:
            raise Unsupported(f"module-level {type(d).__name__}")
        mod.cache[name] = v
        return v

    def resolve_import(self, mod, d):
        if d[0] == "import":
            return self.models.module(d[1], self)
        _, m, n = d
        if (m, n) in self.models.froms:
            return self.models.froms[(m, n)]
        if m is not None and (m == "formak" or m.startswith("formak.")):
            # `from formak import common` or `from formak.exceptions import X`
            try:
                sub = self.load_module(f"{m}.{n}")
                return sub
            except Unsupported:
                pass
            modv = self.load_module(m)
            return self.module_attr(modv, n)
        return self.models.from_import(m, n, self)

    def make_class(self, node, mod, enclosing, qualname):
        bases = []
        for b in node.bases:
            try:
                bv = self.eval_in(b, mod, enclosing)
            except Unsupported:
                bv = ast.unparse(b)
            if isinstance(bv, ExcClass):
                bv = bv.name
            bases.append(bv)
        c = ClassV(node.name, node, mod, bases, qualname, enclosing)
        if any(isinstance(b, str) and b in EXC_BASES for b in bases) or any(
            isinstance(b, ClassV) and b.name in EXC_BASES for b in bases
        ):
            EXC_BASES.setdefault(node.name, [b if isinstance(b, str) else b.name for b in bases])
        for st in node.body:
            if isinstance(st, ast.FunctionDef):
                kind = "function"
                for dec in st.decorator_list:
                    dn = ast.unparse(dec)
                    if dn in ("classmethod", "staticmethod", "property"):
                        kind = dn
                c.methods[st.name] = Closure(st, mod, enclosing, f"{qualname}.{st.name}", cls=c, kind=kind)
            elif isinstance(st, ast.Assign) and len(st.targets) == 1 and isinstance(st.targets[0], ast.Name):
                c.attrs[st.targets[0].id] = ("lazy", st.value)
                if "Enum" in bases:
                    c.enum_members = getattr(c, "enum_members", []) + [st.targets[0].id]
            elif isinstance(st, ast.AnnAssign) and isinstance(st.target, ast.Name) and st.value is not None:
                c.attrs[st.target.id] = ("lazy", st.value)
        c.decorator_names = [ast.unparse(d) for d in node.decorator_list]
        if "Enum" in bases:
            from .models import EnumAuto, EnumMember

            last = 0
            for nm in getattr(c, "enum_members", []):
                v = self.eval_in(c.attrs[nm][1], mod, enclosing)
                if isinstance(v, EnumAuto):
                    v = last + 1
                last = v if isinstance(v, int) else last
                c.attrs[nm] = ("val", EnumMember(c, nm, v))
        return c

    def eval_in(self, node, mod, enclosing):
        fr = Frame(None, {}, enclosing)
        fr.module = mod
        self.frames.append(fr)
        try:
            return self.eval(node)
        finally:
            self.frames.pop()

    def class_attr(self, cls, name):
        v = cls.lookup(name)
        if isinstance(v, tuple) and v and v[0] == "lazy":
            owner = cls
            while name not in owner.attrs:
                owner = next(b for b in owner.bases if isinstance(b, ClassV) and b.lookup(name) is not None)
            val = self.eval_in(v[1], owner.module, owner.enclosing)
            owner.attrs[name] = ("val", val)
            return val
        if isinstance(v, tuple) and v and v[0] == "val":
            return v[1]
        return v

    # ----- names ----------------------------------------------------------
    @property
    def frame(self):
        return self.frames[-1]

    def cur_module(self):
        f = self.frame
        while f is not None:
            if getattr(f, "module", None) is not None:
                return f.module
            if f.closure is not None:
                return f.closure.module
            f = f.enclosing
        raise Unsupported("no module in scope")

    def lookup(self, name):
        f = self.frame
        while f is not None:
            if name in f.locals:
                v = f.locals[name]
                if v is _UNBOUND:
                    raise Unsupported(f"loop-carried variable {name!r} needs an invariant")
                if isinstance(v, _Carried):
                    raise Unsupported(f"loop-carried variable {name!r} needs an invariant")
                if isinstance(v, _Poison):
                    raise Unsupported(f"value of {name!r} after a summarised loop is not expressible")
                if isinstance(v, _PostLoop):
                    # defined only when the loop body ran at least once (NameError/UnboundLocalError otherwise)
                    self.raise_if(z3.Not(v.n > 0), "UnboundLocalError")
                    return v.value
                return v
            f = f.enclosing
        mod = self.cur_module()
        if name in mod.defs:
            return self.module_attr(mod, name)
        return self.models.builtin(name, self)

    # ----- expressions ----------------------------------------------------
    def eval(self, node):
        m = getattr(self, "e_" + type(node).__name__, None)
        if m is None:
            raise Unsupported(f"expression {type(node).__name__}")
        return m(node)

    def e_Constant(self, n):
        return n.value

    def e_Name(self, n):
        return self.lookup(n.id)

    def e_Tuple(self, n):
        return tuple(self.eval_elts(n.elts))

    def e_List(self, n):
        return PyList(self.eval_elts(n.elts))

    def e_Set(self, n):
        return self.models.make_set(self, self.eval_elts(n.elts))

    def eval_elts(self, elts):
        out = []
        for e in elts:
            if isinstance(e, ast.Starred):
                v = self.eval(e.value)
                out.extend(self.concrete_iter(v, "starred element"))
            else:
                out.append(self.eval(e))
        return out

    def e_Dict(self, n):
        d = PyDict()
        for k, v in zip(n.keys, n.values):
            if k is None:
                inner = self.eval(v)
                if isinstance(inner, PyDict):
                    d.d.update(inner.d)
                else:
                    raise Unsupported("** of symbolic dict in dict display")
            else:
                kv = self.eval(k)
                # a display builds a FRESH dict: storing into it is not a store into state a summarised loop carries
                d.d[d.key(self, kv)] = self.eval(v)
        return d

    def e_JoinedStr(self, n):
        parts = []
        for v in n.values:
            if isinstance(v, ast.Constant):
                parts.append(v.value)
            else:
                parts.append(self.eval(v.value))
        return self.models.fmt(self, parts)

    def e_FormattedValue(self, n):
        return self.eval(n.value)

    def e_Lambda(self, n):
        return Closure(n, self.cur_module(), self.frame, "<lambda>")

    def e_IfExp(self, n):
        c = self.truth(self.eval(n.test))
        if isinstance(c, bool):
            return self.eval(n.body if c else n.orelse)
        if self.merge_depth:
            return ite_value(c, lambda: self.eval(n.body), lambda: self.eval(n.orelse))
        return self.eval(n.body if self.path.branch(c) else n.orelse)

    def e_Attribute(self, n):
        return self.getattr(self.eval(n.value), n.attr)

    def e_Subscript(self, n):
        base = self.eval(n.value)
        return self.getitem(base, self.eval_index(n.slice))

    def eval_index(self, s):
        if isinstance(s, ast.Slice):
            return SliceV(
                self.eval(s.lower) if s.lower else None,
                self.eval(s.upper) if s.upper else None,
                self.eval(s.step) if s.step else None,
            )
        if isinstance(s, ast.Tuple):
            return tuple(self.eval_index(e) for e in s.elts)
        return self.eval(s)

    def e_UnaryOp(self, n):
        v = self.eval(n.operand)
        return self.unop(n.op, v)

    def unop(self, op, v):
        if isinstance(op, ast.Not):
            t = self.truth(v)
            return (not t) if isinstance(t, bool) else wrap(z3.Not(t))
        if isinstance(op, ast.USub):
            if hasattr(v, "pvc_neg"):
                return v.pvc_neg(self)
            if isinstance(v, (int, float)) and not isinstance(v, bool):
                return -v
            if isinstance(v, SInt):
                return SInt(-v.z)
            if isinstance(v, SReal):
                return SReal(-v.z)
            if isinstance(v, SMat):
                return self.models.mat_neg(self, v)
        if isinstance(op, ast.UAdd):
            return v
        raise Unsupported(f"unary {type(op).__name__} on {v!r}")

    def e_BinOp(self, n):
        return self.binop(n.op, self.eval(n.left), self.eval(n.right))

    def binop(self, op, a, b):
        if hasattr(a, "pvc_binop"):
            r = a.pvc_binop(self, op, b, False)
            if r is not NotImplemented:
                return r
        if hasattr(b, "pvc_binop"):
            r = b.pvc_binop(self, op, a, True)
            if r is not NotImplemented:
                return r
        if isinstance(a, SMat) or isinstance(b, SMat):
            return self.models.mat_binop(self, op, a, b)
        if isinstance(op, ast.Add):
            if isinstance(a, (PyList, SSeq)) and isinstance(b, (PyList, SSeq)):
                if isinstance(a, PyList) and isinstance(b, PyList):
                    return PyList(a.items + b.items)
                return as_seq2(a).concat(as_seq2(b))
            if isinstance(a, str) and isinstance(b, str):
                return a + b
            if isinstance(a, tuple) and isinstance(b, tuple):
                return a + b
        if isinstance(op, ast.Mod) and isinstance(a, str):
            return self.models.fmt(self, [a, "%", b])
        if isinstance(op, ast.Mult) and isinstance(a, str) and isinstance(b, int):
            return a * b
        if is_numeric(a) and is_numeric(b):
            return self.arith(op, a, b)
        raise Unsupported(f"binop {type(op).__name__} on {a!r}, {b!r}")

    def arith(self, op, a, b):
        conc = not isinstance(a, SV) and not isinstance(b, SV)
        both_int = is_intlike(a) and is_intlike(b)
        if isinstance(op, ast.Add):
            if conc and both_int:
                return a + b
            return wrap(to_int(a) + to_int(b)) if both_int else SReal(z3.simplify(to_real(a) + to_real(b)))
        if isinstance(op, ast.Sub):
            if conc and both_int:
                return a - b
            return wrap(to_int(a) - to_int(b)) if both_int else SReal(z3.simplify(to_real(a) - to_real(b)))
        if isinstance(op, ast.Mult):
            if conc and both_int:
                return a * b
            return wrap(to_int(a) * to_int(b)) if both_int else SReal(z3.simplify(to_real(a) * to_real(b)))
        if isinstance(op, ast.Div):
            bz = to_real(b)
            self.raise_if(bz == 0, "ZeroDivisionError")
            return SReal(z3.simplify(to_real(a) / bz))
        if isinstance(op, ast.FloorDiv) and both_int:
            if conc:
                return a // b
            bz = to_int(b)
            self.raise_if(bz == 0, "ZeroDivisionError")
            return self.models.floordiv(self, to_int(a), bz)
        if isinstance(op, ast.Mod) and both_int:
            if conc:
                return a % b
            bz = to_int(b)
            self.raise_if(bz == 0, "ZeroDivisionError")
            return self.models.pymod(self, to_int(a), bz)
        if isinstance(op, ast.Pow):
            if conc:
                return a**b
            if isinstance(b, int) and not isinstance(b, bool) and 0 <= b <= 4:
                base = to_int(a) if both_int else to_real(a)
                r = z3.IntVal(1) if both_int else z3.RealVal(1)
                for _ in range(b):
                    r = r * base
                return wrap(r)
        raise Unsupported(f"arith {type(op).__name__} on {a!r}, {b!r}")

    def raise_if(self, cond, exc):
        """Fork: the path where `cond` holds raises `exc`."""
        if self.merge_depth:
            c = z3.simplify(cond)
            if z3.is_false(c):
                return
            self.effects.append(("raise", exc, self.cur_guard(c), []))
            return
        if self.path.branch(cond):
            raise PyRaise(exc)

    def cur_guard(self, extra=None):
        gs = list(self.guards) + list(self.alive)
        if extra is not None:
            gs.append(extra)
        return z3.And(*gs) if gs else z3.BoolVal(True)

    def e_BoolOp(self, n):
        is_and = isinstance(n.op, ast.And)
        vals = n.values
        # short-circuit evaluation, value-preserving
        cur = self.eval(vals[0])
        for nxt in vals[1:]:
            t = self.truth(cur)
            if isinstance(t, bool):
                if t == is_and:
                    cur = self.eval(nxt)
                else:
                    return cur
                continue
            if self.merge_depth:
                # both sides are evaluated; right side under the guard
                self.guards.append(t if is_and else z3.Not(t))
                try:
                    rv = self.eval(nxt)
                finally:
                    self.guards.pop()
                rt = self.truth(rv)
                rz = to_bool(rt) if not isinstance(rt, bool) else z3.BoolVal(rt)
                cur = wrap(z3.And(t, rz) if is_and else z3.Or(t, rz))
                continue
            if self.path.branch(t) == is_and:
                cur = self.eval(nxt)
            else:
                return cur
        return cur

    def e_Compare(self, n):
        left = self.eval(n.left)
        result = None
        for op, rn in zip(n.ops, n.comparators):
            right = self.eval(rn)
            r = self.compare(op, left, right)
            if result is None:
                result = r
            else:
                a = self.truth(result)
                b = self.truth(r)
                if isinstance(a, bool) and isinstance(b, bool):
                    result = a and b
                else:
                    result = wrap(z3.And(to_bool(wrap_b(a)), to_bool(wrap_b(b))))
            left = right
        return result

    def compare(self, op, a, b):
        if isinstance(op, (ast.Is, ast.IsNot)):
            r = self.identical(a, b)
            if isinstance(op, ast.IsNot):
                r = (not r) if isinstance(r, bool) else wrap(z3.Not(to_bool(r)))
            return r
        if isinstance(op, (ast.In, ast.NotIn)):
            r = self.contains(b, a)
            if isinstance(op, ast.NotIn):
                r = (not r) if isinstance(r, bool) else wrap(z3.Not(to_bool(r)))
            return r
        if isinstance(op, (ast.Eq, ast.NotEq)):
            r = self.equals(a, b)
            if isinstance(op, ast.NotEq):
                r = (not r) if isinstance(r, bool) else wrap(z3.Not(to_bool(r)))
            return r
        if hasattr(a, "pvc_compare"):
            r = a.pvc_compare(self, op, b, False)
            if r is not NotImplemented:
                return r
        if hasattr(b, "pvc_compare"):
            r = b.pvc_compare(self, op, a, True)
            if r is not NotImplemented:
                return r
        if isinstance(a, SMat) or isinstance(b, SMat):
            return self.models.mat_compare(self, op, a, b)
        if is_numeric(a) and is_numeric(b):
            if not isinstance(a, SV) and not isinstance(b, SV):
                return {ast.Lt: a < b, ast.LtE: a <= b, ast.Gt: a > b, ast.GtE: a >= b}[type(op)]
            if is_intlike(a) and is_intlike(b):
                x, y = to_int(a), to_int(b)
            else:
                x, y = to_real(a), to_real(b)
            z = {ast.Lt: x < y, ast.LtE: x <= y, ast.Gt: x > y, ast.GtE: x >= y}[type(op)]
            return wrap(z)
        if isinstance(a, tuple) and isinstance(b, tuple) and all(isinstance(x, int) for x in a + b):
            return {ast.Lt: a < b, ast.LtE: a <= b, ast.Gt: a > b, ast.GtE: a >= b}[type(op)]
        raise Unsupported(f"compare {type(op).__name__} on {a!r}, {b!r}")

    def identical(self, a, b):
        if a is None or b is None:
            if a is None and b is None:
                return True
            other = b if a is None else a
            if hasattr(other, "pvc_is_none"):
                return other.pvc_is_none(self)
            return False
        if isinstance(a, (SObj, SMat, PyList, PyDict)) or isinstance(b, (SObj, SMat, PyList, PyDict)):
            if isinstance(a, SMat) and isinstance(b, SMat) and a.ident is not None:
                return a.ident is b.ident
            return a is b
        if isinstance(a, bool) or isinstance(b, bool):
            return a is b
        return self.equals(a, b)

    def equals(self, a, b):
        if hasattr(a, "pvc_eq"):
            r = a.pvc_eq(self, b)
            if r is not NotImplemented:
                return r
        if hasattr(b, "pvc_eq"):
            r = b.pvc_eq(self, a)
            if r is not NotImplemented:
                return r
        if a is None or b is None:
            return a is None and b is None
        if isinstance(a, bool) and isinstance(b, bool):
            return a == b
        if isinstance(a, (SBool, bool)) and isinstance(b, (SBool, bool)):
            return wrap(to_bool(a) == to_bool(b))
        if is_numeric(a) and is_numeric(b):
            if not isinstance(a, SV) and not isinstance(b, SV):
                return a == b
            if is_intlike(a) and is_intlike(b):
                return wrap(to_int(a) == to_int(b))
            return wrap(to_real(a) == to_real(b))
        if isinstance(a, str) and isinstance(b, str):
            return a == b
        if isinstance(a, SOpaque) and isinstance(b, SOpaque) and a.z.sort() == b.z.sort():
            return wrap(a.z == b.z)
        if isinstance(a, (str, SOpaque)) and isinstance(b, (str, SOpaque)):
            return self.models.str_eq(self, a, b)
        if isinstance(a, tuple) and isinstance(b, tuple):
            if len(a) != len(b):
                return False
            conj = []
            for x, y in zip(a, b):
                r = self.equals(x, y)
                if r is False:
                    return False
                if r is not True:
                    conj.append(to_bool(r))
            return wrap(z3.And(*conj)) if conj else True
        if isinstance(a, (SObj, ClassV, ExcClass, NTClass, Closure)) or isinstance(b, (SObj, ClassV, ExcClass, NTClass, Closure)):
            if isinstance(a, SObj) and isinstance(b, SObj):
                eqm = self.find_method(a, "__eq__")
                if eqm is not None:
                    return self.call(eqm, [b], {})
            return a is b
        if type(a) != type(b) and not (isinstance(a, SV) or isinstance(b, SV)):
            return False
        raise Unsupported(f"== on {a!r}, {b!r}")

    def contains(self, container, item):
        if hasattr(container, "pvc_contains"):
            return container.pvc_contains(self, item)
        if isinstance(container, (PyList, tuple)):
            items = container.items if isinstance(container, PyList) else container
            disj = []
            for x in items:
                r = self.equals(x, item)
                if r is True:
                    return True
                if r is not False:
                    disj.append(to_bool(r))
            return wrap(z3.Or(*disj)) if disj else False
        if isinstance(container, SSeq):
            return self.models.seq_contains(self, container, item)
        if isinstance(container, str) and isinstance(item, str):
            return item in container
        raise Unsupported(f"`in` on {container!r}")

    def truth(self, v):
        """Python truthiness -> bool | z3 Bool."""
        if v is None:
            return False
        if isinstance(v, bool):
            return v
        if isinstance(v, SBool):
            return v.z
        if isinstance(v, (int, float)):
            return v != 0
        if isinstance(v, SInt):
            return v.z != 0
        if isinstance(v, SReal):
            return v.z != 0
        if isinstance(v, str):
            return len(v) > 0
        if isinstance(v, (tuple, list)):
            return len(v) > 0
        if isinstance(v, PyList):
            return len(v.items) > 0
        if hasattr(v, "pvc_truth"):
            return v.pvc_truth(self)
        if isinstance(v, SSeq):
            return z3.simplify(v.len_z() > 0)
        if isinstance(v, SMat):
            return self.models.mat_truth(self, v)
        if isinstance(v, (SObj, ClassV, Closure, BoundMethod, Builtin, NTClass, ModuleV)):
            if isinstance(v, SObj):
                lm = self.find_method(v, "__len__")
                if lm is not None:
                    ln = self.call(lm, [], {})
                    return self.truth(ln)
            return True
        if isinstance(v, SOpaque):
            return True
        raise Unsupported(f"truth of {v!r}")

    # ----- attribute / item access ---------------------------------------
    def find_method(self, obj, name):
        if isinstance(obj, SObj) and isinstance(obj.cls, ClassV):
            m = obj.cls.lookup(name)
            if isinstance(m, Closure):
                return BoundMethod(obj, m)
        return None

    def getattr(self, obj, name):
        if hasattr(obj, "pvc_getattr"):
            r = obj.pvc_getattr(self, name)
            if r is not NotImplemented:
                return r
        if isinstance(obj, SObj):
            if name in obj.fields:
                return obj.fields[name]
            if isinstance(obj.cls, ClassV):
                m = self.class_attr(obj.cls, name)
                if isinstance(m, Closure):
                    if m.kind == "staticmethod":
                        return m
                    if m.kind == "classmethod":
                        return BoundMethod(obj.cls, m)
                    if m.kind == "property":
                        return self.call(BoundMethod(obj, m), [], {})
                    return BoundMethod(obj, m)
                if m is not None:
                    return m
            key = f"{obj.cls_name()}.{name}"
            if key in self.contracts:
                return BoundMethod(obj, OpaqueMethod(key))
            raise Unsupported(f"attribute {name!r} of {obj!r}")
        if isinstance(obj, ClassV):
            m = self.class_attr(obj, name)
            if m is None:
                if name == "__name__":
                    return obj.name
                raise Unsupported(f"class attribute {obj.name}.{name}")
            if isinstance(m, Closure) and m.kind == "classmethod":
                return BoundMethod(obj, m)
            return m
        if isinstance(obj, ModuleV):
            return self.module_attr(obj, name)
        if isinstance(obj, NTInst):
            if name in obj.ntc.fields:
                return obj.get(name)
        if isinstance(obj, SMat):
            return self.models.mat_getattr(self, obj, name)
        if isinstance(obj, (PyList, PyDict)):
            return obj.method(self, name)
        if isinstance(obj, str):
            return self.models.str_method(self, obj, name)
        if isinstance(obj, SOpaque):
            return self.models.opaque_getattr(self, obj, name)
        if isinstance(obj, SSeq):
            return self.models.seq_method(self, obj, name)
        raise Unsupported(f"getattr {name!r} on {obj!r}")

    def setattr(self, obj, name, value):
        if hasattr(obj, "pvc_setattr"):
            return obj.pvc_setattr(self, name, value)
        if isinstance(obj, SObj):
            if self.merge_depth:
                raise Unsupported("attribute store inside summarised loop body")
            obj.fields[name] = value
            return
        raise Unsupported(f"setattr on {obj!r}")

    def getitem(self, base, idx):
        if hasattr(base, "pvc_getitem"):
            return base.pvc_getitem(self, idx)
        if isinstance(base, (tuple, PyList)):
            items = base.items if isinstance(base, PyList) else base
            if isinstance(idx, SliceV):
                lo, hi, st = idx.lo, idx.hi, idx.step
                if all(x is None or isinstance(x, int) for x in (lo, hi, st)):
                    r = items[slice(lo, hi, st)]
                    return PyList(list(r)) if isinstance(base, PyList) else tuple(r)
                return self.seq_slice(as_seq2(base), idx)
            if isinstance(idx, int):
                if not -len(items) <= idx < len(items):
                    raise PyRaise("IndexError")
                return items[idx]
            if isinstance(idx, SInt):
                return self.seq_index(as_seq2(base), idx)
        if isinstance(base, SSeq):
            if isinstance(idx, SliceV):
                return self.seq_slice(base, idx)
            return self.seq_index(base, idx)
        if isinstance(base, SMat):
            return self.models.mat_getitem(self, base, idx)
        if isinstance(base, SObj):
            m = self.find_method(base, "__getitem__")
            if m is not None:
                return self.call(m, [idx], {})
        raise Unsupported(f"getitem {base!r}[{idx!r}]")

    def seq_index(self, s, idx):
        iz = to_int(idx)
        n = s.len_z()
        # negative indices: only concrete -k supported
        if isinstance(idx, int) and idx < 0:
            iz = n + idx
        self.raise_if(z3.Or(iz < 0, iz >= n), "IndexError")
        return s.at(iz)

    def seq_slice(self, s, sl):
        if sl.step is not None:
            raise Unsupported("slice step")
        n = s.len_z()

        def clamp(v, default):
            if v is None:
                return default
            vz = to_int(v)
            if isinstance(v, int) and v < 0:
                vz = n + v
            # python clamps slice bounds into [0, n]
            return z3.If(vz < 0, z3.IntVal(0), z3.If(vz > n, n, vz))

        lo = z3.simplify(clamp(sl.lo, z3.IntVal(0)))
        hi = z3.simplify(clamp(sl.hi, n))
        hi2 = z3.simplify(z3.If(hi < lo, lo, hi))
        return s.slice(wrap(lo), wrap(hi2))

    def setitem(self, base, idx, value):
        if hasattr(base, "pvc_setitem"):
            return base.pvc_setitem(self, idx, value)
        if isinstance(base, SMat):
            return self.models.mat_setitem(self, base, idx, value)
        if isinstance(base, PyList) and isinstance(idx, int):
            if self.merge_depth:
                raise Unsupported("list store in summarised loop")
            base.items[idx] = value
            return
        raise Unsupported(f"setitem {base!r}[{idx!r}]")

    # ----- calls ----------------------------------------------------------
    def e_Call(self, n):
        fn = self.eval(n.func)
        args = []
        for a in n.args:
            if isinstance(a, ast.Starred):
                v = self.eval(a.value)
                args.append(Splat(v))
            else:
                args.append(self.eval(a))
        kwargs = {}
        for kw in n.keywords:
            if kw.arg is None:
                v = self.eval(kw.value)
                if isinstance(v, PyDict) and all(isinstance(k, str) for k in v.d):
                    kwargs.update(v.d)
                else:
                    kwargs.setdefault("**", []).append(v)
            else:
                kwargs[kw.arg] = self.eval(kw.value)
        args = self.flatten_splats(args)
        return self.call(fn, args, kwargs)

    def flatten_splats(self, args):
        """Expand *x for concrete sequences; symbolic-length splats stay as Splat markers."""
        out = []
        for a in args:
            if isinstance(a, Splat):
                v = a.value
                if isinstance(v, (PyList, tuple)):
                    out.extend(v.items if isinstance(v, PyList) else v)
                    continue
                try:
                    sv = self.iter_seq(v)
                except Unsupported:
                    raise
                if isinstance(sv, (PyList, tuple, list)):
                    out.extend(sv.items if isinstance(sv, PyList) else sv)
                else:
                    out.append(Splat(sv))
            else:
                out.append(a)
        return out

    def call(self, fn, args, kwargs):
        if isinstance(fn, Builtin):
            return fn.fn(self, args, kwargs)
        if isinstance(fn, BoundMethod):
            if isinstance(fn.fn, OpaqueMethod):
                return self.apply_contract(fn.fn.key, [fn.self_] + list(args), kwargs)
            if isinstance(fn.fn, Builtin):
                return fn.fn.fn(self, [fn.self_] + list(args), kwargs)
            return self.call_closure(fn.fn, [fn.self_] + list(args), kwargs)
        if isinstance(fn, Closure):
            return self.call_closure(fn, args, kwargs)
        if isinstance(fn, ClassV):
            return self.instantiate(fn, args, kwargs)
        if isinstance(fn, NTClass):
            vals = list(args) + [kwargs[f] for f in fn.fields[len(args) :]]
            return fn.make(vals)
        if isinstance(fn, ExcClass):
            return ExcV(fn.name)
        if hasattr(fn, "pvc_call"):
            return fn.pvc_call(self, args, kwargs)
        if isinstance(fn, SObj):
            m = self.find_method(fn, "__call__")
            if m is not None:
                return self.call(m, args, kwargs)
        raise Unsupported(f"call of {fn!r}")

    def instantiate(self, cls, args, kwargs):
        if cls.name in EXC_BASES:
            return ExcV(cls.name)
        key = cls.qualname + ".__new__"
        if key in self.contracts:
            return self.apply_contract(key, [cls] + list(args), kwargs)
        obj = SObj(cls, {}, self.path.names.fresh(cls.name.lower()))
        init = cls.lookup("__init__")
        if isinstance(init, Closure):
            self.call_closure(init, [obj] + list(args), kwargs)
        elif any(d.startswith("dataclass") for c in [cls] + [b for b in cls.bases if isinstance(b, ClassV)] for d in getattr(c, "decorator_names", [])):
            from .models import dataclass_fields

            names = dataclass_fields(self, cls)
            vals = dict(zip(names, args))
            for k, v in kwargs.items():
                if k not in names:
                    raise PyRaise("TypeError")
                vals[k] = v
            for nm in names:
                if nm in vals:
                    obj.fields[nm] = vals[nm]
                else:
                    d = self.class_attr(cls, nm)
                    if d is None:
                        raise PyRaise("TypeError")
                    obj.fields[nm] = d
        return obj

    def call_closure(self, fn, args, kwargs):
        q = fn.qualname
        if q in self.contracts:
            check_signature(q, fn)
            return self.apply_contract(q, args, kwargs)
        nested = fn.enclosing is not None or q == "<lambda>"
        if nested or q in self.inline:
            return self.run_closure(fn, args, kwargs)
        # a PRIVATE helper of the repository without a contract (typically extracted by a refactor): interpreted in place, at most
        # three levels deep, and recorded (evidence: dropped_by_extraction lists it) - exact, so it can only add precision
        short = q.rsplit(".", 1)[-1].rsplit(":", 1)[-1]
        depth = getattr(self, "_auto_inline_depth", 0)
        if short.startswith("_") and not short.startswith("__") and depth < 3 and hasattr(fn, "node"):
            self.dropped.add(f"contract-less private helper interpreted in place: {q}")
            self._auto_inline_depth = depth + 1
            try:
                return self.run_closure(fn, args, kwargs)
            finally:
                self._auto_inline_depth = depth
        raise Unsupported(f"no contract for callee {q}")

    def apply_contract(self, key, args, kwargs):
        c = self.contracts[key]
        return c.apply(self, list(args), dict(kwargs))

    def bind_params(self, fn, args, kwargs):
        a = fn.node.args
        params = [p.arg for p in a.posonlyargs + a.args]
        defaults = a.defaults
        loc = {}
        args = list(args)
        if any(isinstance(x, Splat) for x in args):
            if a.vararg is None:
                raise Unsupported("symbolic-length *args into fixed parameters")
        npos = 0
        for i, p in enumerate(params):
            if i < len(args) and not isinstance(args[i], Splat):
                loc[p] = args[i]
                npos = i + 1
            else:
                break
        rest = args[npos:]
        kwargs = dict(kwargs)
        star2 = kwargs.pop("**", None)
        for i, p in enumerate(params[npos:], start=npos):
            if p in kwargs:
                loc[p] = kwargs.pop(p)
            else:
                di = i - (len(params) - len(defaults))
                if di >= 0:
                    loc[p] = self.eval_default(fn, defaults[di])
                else:
                    raise PyRaise("TypeError", f"missing argument {p}")
        if a.vararg is not None:
            loc[a.vararg.arg] = self.pack_varargs(rest)
        elif rest:
            raise PyRaise("TypeError", "too many positional arguments")
        for p, d in zip(a.kwonlyargs, a.kw_defaults):
            if p.arg in kwargs:
                loc[p.arg] = kwargs.pop(p.arg)
            elif d is not None:
                loc[p.arg] = self.eval_default(fn, d)
            else:
                raise PyRaise("TypeError", f"missing keyword-only argument {p.arg}")
        if a.kwarg is not None:
            if star2:
                if kwargs or len(star2) > 1:
                    raise Unsupported("mixing symbolic ** with explicit keywords")
                loc[a.kwarg.arg] = star2[0]
            else:
                loc[a.kwarg.arg] = PyDict(dict(kwargs))
        elif kwargs or star2:
            if star2 and all(self.is_empty_dict(d) for d in star2) and not kwargs:
                pass
            else:
                raise PyRaise("TypeError", f"unexpected keyword arguments {list(kwargs)}")
        return loc

    def is_empty_dict(self, d):
        return isinstance(d, PyDict) and not d.d

    def pack_varargs(self, rest):
        if not any(isinstance(x, Splat) for x in rest):
            return tuple(rest)
        seq = None
        buf = []

        def flush():
            nonlocal seq, buf
            if buf:
                s = SSeq.from_list(buf)
                seq = s if seq is None else seq.concat(s)
                buf = []

        for x in rest:
            if isinstance(x, Splat):
                flush()
                s = x.value
                seq = s if seq is None else seq.concat(s)
            else:
                buf.append(x)
        flush()
        return seq

    def eval_default(self, fn, node):
        return self.eval_in(node, fn.module, fn.enclosing)

    def run_closure(self, fn, args, kwargs):
        loc = self.bind_params(fn, args, kwargs)
        fr = Frame(fn, loc, fn.enclosing)
        if isinstance(fn.node, ast.Lambda):
            self.frames.append(fr)
            try:
                return self.eval(fn.node.body)
            finally:
                self.frames.pop()
        if fn.is_generator:
            fr.yields = []

            def run_generator():
                self.frames.append(fr)
                try:
                    try:
                        self.exec_block(fn.node.body)
                    except ReturnSignal:
                        pass
                finally:
                    self.frames.pop()
                return self.finish_generator(fr).seq

            return GenV(None, run_generator)
        self.frames.append(fr)
        try:
            try:
                self.exec_block(fn.node.body)
                rv = None
            except ReturnSignal as r:
                rv = r.value
        finally:
            self.frames.pop()
        return rv

    def finish_generator(self, fr):
        segs = fr.yields
        if all(isinstance(s, list) for s in segs):
            flat = [x for s in segs for x in s]
            return GenV(PyList(flat))
        seq = None
        for s in segs:
            sv = SSeq.from_list(s) if isinstance(s, list) else s
            seq = sv if seq is None else seq.concat(sv)
        return GenV(seq)

    # ----- statements -----------------------------------------------------
    def exec_block(self, stmts):
        for s in stmts:
            self.exec(s)

    def exec(self, node):
        m = getattr(self, "s_" + type(node).__name__, None)
        if m is None:
            raise Unsupported(f"statement {type(node).__name__}")
        return m(node)

    def s_Pass(self, n):
        pass

    def s_Expr(self, n):
        if isinstance(n.value, ast.Constant):
            return  # docstring
        if isinstance(n.value, ast.Call) and isinstance(n.value.func, ast.Name) and n.value.func.id == "print":
            self.dropped.add("print calls")
            return
        if isinstance(n.value, ast.Call) and isinstance(n.value.func, ast.Attribute) and n.value.func.attr in ("warning", "info", "debug") and isinstance(n.value.func.value, ast.Name) and n.value.func.value.id == "logger":
            self.dropped.add("logging calls")
            return
        self.eval(n.value)

    def s_Return(self, n):
        raise ReturnSignal(self.eval(n.value) if n.value is not None else None)

    def s_Assign(self, n):
        v = self.eval(n.value)
        for t in n.targets:
            self.assign(t, v)

    def s_AnnAssign(self, n):
        if n.value is not None:
            self.assign(n.target, self.eval(n.value))

    def s_AugAssign(self, n):
        cur = self.eval(_as_load(n.target))
        if isinstance(cur, SMat):
            # numpy: `a += b` updates the array object IN PLACE - every alias (e.g. an array stored in the filter) sees it
            if self.merge_depth or not isinstance(n.op, (ast.Add, ast.Sub)):
                raise Unsupported("in-place array update (aliasing)")
            new = self.binop(n.op, cur, self.eval(n.value))
            if not isinstance(new, SMat):
                raise Unsupported("in-place array update with a non-array result")
            from .np_model import shape_eq

            self.raise_if(z3.Not(shape_eq((new.rows(), new.cols()), (cur.rows(), cur.cols()))), "ValueError")
            cur.term, cur.cells = new.term, new.cells
            return
        if isinstance(cur, PyList) and isinstance(n.op, ast.Add):
            ext = self.eval(n.value)
            return self.call(cur.method(self, "extend"), [ext], {})
        v = self.binop(n.op, cur, self.eval(n.value))
        self.assign(n.target, v)

    def assign(self, target, v):
        if isinstance(target, ast.Name):
            self.frame.locals[target.id] = v
        elif isinstance(target, (ast.Tuple, ast.List)):
            vals = self.unpack(v, len(target.elts))
            for t, x in zip(target.elts, vals):
                self.assign(t, x)
        elif isinstance(target, ast.Attribute):
            self.setattr(self.eval(target.value), target.attr, v)
        elif isinstance(target, ast.Subscript):
            self.setitem(self.eval(target.value), self.eval_index(target.slice), v)
        else:
            raise Unsupported(f"assignment target {type(target).__name__}")

    def unpack(self, v, n):
        if isinstance(v, (tuple, list)):
            if len(v) != n:
                raise PyRaise("ValueError")
            return list(v)
        if isinstance(v, PyList):
            if len(v.items) != n:
                raise PyRaise("ValueError")
            return list(v.items)
        if hasattr(v, "pvc_unpack"):
            return v.pvc_unpack(self, n)
        if isinstance(v, (SSeq, GenV)):
            s = v.seq if isinstance(v, GenV) else v
            if isinstance(s, PyList):
                return self.unpack(s, n)
            self.raise_if(s.len_z() != n, "ValueError")
            return [s.at(z3.IntVal(i)) for i in range(n)]
        raise Unsupported(f"unpack of {v!r}")

    def s_If(self, n):
        c = self.truth(self.eval(n.test))
        if isinstance(c, bool):
            return self.exec_block(n.body if c else n.orelse)
        if self.merge_depth:
            return self.merged_if(c, n.body, n.orelse)
        self.exec_block(n.body if self.path.branch(c) else n.orelse)

    def s_Assert(self, n):
        c = self.truth(self.eval(n.test))
        if isinstance(c, bool):
            if not c:
                raise PyRaise("AssertionError")
            return
        self.raise_if(z3.Not(c), "AssertionError")

    def s_Raise(self, n):
        if n.exc is None:
            raise self._reraise
        v = self.eval_exc(n.exc)
        if self.merge_depth:
            self.effects.append(("raise", v, self.cur_guard(), []))
            raise _MergeStop()
        raise PyRaise(v)

    def eval_exc(self, node):
        # exception constructor arguments (messages) are not evaluated: dropped by extraction
        if isinstance(node, ast.Call):
            f = self.eval(node.func)
            self.dropped.add("exception message arguments")
        else:
            f = self.eval(node)
        if isinstance(f, ExcClass):
            return f.name
        if isinstance(f, ExcV):
            return f.name
        if isinstance(f, ClassV) and f.name in EXC_BASES:
            init = f.methods.get("__init__") if hasattr(f, "methods") else None
            if isinstance(node, ast.Call) and isinstance(init, Closure):
                # an exception class of the repository with its OWN constructor: the constructor runs (and may itself raise)
                args = [self.eval(a) for a in node.args]
                kwargs = {k.arg: self.eval(k.value) for k in node.keywords if k.arg}
                obj = SObj(f, {}, self.path.names.fresh(f.name.lower()))
                self.run_closure(init, [obj] + args, kwargs)
            return f.name
        raise Unsupported(f"raise of {f!r}")

    def s_Try(self, n):
        if n.finalbody:
            if self.merge_depth:
                raise Unsupported("try/finally inside a summarised loop")
            inner = ast.Try(body=n.body, handlers=n.handlers, orelse=n.orelse, finalbody=[])
            try:
                if n.handlers or n.orelse:
                    self.s_Try(inner)
                else:
                    self.exec_block(n.body)
            except (PyRaise, ReturnSignal, BreakSignal, ContinueSignal):
                self.exec_block(n.finalbody)
                raise
            self.exec_block(n.finalbody)
            return
        try:
            self.exec_block(n.body)
        except PyRaise as e:
            for h in n.handlers:
                names = self.handler_names(h)
                if names is None or any(exc_is_subclass(e.exc_type, t) for t in names):
                    if h.name:
                        self.frame.locals[h.name] = ExcV(e.exc_type)
                    old = getattr(self, "_reraise", None)
                    self._reraise = e
                    try:
                        self.exec_block(h.body)
                    finally:
                        self._reraise = old
                    return
            raise
        else:
            self.exec_block(n.orelse)

    def handler_names(self, h):
        if h.type is None:
            return None
        t = self.eval(h.type)
        ts = t if isinstance(t, tuple) else (t,)
        out = []
        for x in ts:
            if isinstance(x, (ExcClass, ExcV)):
                out.append(x.name)
            elif isinstance(x, ClassV):
                out.append(x.name)
            else:
                raise Unsupported("except clause type")
        return out

    def s_Continue(self, n):
        if self.loop_kinds and self.loop_kinds[-1][0] == "concrete":
            if self.merge_depth and len(self.guards) != self.loop_kinds[-1][1]:
                raise Unsupported("guarded continue of an unrolled loop nested in a summarised loop")
            raise ContinueSignal()
        if self.merge_depth:
            raise _MergeContinue()
        raise ContinueSignal()

    def s_Break(self, n):
        if self.loop_kinds and self.loop_kinds[-1][0] == "concrete":
            if self.merge_depth and len(self.guards) != self.loop_kinds[-1][1]:
                raise Unsupported("guarded break of an unrolled loop nested in a summarised loop")
            raise BreakSignal()
        raise Unsupported("break inside summarised loop")

    def s_FunctionDef(self, n):
        f = self.frame
        q = (f.closure.qualname if f.closure else "") + ".<locals>." + n.name
        self.frame.locals[n.name] = Closure(n, self.cur_module(), self.frame, q)

    def s_ClassDef(self, n):
        f = self.frame
        q = (f.closure.qualname if f.closure else "") + ".<locals>." + n.name
        self.frame.locals[n.name] = self.make_class(n, self.cur_module(), self.frame, q)

    def s_Import(self, n):
        raise Unsupported("local import")

    def s_Delete(self, n):
        raise Unsupported("del")

    # yields ---------------------------------------------------------------
    def gen_frame(self):
        for f in reversed(self.frames):
            if f.yields is not None:
                return f
            if f.closure is not None and not getattr(f, "is_comp", False):
                break
        raise Unsupported("yield outside generator")

    def e_Yield(self, n):
        v = self.eval(n.value) if n.value is not None else None
        self.emit_yield(v)
        return None

    def emit_yield(self, v):
        if self.merge_depth:
            self.effects.append(("yield", v, self.cur_guard()))
            return
        ys = self.gen_frame().yields
        if ys and isinstance(ys[-1], list):
            ys[-1].append(v)
        else:
            ys.append([v])

    def e_YieldFrom(self, n):
        v = self.eval(n.value)
        s = self.iter_seq(v)
        if self.merge_depth:
            raise Unsupported("yield from inside summarised loop")
        ys = self.gen_frame().yields
        if isinstance(s, PyList):
            for x in s.items:
                self.emit_yield(x)
        else:
            ys.append(s)
        return None

    # iteration ------------------------------------------------------------
    def iter_seq(self, v):
        """Normalise an iterable into PyList (concrete length) or SSeq."""
        if type(v).__name__ == "OpaqueMsg":
            raise Unsupported("iteration over a message-only value outside a comprehension")
        if isinstance(v, GenV):
            return v.seq
        if isinstance(v, PyList):
            return v
        if isinstance(v, (tuple, list)):
            return PyList(list(v))
        if isinstance(v, range):
            return PyList(list(v))
        if isinstance(v, SSeq):
            return v
        if isinstance(v, PyDict):
            return PyList(list(v.d.keys()))
        if hasattr(v, "pvc_iter"):
            return self.iter_seq(v.pvc_iter(self))
        if isinstance(v, SObj):
            m = self.find_method(v, "__iter__")
            if m is not None:
                return self.iter_seq(self.call(m, [], {}))
        if isinstance(v, SMat):
            return self.models.mat_iter(self, v)
        raise Unsupported(f"iteration over {v!r}")

    def concrete_iter(self, v, what):
        s = self.iter_seq(v)
        if isinstance(s, PyList):
            return list(s.items)
        raise Unsupported(f"symbolic-length {what}")

    def s_For(self, n):
        ordinal = self.frame.loop_ordinal
        self.frame.loop_ordinal += 1
        it = self.iter_seq(self.eval(n.iter))
        if n.orelse and not isinstance(it, PyList):
            raise Unsupported("for/else over a symbolic sequence")
        spec = None
        if self.frame.closure is not None:
            q = self.frame.closure.qualname
            spec = self.loop_specs.get((q, ordinal))
            if spec is None:
                # loop specs may also be keyed by a fragment of the iterable's source text (robust against inserted/removed loops)
                src = ast.unparse(n.iter)
                for (qq, key), sp in self.loop_specs.items():
                    if qq == q and isinstance(key, str) and key in src:
                        spec = sp
                        break
        if isinstance(it, PyList):
            # concrete iterable: exact unrolling (complete), even when an invariant is available
            self.loop_kinds.append(("concrete", len(self.guards)))
            broke = False
            try:
                for x in list(it.items):
                    self.assign(n.target, x)
                    try:
                        self.exec_block(n.body)
                    except ContinueSignal:
                        continue
                    except BreakSignal:
                        broke = True
                        break
            finally:
                self.loop_kinds.pop()
            if n.orelse and not broke:
                self.exec_block(n.orelse)  # for ... else: runs when the loop was not left by `break`
            return
        if spec is not None:
            return spec.run(self, n, as_seq2(it))
        return self.summarise_loop(n.target, [n.body], as_seq2(it), kind="for")

    def s_While(self, n):
        raise Unsupported("while loop")

    # ----- comprehension / map rule --------------------------------------
    def e_ListComp(self, n):
        r = self.comprehension(n.generators, lambda: self.eval(n.elt))
        return r

    def e_GeneratorExp(self, n):
        return GenV(self.comprehension(n.generators, lambda: self.eval(n.elt)))

    def e_SetComp(self, n):
        r = self.comprehension(n.generators, lambda: self.eval(n.elt))
        return self.models.make_set(self, r)

    def e_DictComp(self, n):
        r = self.comprehension(n.generators, lambda: (self.eval(n.key), self.eval(n.value)))
        return self.models.dict_from_pairs(self, r)

    def comprehension(self, gens, elt_thunk):
        if len(gens) != 1:
            return self.comprehension_nested(gens, elt_thunk)
        g = gens[0]
        itv = self.eval(g.iter)
        if type(itv).__name__ == "OpaqueMsg":
            return itv  # message text only
        if type(itv).__name__ == "OpaqueSet":
            return itv.pvc_iter(self)
        if hasattr(itv, "pvc_comprehension"):
            return itv.pvc_comprehension(self, g, elt_thunk)
        it = self.iter_seq(itv)
        fr = Frame(None, {}, self.frame)
        fr.is_comp = True
        fr.module = None
        self.frames.append(fr)
        try:
            if isinstance(it, PyList):
                out = []
                for x in it.items:
                    self.assign(g.target, x)
                    keep = True
                    for cond in g.ifs:
                        c = self.truth(self.eval(cond))
                        if not isinstance(c, bool):
                            c = self.path.branch(c) if not self.merge_depth else _unsup("symbolic filter in merged comprehension")
                        if not c:
                            keep = False
                            break
                    if keep:
                        out.append(elt_thunk())
                return PyList(out)
            if g.ifs:
                raise Unsupported("filter in comprehension over symbolic sequence")
            idx = self.path.fresh_int("k")
            n = it.len_z()
            saved = len(self.path.pc)
            self.path.pc.append(z3.And(idx >= 0, idx < n))
            self.merge_depth += 1
            old_eff, self.effects = self.effects, []
            try:
                self.assign(g.target, it.at(idx))
                tmpl = elt_thunk()
                eff = self.effects
            finally:
                self.merge_depth -= 1
                self.effects = old_eff
                del self.path.pc[saved:]
            if eff:
                self.lift_raises(eff, idx, n)
            return SSeq(it.length, lambda j, tmpl=tmpl, idx=idx: subst(tmpl, [(idx, j)]), "comp")
        finally:
            self.frames.pop()

    def comprehension_nested(self, gens, elt_thunk):
        # only concrete nests are supported
        def rec(i):
            if i == len(gens):
                return [elt_thunk()]
            g = gens[i]
            it = self.iter_seq(self.eval(g.iter))
            if not isinstance(it, PyList):
                raise Unsupported("nested comprehension over symbolic sequence")
            out = []
            for x in it.items:
                self.assign(g.target, x)
                ok = True
                for cond in g.ifs:
                    c = self.truth(self.eval(cond))
                    if not isinstance(c, bool):
                        raise Unsupported("symbolic filter in nested comprehension")
                    if not c:
                        ok = False
                        break
                if ok:
                    out.extend(rec(i + 1))
            return out

        fr = Frame(None, {}, self.frame)
        fr.is_comp = True
        fr.module = None
        self.frames.append(fr)
        try:
            return PyList(rec(0))
        finally:
            self.frames.pop()

    def lift_raises(self, effects, idx, n):
        """Early-exit rule for raise effects of a summarised body: the loop raises iff
        some iteration does.  Forks: (witness iteration raises) / (no iteration raises).
        Raise effects of nested summarised loops carry their inner loop indices."""
        raises = [e for e in effects if e[0] == "raise"]
        if not raises:
            return
        P = self.path
        if self.merge_depth:
            for _, exc, g, inner in raises:
                self.effects.append(("raise", exc, z3.And(self.cur_guard(), g), list(inner) + [(idx, n)]))
            return
        if P.choose():
            # some iteration raises: pick which raise site (disjunction over sites), with witness indices
            for site, (_, exc, g, inner) in enumerate(raises):
                last = site == len(raises) - 1
                if last or P.choose():
                    pairs = []
                    conds = []
                    for (ix, nn) in list(inner) + [(idx, n)]:
                        w = P.fresh_int("w")
                        pairs.append((ix, w))
                    for (ix, nn), (_, w) in zip(list(inner) + [(idx, n)], pairs):
                        nnz = z3.substitute(nn, *pairs) if z3.is_expr(nn) else z3.IntVal(nn)
                        conds.append(z3.And(w >= 0, w < nnz))
                    P.assume_checked(z3.And(*conds, z3.substitute(g, *pairs)))
                    raise PyRaise(exc)
            raise Infeasible()
        for _, exc, g, inner in raises:
            loops = list(inner) + [(idx, n)]
            pairs = [(ix, z3.Int(P.names.fresh("j"))) for ix, _ in loops]
            rng = [z3.And(j >= 0, j < (z3.substitute(nn, *pairs) if z3.is_expr(nn) else nn)) for (_, nn), (_, j) in zip(loops, pairs)]
            body = z3.substitute(g, *pairs)
            P.facts.append(z3.ForAll([j for _, j in pairs], z3.Implies(z3.And(*rng), z3.Not(body))))
        P.noraise.append((idx, n, [g for _, _, g, _ in raises]))

    def replace_object(self, old, new):
        """In-place mutation of a python list/dict that became symbolic: rebind every reference reachable from the frames."""
        seen = set()

        def walk(v, depth):
            if depth > 6 or id(v) in seen:
                return
            seen.add(id(v))
            if isinstance(v, SObj):
                for k, x in list(v.fields.items()):
                    if x is old:
                        v.fields[k] = new
                    else:
                        walk(x, depth + 1)
            elif isinstance(v, PyList):
                for k, x in enumerate(v.items):
                    if x is old:
                        v.items[k] = new
                    else:
                        walk(x, depth + 1)
            elif isinstance(v, PyDict):
                for k, x in list(v.d.items()):
                    if x is old:
                        v.d[k] = new
                    else:
                        walk(x, depth + 1)
            elif isinstance(v, (tuple, list)):
                for x in v:
                    walk(x, depth + 1)

        for fr in self.frames:
            f = fr
            while f is not None:
                for k, x in list(f.locals.items()):
                    if x is old:
                        f.locals[k] = new
                    else:
                        walk(x, 0)
                f = f.enclosing

    # ----- loop summarisation (map rule) -----------------------------------
    def summarise_loop(self, target, bodies, it, kind):
        """Execute the loop body once at a fresh symbolic index with if-conversion,
        and turn its effects into closed forms (lambda-sequences / matrix cells)."""
        body = bodies[0]
        idx = self.path.fresh_int("i")
        n = it.len_z()
        assigned = _assigned_names(body)
        fr = self.frame
        saved_locals = dict(fr.locals)
        for name in assigned:
            if name not in _target_names(target):
                fr.locals[name] = _UNBOUND if name not in saved_locals else _Carried(name, saved_locals[name])
        saved_pc = len(self.path.pc)
        self.path.pc.append(z3.And(idx >= 0, idx < n))
        self.merge_depth += 1
        old_eff, self.effects = self.effects, []
        old_guards, self.guards = self.guards, []
        old_alive, self.alive = self.alive, []
        self.loop_kinds.append(("summary",))
        self.loop_stack = getattr(self, "loop_stack", []) + [(idx, n)]
        try:
            self.assign(target, it.at(idx))
            try:
                self.exec_block(body)
            except _MergeContinue:
                pass
            except _MergeStop:
                pass
            eff = self.effects
        finally:
            self.merge_depth -= 1
            self.effects = old_eff
            self.guards = old_guards
            self.alive = old_alive
            self.loop_kinds.pop()
            self.loop_stack = self.loop_stack[:-1]
            del self.path.pc[saved_pc:]
            # python keeps the value of the LAST iteration in variables assigned by the body: value(idx := n-1) when n > 0,
            # the previous value otherwise.  Values that cannot be expressed that way are poisoned (reading them is unsupported).
            body_locals = dict(fr.locals)
            for name in assigned | _target_names(target):
                last = body_locals.get(name, _UNBOUND)
                prev = saved_locals.get(name, _UNBOUND)
                newv = _UNBOUND
                if last is not _UNBOUND and not isinstance(last, (_Carried,)) and not isinstance(last, Closure):
                    try:
                        at_last = subst(last, [(idx, n - 1)])
                        if prev is _UNBOUND or isinstance(prev, _Carried):
                            newv = _PostLoop(at_last, n, name)
                        else:
                            newv = merge_values(n > 0, at_last, prev)
                    except Unsupported:
                        newv = _Poison(name)
                    except Exception:
                        newv = _Poison(name)
                elif prev is not _UNBOUND:
                    newv = prev
                if newv is _UNBOUND:
                    fr.locals.pop(name, None)
                else:
                    fr.locals[name] = newv
        self.apply_effects(eff, idx, n)

    def apply_effects(self, eff, idx, n):
        if self.merge_depth:
            # nested summarised loop: re-emit the effects to the outer log, quantified over this index
            self.lift_raises(eff, idx, n)
            for e in eff:
                if e[0] == "raise":
                    continue
                self.effects.append(("nested", e, idx, n, self.cur_guard()))
            return
        self.lift_raises(eff, idx, n)
        yields = [e for e in eff if e[0] == "yield"]
        nested_y = [e for e in eff if e[0] == "nested" and e[1][0] == "yield"]
        if nested_y:
            # a generator with two nested loops: the yielded sequence is the row-major flattening over (i, j) of the body's
            # yields; it is kept as a two-level value (no div/mod reasoning).  One unconditional yield per inner iteration gives
            # a Flat2Seq (cell(i, j)); several / conditional yields give a NestedYields (per yield: value(i, j), guard(i, j)).
            if yields:
                raise Unsupported("generator yielding both inside and outside its inner loop")
            jdx0, m0 = nested_y[0][2], nested_y[0][3]
            mz = to_int(m0)
            if not z3.eq(z3.substitute(mz, (idx, idx + 1)), mz):
                raise Unsupported("inner loop length depends on the outer index")
            for e in nested_y:
                if e[2] is not jdx0 or not z3.is_true(z3.simplify(e[4])):
                    raise Unsupported("yields from different inner loops / under an outer condition")
            mk = lambda t: (lambda i, j, t=t: subst(t, [(idx, to_int(i)), (jdx0, to_int(j))]))
            if len(nested_y) == 1 and z3.is_true(z3.simplify(nested_y[0][1][2])):
                self.gen_frame().yields.append(Flat2Seq(n, mz, mk(nested_y[0][1][1])))
            else:
                self.gen_frame().yields.append(NestedYields(n, mz, [(mk(e[1][1]), mk(wrap(e[1][2]))) for e in nested_y]))
            eff = [e for e in eff if not any(e is y for y in nested_y)]
        others = [e for e in eff if e[0] not in ("yield", "raise")]
        if yields:
            if len(yields) != 1 or not z3.is_true(z3.simplify(yields[0][2])):
                # several guarded yields are fine when the guards partition the iteration
                merged = self.merge_yields(yields)
            else:
                merged = yields[0][1]
            ys = self.gen_frame().yields
            ys.append(SSeq(wrap(n), lambda j, t=merged: subst(t, [(idx, j)]), "loop-yield"))
        self.models.apply_store_effects(self, others, [(idx, n)])

    def merge_yields(self, yields):
        # exactly-one-yield-per-iteration when guards are mutually exclusive and exhaustive
        gs = [g for _, _, g in yields]
        self.path.oblige("internal.yield_partition", z3.And(z3.Or(*gs), *[z3.Not(z3.And(a, b)) for i, a in enumerate(gs) for b in gs[i + 1 :]]), note="loop body yields exactly once per iteration")
        res = yields[-1][1]
        for _, v, g in reversed(yields[:-1]):
            res = merge_values(g, v, res)
        return res

    def merged_if(self, c, body, orelse):
        """If-conversion: run both branches under guards and merge assigned locals.
        A branch ending in `continue`/`raise` kills the rest of the iteration under its guard
        (recorded in self.alive)."""
        fr = self.frame
        base = dict(fr.locals)

        def run(stmts, guard):
            fr.locals = dict(base)
            self.guards.append(guard)
            stopped = False
            try:
                self.exec_block(stmts)
            except (_MergeContinue, _MergeStop):
                stopped = True
                self.alive.append(z3.Not(z3.And(*self.guards)))
            finally:
                self.guards.pop()
            return fr.locals, stopped

        l1, s1 = run(body, c)
        l2, s2 = run(orelse, z3.Not(c))
        if s1 and s2:
            fr.locals = base
            raise _MergeContinue()
        if s1 or s2:
            fr.locals = l2 if s1 else l1
            return
        merged = dict(base)
        for k in set(l1) | set(l2):
            a = l1.get(k, _UNBOUND)
            b = l2.get(k, _UNBOUND)
            if a is b:
                merged[k] = a
            elif a is _UNBOUND or b is _UNBOUND:
                merged[k] = _UNBOUND
            else:
                merged[k] = merge_values(c, a, b)
        fr.locals = merged


class Flat2Seq(SSeq):
    """Row-major flattening of cell(i, j), 0 <= i < rows, 0 <= j < cols (the yields of two nested loops)."""

    def __init__(self, rows, cols, cell):
        self.rows, self.cols, self.cell = rows, cols, cell
        super().__init__(wrap(z3.simplify(to_int(rows) * to_int(cols))), self._flat, "nested-loop-yield")
        self.pvc_type = "list"

    def _flat(self, q):
        raise Unsupported("flat index into a nested-loop sequence (use .cell(i, j))")


class NestedYields(SSeq):
    """Yields of two nested loops with several and/or conditional yields per inner iteration: for each yield statement k (in
    program order) value_k(i, j) is emitted at inner iteration (i, j) iff guard_k(i, j)."""

    def __init__(self, rows, cols, yields):
        self.rows, self.cols, self.yields = rows, cols, yields
        super().__init__(wrap(z3.Int("nested_yield_count")), self._flat, "nested-loop-yields")
        self.pvc_type = "list"

    def _flat(self, q):
        raise Unsupported("flat index into a nested-loop sequence")


class _MergeStop(Exception):
    pass


class _MergeContinue(Exception):
    pass


def _unsup(msg):
    raise Unsupported(msg)


class _Unbound:
    def __repr__(self):
        return "<unbound>"


_UNBOUND = _Unbound()


class _PostLoop:
    """Variable first assigned inside a summarised loop: defined after the loop only if the loop ran (n > 0)."""

    def __init__(self, value, n, name):
        self.value, self.n, self.name = value, n, name


class _Poison:
    def __init__(self, name):
        self.name = name


class _Carried:
    """Marker for a variable defined before a loop and re-assigned in its body:
    reading it inside the summarised body means a loop-carried dependence."""

    def __init__(self, name, value):
        self.name = name
        self.value = value


class Splat:
    def __init__(self, value):
        self.value = value


class SliceV:
    def __init__(self, lo, hi, step):
        self.lo, self.hi, self.step = lo, hi, step


class GenV:
    """Exhausted-on-demand generator: the sequence of yielded values (the body runs at first consumption, like python)."""

    def __init__(self, seq=None, thunk=None):
        self._seq = seq  # PyList | SSeq
        self._thunk = thunk

    @property
    def seq(self):
        if self._seq is None:
            self._seq = self._thunk()
            self._thunk = None
        return self._seq


def wrap_b(x):
    return x if not z3.is_expr(x) else wrap(x)


def as_seq2(v):
    if isinstance(v, PyList):
        return SSeq.from_list(v.items)
    return as_seq(v)


def _as_load(t):
    t2 = ast.parse(ast.unparse(t), mode="eval").body
    return t2


def _assigned_names(stmts):
    out = set()

    class V(ast.NodeVisitor):
        def visit_Name(self, n):
            if isinstance(n.ctx, ast.Store):
                out.add(n.id)

        def visit_FunctionDef(self, n):
            out.add(n.name)

        def visit_Lambda(self, n):
            pass

        def visit_ListComp(self, n):
            pass

        visit_GeneratorExp = visit_DictComp = visit_SetComp = visit_ListComp

    for s in stmts:
        V().visit(s)
    return out


def _target_names(t):
    return {n.id for n in ast.walk(t) if isinstance(n, ast.Name)}


# --------------------------------------------------------------------------
# mutable python containers with concrete structure


class _PyListSubstMixin:
    def pvc_subst(self, pairs):
        # a list literal inside a comprehension template is a NEW list per iteration; a list that does not mention the
        # substituted index keeps its identity (lists are heap objects)
        new = [subst(x, pairs) for x in self.items]
        if all(a is b for a, b in zip(new, self.items)):
            return self
        return type(self)(new)


class PyList(_PyListSubstMixin):
    def __init__(self, items=None):
        self.items = list(items or [])

    def method(self, I, name):
        if name == "append":

            def f(I, args, kw):
                if I.merge_depth:
                    I.effects.append(("append", self, args[1], I.cur_guard()))
                    return None
                self.items.append(args[1])

            return BoundMethod(self, Builtin("list.append", f))
        if name == "extend":

            def f(I, args, kw):
                if I.merge_depth:
                    raise Unsupported("list.extend in summarised loop")
                s = I.iter_seq(args[1])
                if isinstance(s, PyList):
                    self.items.extend(s.items)
                else:
                    # the list object becomes a symbolic-length list: every reference to it is rebound
                    new = SSeq.from_list(self.items).concat(s) if self.items else s
                    if new is s:
                        new = SSeq(s.length, s.fn, s.desc)
                    new.pvc_type = "list"
                    I.replace_object(self, new)

            return BoundMethod(self, Builtin("list.extend", f))
        if name == "index":

            def f(I, args, kw):
                for k, x in enumerate(self.items):
                    r = I.equals(x, args[1])
                    if r is True:
                        return k
                    if r is not False:
                        raise Unsupported("list.index with symbolic equality")
                raise PyRaise("ValueError")

            return BoundMethod(self, Builtin("list.index", f))
        raise Unsupported(f"list.{name}")

    def __repr__(self):
        return f"PyList({self.items!r})"


class PyDict:
    """Dict with concrete (hashable python or identity-compared) keys."""

    def __init__(self, d=None):
        self.d = dict(d or {})

    def key(self, I, k):
        if isinstance(k, SV) and not isinstance(k, SObj):
            # opaque keys: decided against the existing keys with the solver (equal / distinct under the path condition)
            for existing in self.d:
                if existing is k:
                    return existing
                if isinstance(existing, SV):
                    r = I.equals(existing, k)
                    if r is True:
                        return existing
                    if r is False:
                        continue
                    rz = to_bool(r)
                    if not smt.feasible(I.path.hyps() + [rz]):
                        continue
                    if not smt.feasible(I.path.hyps() + [z3.Not(rz)]):
                        return existing
                    raise Unsupported("dict key equality undetermined")
            return k
        return k

    def set(self, I, k, v):
        if I.merge_depth:
            raise Unsupported("dict store in summarised loop")
        self.d[self.key(I, k)] = v

    def pvc_getitem(self, I, k):
        k = self.key(I, k)
        if k not in self.d:
            raise PyRaise("KeyError")
        return self.d[k]

    def pvc_setitem(self, I, k, v):
        self.set(I, k, v)

    def pvc_contains(self, I, k):
        return self.key(I, k) in self.d

    def pvc_truth(self, I):
        return len(self.d) > 0

    def method(self, I, name):
        if name == "items":
            return BoundMethod(self, Builtin("dict.items", lambda I, a, k: PyList([(x, y) for x, y in self.d.items()])))
        if name == "keys":
            return BoundMethod(self, Builtin("dict.keys", lambda I, a, k: PyList(list(self.d.keys()))))
        if name == "values":
            return BoundMethod(self, Builtin("dict.values", lambda I, a, k: PyList(list(self.d.values()))))
        if name == "get":

            def f(I, args, kw):
                k = self.key(I, args[1])
                return self.d.get(k, args[2] if len(args) > 2 else None)

            return BoundMethod(self, Builtin("dict.get", f))
        if name == "update":

            def f(I, args, kw):
                o = args[1]
                if isinstance(o, PyDict):
                    self.d.update(o.d)
                    return None
                raise Unsupported("dict.update with symbolic dict")

            return BoundMethod(self, Builtin("dict.update", f))
        raise Unsupported(f"dict.{name}")

    def __repr__(self):
        return f"PyDict({self.d!r})"
