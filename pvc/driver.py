"""Property-level driver: runs the function verifications of one property, decides
verdicts (proved / refuted / undecided), replays counter-models natively, honours
known_findings.json, writes evidence/<id>.json and sets the exit code.

Exit codes: 0 property held on everything explored (possibly with KNOWN-FINDING lines)
            1 violation (a line `VIOLATION property=<id> replay=<path>` is printed)
            3 checker error (no VIOLATION line)
"""
from __future__ import annotations

import json
import os
import sys
import time
import traceback

import z3

from . import smt
from .contract import discharge, verify_contract
from .models import Models

VERIF = os.path.dirname(os.path.dirname(os.path.abspath(__file__)))
REPO = os.environ.get("FORMAK_REPO", "/repo")


def log(*a):
    print(*a, flush=True)


class Finding:
    """A refuted (or natively failing) clause."""

    def __init__(self, obligation, signature, what, payload, confirmed, theory="interp", clause_kind="property"):
        self.obligation = obligation
        self.signature = signature
        self.what = what
        self.payload = payload
        self.confirmed = confirmed  # natively reproduced on the real code
        self.theory = theory
        self.clause_kind = clause_kind


class PropertyRun:
    def __init__(self, pid, tier, seed):
        self.pid = pid
        self.tier = tier
        self.seed = seed
        self.t0 = time.time()
        self.reports = []  # FunctionReport
        self.extra_obligations = []  # dicts {name, status, backend, ms, ...} produced by non-pvc steps (e.g. compiler)
        self.findings = []
        self.undecided = []
        self.bounded = []  # descriptions of bounded stand-ins that ran, with their bounds
        self.assumptions = []
        self.notes = []
        self.samples = []
        self.solver_ms = 0.0
        self.native_runs = 0
        self.errors = []
        self.level = "proof"
        self.functions = []
        self.extra = {}

    # -- pvc function verification -------------------------------------------------
    def verify(self, contract, callees, models_factory=Models, max_paths=400):
        log(f"[pvc] {contract.key}")
        rep = verify_contract(contract, REPO, callees, models_factory, max_paths=max_paths, log=log)
        discharge(rep)
        self.reports.append(rep)
        self.functions.append(contract.key)
        if rep.status == "error":
            self.errors.append(f"{contract.key}: {rep.reason}")
        return rep

    def prove(self, name, hyps, goal, function="-", theory="interp", timeout_ms=None, **kw):
        """Discharge one explicitly constructed VC (used where the 'function body' is a set of
        expressions obtained from the real module rather than an interpreted body)."""
        from .contract import FunctionReport
        from .interp import Obligation

        rep = None
        for r in self.reports:
            if r.key == function and getattr(r, "synthetic", False):
                rep = r
        if rep is None:
            class _C:
                key = function
            rep = FunctionReport(_C)
            rep.synthetic = True
            self.reports.append(rep)
            if function not in self.functions:
                self.functions.append(function)
        ob = Obligation(name, hyps, goal, theory)
        ob.result = smt.prove(hyps, goal, timeout_ms=timeout_ms, **kw)
        rep.obligations.append(ob)
        return ob

    def verify_many(self, items, models_factory=Models, max_paths=400, jobs=None):
        """Verify several contracts in parallel worker processes (fork).  Contracts whose obligations are all proved are
        reported from the workers' summaries; any other contract is re-verified in this process so that its obligations,
        counter-models and path objects are available for triage.  Returns the list of FunctionReports in order."""
        import multiprocessing as mp

        from .contract import FunctionReport
        from .interp import Obligation

        jobs = jobs or min(len(items), int(os.environ.get("PVC_JOBS", "8")), max(1, (os.cpu_count() or 2) - 1))
        if jobs <= 1 or len(items) <= 1:
            return [self.verify(c, cs, models_factory, max_paths) for c, cs in items]
        global _WORK_ITEMS
        _WORK_ITEMS = (items, models_factory, max_paths)
        ctx = mp.get_context("fork")
        with ctx.Pool(jobs) as pool:
            summaries = pool.map(_verify_worker, range(len(items)))
        reps = []
        for (c, cs), sm in zip(items, summaries):
            clean = sm["status"] == "ok" and all(o["status"] == "unsat" for o in sm["obligations"])
            if not clean:
                reps.append(self.verify(c, cs, models_factory, max_paths))
                continue
            log(f"[pvc] {c.key}  ({len(sm['obligations'])} obligations proved in a worker, {sm['seconds']:.1f}s)")
            rep = FunctionReport(c)
            rep.paths, rep.seconds, rep.outcomes, rep.dropped = sm["paths"], sm["seconds"], sm["outcomes"], set(sm["dropped"])
            rep.definitions = set(sm["definitions"])
            for o in sm["obligations"]:
                ob = Obligation(o["name"], [], z3.BoolVal(True), o["theory"])
                ob.result = smt.Result("unsat", o["backend"], o["ms"])
                if o.get("cross"):
                    ob.result.cross = o["cross"]
                ob.smt2 = o.get("smt2")
                rep.obligations.append(ob)
            self.reports.append(rep)
            self.functions.append(c.key)
            if sm.get("sample"):
                self.samples.append(sm["sample"])
            reps.append(rep)
        return reps

    def add_obligation(self, name, status, backend, ms=0.0, detail=None, theory="interp", kind="property"):
        self.extra_obligations.append({"name": name, "status": status, "backend": backend, "ms": ms, "detail": detail, "theory": theory, "kind": kind})

    # -- summary ---------------------------------------------------------------
    def all_obligation_rows(self):
        rows = []
        for rep in self.reports:
            for ob in rep.obligations:
                r = ob.result
                st = {"unsat": "proved", "sat": "refuted", "unknown": "undecided"}[r.status]
                rows.append({"name": ob.name, "status": st, "backend": r.backend, "ms": round(r.ms, 2), "function": rep.key, "theory": ob.theory, "ob": ob})
        for e in self.extra_obligations:
            rows.append({"name": e["name"], "status": e["status"], "backend": e["backend"], "ms": round(e["ms"], 2), "function": e.get("function", "-"), "theory": e["theory"], "detail": e.get("detail")})
        return rows


def refuted(run, rep):
    """Yield (obligation, model, definitive) for every obligation of `rep` that is refuted (solver: sat, definitive)
    or undecided with a candidate counter-model of its quantifier-free part (not definitive: counts only if it replays
    natively).  Plain undecided obligations are recorded in run.undecided."""
    seen = set()
    for ob in rep.obligations:
        r = ob.result
        if r is None or r.status == "unsat":
            continue
        if r.status == "sat":
            key = (ob.name, True)
            if key not in seen:
                seen.add(key)
                yield ob, r.model, True
        elif getattr(r, "candidate_model", None) is not None:
            key = (ob.name, False)
            if key not in seen:
                seen.add(key)
                yield ob, r.candidate_model, False
        else:
            if ob.name not in run.undecided:
                run.undecided.append(ob.name)


_WORK_ITEMS = None


def _verify_worker(idx):
    items, models_factory, max_paths = _WORK_ITEMS
    c, cs = items[idx]
    rep = verify_contract(c, REPO, cs, models_factory, max_paths=max_paths, log=None)
    discharge(rep)
    obs = []
    sample = None
    for ob in rep.obligations:
        r = ob.result
        obs.append({"name": ob.name, "status": r.status, "backend": r.backend, "ms": round(r.ms, 2), "theory": ob.theory, "cross": getattr(r, "cross", None)})
        if sample is None and r.status == "unsat" and not z3.is_true(ob.goal) and ob.hyps:
            try:
                txt = smt.to_smt2(ob.hyps, ob.goal)
                if 200 < len(txt) < 5000:
                    sample = {"obligation": ob.name, "smtlib_negated_vc": txt}
            except Exception:
                pass
    return {"key": c.key, "status": rep.status, "reason": rep.reason, "paths": rep.paths, "seconds": rep.seconds, "outcomes": rep.outcomes, "dropped": sorted(rep.dropped), "definitions": sorted(getattr(rep, "definitions", set())), "obligations": obs, "sample": sample}


def load_known_findings():
    p = os.path.join(VERIF, "known_findings.json")
    if not os.path.exists(p):
        return []
    return json.load(open(p)).get("findings", [])


def write_replay(pid, obligation, payload):
    d = os.path.join(VERIF, "replays")
    os.makedirs(d, exist_ok=True)
    safe = obligation.replace("/", "_").replace(" ", "_")
    path = os.path.join(d, f"{pid}-{safe}.json")
    k = 1
    while os.path.exists(path):
        k += 1
        path = os.path.join(d, f"{pid}-{safe}-{k}.json")
    payload = dict(payload)
    payload.setdefault("property", pid)
    payload.setdefault("obligation", obligation)
    payload.setdefault("replay_cmd", f"./check {pid} --replay {path}")
    with open(path, "w") as f:
        json.dump(payload, f, indent=1, default=str)
    return path


def finish(run: PropertyRun, mod):
    """Decide the verdict, print VIOLATION / KNOWN-FINDING lines, write evidence, return exit code."""
    pid = run.pid
    rows = run.all_obligation_rows()
    known = [k for k in load_known_findings() if k.get("property") == pid and k.get("status") == "known"]
    n_obl = len(rows)
    n_proved = sum(1 for r in rows if r["status"] == "proved")
    unsupported = [(rep.key, rep.reason) for rep in run.reports if rep.status == "unsupported"]
    violations = []
    known_hits = []
    for f in run.findings:
        hit = None
        for k in known:
            if k.get("obligation") == f.obligation and (k.get("signature") in (None, f.signature)):
                hit = k
                break
        if hit:
            known_hits.append((f, hit))
        else:
            violations.append(f)
    exit_code = 0
    if run.errors:
        exit_code = 3
        for e in run.errors:
            log("CHECKER-ERROR:", e[:2000])
    if n_obl == 0 and not run.errors:
        log("CHECKER-ERROR: zero obligations generated (vacuity guard)")
        exit_code = 3
    printed = set()
    for f, k in known_hits:
        line = f"KNOWN-FINDING: property={pid} {k.get('what', f.what)} [obligation {f.obligation}, {f.signature}]"
        if line not in printed:
            printed.add(line)
            log(line)
    n_viol = 0
    seen_v = set()
    for f in violations:
        key = (f.obligation, f.signature)
        if key in seen_v:
            continue
        seen_v.add(key)
        path = write_replay(pid, f.obligation, f.payload)
        n_viol += 1
        suffix = "" if f.confirmed else " no-failing-input-found"
        log(f"VIOLATION property={pid} replay={path}{suffix}")
        log(f"  obligation {f.obligation}: {f.what}")
        exit_code = 1  # a replayed / named violation takes precedence over a later checker error
    # evidence
    by_name = {}
    for r in rows:
        by_name.setdefault(r["name"], []).append(r)
    ob_list = []
    for name, rs in sorted(by_name.items()):
        st = "proved" if all(r["status"] == "proved" for r in rs) else ("refuted" if any(r["status"] == "refuted" for r in rs) else "undecided")
        ob_list.append({"name": name, "result": st, "instances": len(rs), "backend": sorted({r["backend"] for r in rs}), "ms": round(sum(r["ms"] for r in rs), 2)})
    samples = list(run.samples)
    for rep in run.reports:
        for ob in rep.obligations[:400]:
            if len(samples) >= 3:
                break
            if ob.result and ob.result.status == "unsat" and not z3.is_true(ob.goal) and len(ob.hyps) > 0:
                try:
                    txt = smt.to_smt2(ob.hyps, ob.goal)
                    if 200 < len(txt) < 6000:
                        samples.append({"obligation": ob.name, "smtlib_negated_vc": txt})
                except Exception:
                    pass
    if not samples:
        samples = [{"obligation": o["name"], "result": o["result"]} for o in ob_list[:3]]
    level = run.level
    coverage = {
        "obligations": n_obl,
        "discharged": n_proved,
        "checker_cmd": f"./check {pid} --tier {run.tier}",
        "trusted_base": mod.TRUSTED_BASE if hasattr(mod, "TRUSTED_BASE") else [],
        "functions_under_contract": run.functions,
        "obligation_names": len(ob_list),
        "obligation_list": ob_list,
        "solver_time_s": round(sum(r["ms"] for r in rows) / 1000.0, 3),
        "discharged_by_backend": {b: sum(1 for r in rows if r["status"] == "proved" and r["backend"] == b) for b in sorted({r["backend"] for r in rows if r["status"] == "proved"})},
        "paths_explored": sum(rep.paths for rep in run.reports),
        "unsupported_functions": [{"function": k, "reason": r} for k, r in unsupported],
        "undecided": [o["name"] for o in ob_list if o["result"] == "undecided"] + run.undecided,
        "refuted": [o["name"] for o in ob_list if o["result"] == "refuted"],
        "known_findings_matched": [k.get("what") for _, k in known_hits],
        "bounded_standins": run.bounded,
        "dropped_by_extraction": sorted(set().union(*[rep.dropped for rep in run.reports])) if run.reports else [],
        "definitional_axioms_used": sorted(set().union(*[getattr(rep, "definitions", set()) for rep in run.reports])) if run.reports else [],
        "native_replays_run": run.native_runs,
        "samples": samples[:4],
        "explanation": getattr(mod, "EXPLANATION", ""),
        "exhaustive": bool(getattr(run, "exhaustive", False)),
    }
    cross = {"checked": 0, "z3-4.8": {}, "cvc5": {}, "disagreements": []}
    for rep in run.reports:
        for ob in rep.obligations:
            c = getattr(ob.result, "cross", None) if ob.result is not None else None
            if not c or "error" in c:
                continue
            cross["checked"] += 1
            for k in ("z3-4.8", "cvc5"):
                cross[k][c.get(k, "unknown")] = cross[k].get(c.get(k, "unknown"), 0) + 1
                if c.get(k) == "sat" and c.get("quantifier_free"):
                    cross["disagreements"].append(f"{ob.name}: z3 5.1 unsat, {k} sat (quantifier-free)")
    if cross["checked"]:
        coverage["solver_cross_check"] = cross
        if cross["disagreements"]:
            log("CHECKER-ERROR: solver disagreement on " + "; ".join(cross["disagreements"][:3]))
            if exit_code == 0:
                exit_code = 3
    coverage.update(run.extra)
    if (n_proved != n_obl or unsupported) and level == "proof":
        # a proof-level claim needs discharged == obligations; otherwise report honestly as 'other'
        level = "other"
        coverage["explanation"] = (coverage["explanation"] + f" NOTE: this run discharged {n_proved} of {n_obl} obligations; " f"{len(unsupported)} function(s) outside the supported subset were covered by the bounded stand-in only.").strip()
    ev = {
        "property_id": pid,
        "tier": run.tier,
        "seed": run.seed,
        "level": level,
        "coverage": coverage,
        "assumptions": sorted(set(run.assumptions + list(getattr(mod, "ASSUMPTIONS", [])))),
        "wall_s": round(time.time() - run.t0, 2),
        "violations": n_viol,
    }
    # evidence describes /repo itself; runs against a scratch copy (self-test mutants, seeded changes: FORMAK_REPO set) write elsewhere
    ev_dir = os.path.join(VERIF, "evidence") if os.path.realpath(REPO) == os.path.realpath("/repo") else os.path.join(VERIF, ".scratch", "evidence-other-tree")
    ev["repo"] = REPO
    os.makedirs(ev_dir, exist_ok=True)
    with open(os.path.join(ev_dir, f"{pid}.json"), "w") as f:
        json.dump(ev, f, indent=1, default=str)
    log(f"[{pid}] obligations={n_obl} discharged={n_proved} refuted={sum(1 for r in rows if r['status']=='refuted')} undecided={sum(1 for r in rows if r['status']=='undecided')} unsupported_fns={len(unsupported)} violations={n_viol} known={len(printed)} wall={ev['wall_s']}s exit={exit_code}")
    return exit_code


def model_values(model, names):
    """Extract python numbers for the named z3 constants from a model (None if absent)."""
    out = {}
    if model is None:
        return out
    decls = {d.name(): d for d in model.decls()}
    for n in names:
        d = decls.get(n)
        if d is None or d.arity() != 0:
            out[n] = None
            continue
        v = model[d]
        try:
            if z3.is_int_value(v):
                out[n] = v.as_long()
            elif z3.is_rational_value(v):
                out[n] = float(v.numerator_as_long()) / float(v.denominator_as_long())
            elif z3.is_algebraic_value(v):
                out[n] = float(v.approx(20).numerator_as_long()) / float(v.approx(20).denominator_as_long())
            elif z3.is_true(v) or z3.is_false(v):
                out[n] = z3.is_true(v)
            else:
                out[n] = str(v)
        except Exception:
            out[n] = str(v)
    return out


def sensitivity_cover(run, n=2):
    """Vacuity guard of the thorough tier: two catalogue mutants of THIS property are applied to scratch copies of the tree under
    test and the quick check must report them.  Informational (evidence + log line): it never changes this run's exit code."""
    import importlib.util

    spec = importlib.util.spec_from_file_location("selftest_run", os.path.join(VERIF, "selftest", "run.py"))
    st = importlib.util.module_from_spec(spec)
    spec.loader.exec_module(st)
    st.REPO = REPO
    cat = [e for e in json.load(open(os.path.join(VERIF, "selftest", "catalogue.json"))) if e["property"] == run.pid and e.get("expect")]
    out = []
    # spread over the catalogue deterministically (first and middle entry that still apply to this tree)
    order = cat[:1] + cat[len(cat) // 2 : len(cat) // 2 + 1] + cat[1:]
    for e in order:
        if len([o for o in out if o["status"] != "STALE"]) >= n:
            break
        entry, status, info, txt = st.run_one(e, "quick")
        out.append({"mutant": e["name"], "status": status, "reported": info[:200]})
    run.extra["sensitivity_cover"] = out
    for o in out:
        if o["status"] not in ("CAUGHT", "STALE"):
            log(f"SENSITIVITY-COVER property={run.pid} mutant {o['mutant']} was NOT reported ({o['status']}): the check may have lost sensitivity")


def main(mod):
    import argparse

    ap = argparse.ArgumentParser()
    ap.add_argument("--tier", default=os.environ.get("VERIF_TIER", "quick"), choices=["quick", "thorough"])
    ap.add_argument("--replay")
    ap.add_argument("--seed", type=int, default=int(os.environ.get("VERIF_SEED", "0") or 0))
    args = ap.parse_args(sys.argv[2:])
    if args.replay:
        payload = json.load(open(args.replay))
        ok = mod.replay_file(payload)
        sys.exit(0 if ok else 1)
    run = PropertyRun(mod.PROPERTY, args.tier, args.seed)
    if args.tier == "thorough":
        os.environ["PVC_CROSSCHECK"] = "1"  # second opinions (z3 4.8, cvc5) on a sample of the proved obligations
    try:
        mod.check(run)
    except Exception as e:
        run.errors.append(f"{type(e).__name__}: {e}\n{traceback.format_exc()}")
    if args.tier == "thorough" and not os.environ.get("PVC_SELFTEST"):
        try:
            sensitivity_cover(run)
        except Exception as e:  # informational only
            run.notes.append(f"sensitivity cover could not run: {e!r}")
    sys.exit(finish(run, mod))
