"""pvc value domain.

Symbolic values manipulated by the AST interpreter (pvc/interp.py).  Everything
that can be concrete stays a plain Python value (int, str, tuple, list, dict,
None ...); symbolic scalars wrap z3 terms; sequences of symbolic length use a
lambda-representation (a template term over an index variable, instantiated by
substitution), so no quantified arrays are needed.

Encoding assumptions (cited by the evidence files as A-REAL / A-PY):
  * Python float / C++ double are mathematical reals (z3 Real); float literals
    denote their shortest decimal representation (0.1 is 1/10).
  * Python int is z3 Int (unbounded - true in CPython).
"""
from __future__ import annotations

import itertools
from fractions import Fraction

import z3

# --------------------------------------------------------------------------
# naming

_counter = itertools.count()


class NameSupply:
    """Deterministic fresh names (same names on every re-execution of a path)."""

    def __init__(self):
        self.counts = {}

    def fresh(self, base):
        n = self.counts.get(base, 0)
        self.counts[base] = n + 1
        return f"{base}!{n}" if n else base


# --------------------------------------------------------------------------
# scalar wrappers


class SV:
    """Base class of symbolic values."""


class SInt(SV):
    __slots__ = ("z",)

    def __init__(self, z):
        self.z = z

    def __repr__(self):
        return f"SInt({self.z})"


class SReal(SV):
    __slots__ = ("z",)

    def __init__(self, z):
        self.z = z

    def __repr__(self):
        return f"SReal({self.z})"


class SNum(SReal):
    """A real number whose Python class is not fixed: a float, an int or a numpy scalar with that value (what an annotation
    `float` admits).  Arithmetic treats it as the real it denotes; a class test on it is an unknown of its own."""

    __slots__ = ()

    def class_flag(self, name):
        return z3.Bool(f"is_{name}[{self.z}]")


class SBool(SV):
    __slots__ = ("z",)

    def __init__(self, z):
        self.z = z

    def __repr__(self):
        return f"SBool({self.z})"


class SOpaque(SV):
    """Term of an uninterpreted sort (sympy Symbol/Expr, strings, estimates ...)."""

    __slots__ = ("z", "kind")

    def __init__(self, z, kind=None):
        self.z = z
        self.kind = kind or str(z.sort())

    def __repr__(self):
        return f"SOpaque[{self.kind}]({self.z})"


def is_sym(v):
    return isinstance(v, SV)


def real_of_float(x):
    """Exact rational for a Python float literal (shortest decimal repr)."""
    if isinstance(x, bool):
        raise TypeError("bool is not a real")
    if isinstance(x, int):
        return z3.RealVal(x)
    fr = Fraction(repr(float(x)))
    return z3.RealVal(f"{fr.numerator}/{fr.denominator}")


def to_real(v):
    """z3 Real term of a numeric value."""
    if z3.is_expr(v):
        return z3.ToReal(v) if v.sort() == z3.IntSort() else v
    if isinstance(v, SReal):
        return v.z
    if isinstance(v, SInt):
        return z3.ToReal(v.z)
    if isinstance(v, bool):
        raise Unsupported("bool used as number")
    if isinstance(v, (int, float)):
        return real_of_float(v)
    if isinstance(v, Fraction):
        return z3.RealVal(f"{v.numerator}/{v.denominator}")
    raise Unsupported(f"not numeric: {v!r}")


def to_int(v):
    if z3.is_expr(v):
        return v
    if isinstance(v, SInt):
        return v.z
    if isinstance(v, bool):
        raise Unsupported("bool used as int")
    if isinstance(v, int):
        return z3.IntVal(v)
    raise Unsupported(f"not an int: {v!r}")


def to_bool(v):
    if z3.is_expr(v):
        return v
    if isinstance(v, SBool):
        return v.z
    if isinstance(v, bool):
        return z3.BoolVal(v)
    raise Unsupported(f"not a bool: {v!r}")


def is_numeric(v):
    return isinstance(v, (SInt, SReal, int, float, Fraction)) and not isinstance(v, bool)


def is_intlike(v):
    return isinstance(v, (SInt, int)) and not isinstance(v, bool)


def wrap(z):
    """Wrap a z3 term into the matching scalar wrapper (concrete when literal)."""
    if isinstance(z, SV):
        return z
    s = z.sort()
    if s == z3.IntSort():
        z = z3.simplify(z)
        if z3.is_int_value(z):
            return z.as_long()
        return SInt(z)
    if s == z3.RealSort():
        return SReal(z)
    if s == z3.BoolSort():
        z = z3.simplify(z)
        if z3.is_true(z):
            return True
        if z3.is_false(z):
            return False
        return SBool(z)
    return SOpaque(z)


class Unsupported(Exception):
    """Construct outside the supported subset: the function becomes 'unsupported'
    (bounded fallback) - never a violation."""


# --------------------------------------------------------------------------
# substitution over composite values


def subst(v, pairs):
    """Substitute z3 constants inside an arbitrary value (used to instantiate
    lambda-sequence templates at an index)."""
    if not pairs:
        return v
    if hasattr(v, "pvc_subst"):
        return v.pvc_subst(pairs)
    if isinstance(v, SInt):
        return wrap(z3.substitute(v.z, *pairs))
    if isinstance(v, SReal):
        return SReal(z3.substitute(v.z, *pairs))
    if isinstance(v, SBool):
        return wrap(z3.substitute(v.z, *pairs))
    if isinstance(v, SOpaque):
        return SOpaque(z3.substitute(v.z, *pairs), v.kind)
    if isinstance(v, tuple):
        return tuple(subst(x, pairs) for x in v)
    if isinstance(v, list):
        return [subst(x, pairs) for x in v]
    if isinstance(v, dict):
        return {k: subst(x, pairs) for k, x in v.items()}
    if isinstance(v, SSeq):
        return v.subst(pairs)
    if isinstance(v, SMat):
        return v.subst(pairs)
    if hasattr(v, "pvc_subst"):
        return v.pvc_subst(pairs)
    return v


# --------------------------------------------------------------------------
# sequences of symbolic length


class SSeq(SV):
    """Sequence `[template(i) for i in range(length)]`.

    `fn` maps a z3 Int term to the element value.  Elements may be any value
    (scalars, tuples, objects).  `length` is a z3 Int term or a Python int.
    """

    def __init__(self, length, fn, desc="seq"):
        self.length = length
        self.fn = fn
        self.desc = desc

    def len_z(self):
        return to_int(self.length)

    def at(self, i):
        iz = to_int(i) if not z3.is_expr(i) else i
        return self.fn(iz)

    def subst(self, pairs):
        ln = self.length if isinstance(self.length, int) else wrap(z3.substitute(to_int(self.length), *pairs))
        f = self.fn
        return SSeq(ln, lambda i: subst(f(i), pairs), self.desc)

    @staticmethod
    def from_list(items):
        items = list(items)
        n = len(items)

        def fn(i):
            i = z3.simplify(i)
            if z3.is_int_value(i):
                k = i.as_long()
                if 0 <= k < n:
                    return items[k]
            return ite_value_chain([(i == k, items[k]) for k in range(n)])

        return SSeq(n, fn, "list")

    def concat(self, other):
        a, b = self, other
        if isinstance(b.length, int) and b.length == 0:
            return a
        if isinstance(a.length, int) and a.length == 0:
            return b
        la = a.len_z()

        def fn(i):
            return ite_value(i < la, lambda: a.at(i), lambda: b.at(i - la))

        r = SSeq(wrap(z3.simplify(la + b.len_z())), fn, f"({a.desc}+{b.desc})")
        r.parts = list(getattr(a, "parts", [a])) + list(getattr(b, "parts", [b]))  # segments, for contracts that reason per segment
        return r

    def slice(self, lo, hi):
        """self[lo:hi] with 0 <= lo <= hi <= len assumed by the caller's obligations."""
        loz = to_int(lo)
        base = self
        return SSeq(wrap(z3.simplify(to_int(hi) - loz)), lambda i: base.at(i + loz), f"{self.desc}[{lo}:{hi}]")

    def __repr__(self):
        return f"SSeq<{self.desc}, len={self.length}>"


def as_seq(v):
    if isinstance(v, SSeq):
        return v
    if isinstance(v, (list, tuple)):
        return SSeq.from_list(v)
    raise Unsupported(f"not a sequence: {v!r}")


def seq_len(v):
    if isinstance(v, SSeq):
        return v.length
    return len(v)


def ite_value(cond, fa, fb):
    """Value-level if-then-else; fa/fb are thunks.  Falls back to the concrete
    branch when the condition simplifies."""
    c = z3.simplify(cond) if z3.is_expr(cond) else z3.BoolVal(bool(cond))
    if z3.is_true(c):
        return fa()
    if z3.is_false(c):
        return fb()
    return merge_values(c, fa(), fb())


def ite_value_chain(pairs):
    """pairs = [(cond, value)...]; last one is the default."""
    assert pairs
    res = pairs[-1][1]
    for c, v in reversed(pairs[:-1]):
        res = merge_values(c, v, res)
    return res


def merge_values(c, a, b):
    """ite(c, a, b) for values of matching structure."""
    if a is b:
        return a
    if isinstance(a, (SInt, int)) and isinstance(b, (SInt, int)) and not isinstance(a, bool) and not isinstance(b, bool):
        if isinstance(a, int) and isinstance(b, int) and a == b:
            return a
        return wrap(z3.If(c, to_int(a), to_int(b)))
    if is_numeric(a) and is_numeric(b):
        return SReal(z3.If(c, to_real(a), to_real(b)))
    if isinstance(a, (SBool, bool)) and isinstance(b, (SBool, bool)):
        return wrap(z3.If(c, to_bool(a), to_bool(b)))
    if isinstance(a, SOpaque) and isinstance(b, SOpaque) and a.z.sort() == b.z.sort():
        return SOpaque(z3.If(c, a.z, b.z), a.kind)
    if isinstance(a, tuple) and isinstance(b, tuple) and len(a) == len(b):
        return tuple(merge_values(c, x, y) for x, y in zip(a, b))
    if isinstance(a, SMat) and isinstance(b, SMat):
        return SMat(z3.If(c, a.term, b.term))
    if a is None and b is None:
        return None
    if isinstance(a, str) and isinstance(b, str) and a == b:
        return a
    if type(a).__name__ == "PyList" and type(b).__name__ == "PyList" and len(a.items) == len(b.items):
        return type(a)([merge_values(c, x, y) for x, y in zip(a.items, b.items)])
    if hasattr(a, "pvc_merge"):
        r = a.pvc_merge(c, b)
        if r is not NotImplemented:
            return r
    if hasattr(b, "pvc_merge"):
        r = b.pvc_merge(z3.Not(c), a)
        if r is not NotImplemented:
            return r
    raise Unsupported(f"cannot merge values {a!r} / {b!r}")


# --------------------------------------------------------------------------
# matrices (numpy ndarrays / Eigen matrices) - uninterpreted algebra

Mat = z3.DeclareSort("Mat")
mat_rows = z3.Function("rows", Mat, z3.IntSort())
mat_cols = z3.Function("cols", Mat, z3.IntSort())
mat_el = z3.Function("el", Mat, z3.IntSort(), z3.IntSort(), z3.RealSort())
mat_mm = z3.Function("mm", Mat, Mat, Mat)  # matrix product


def mm(a, b):
    """Matrix product term in CANONICAL (right-nested) association: (x y) b is built as x (y b).  Sound under A-REAL (matrix
    multiplication over the reals is associative); makes proofs independent of how the code parenthesises a chain of products."""
    if z3.is_app(a) and a.decl().eq(mat_mm):
        return mm(a.arg(0), mm(a.arg(1), b))
    return mat_mm(a, b)
mat_T = z3.Function("T", Mat, Mat)
mat_inv = z3.Function("inv", Mat, Mat)
mat_add = z3.Function("add", Mat, Mat, Mat)  # numpy + (with broadcasting law on el)
mat_sub = z3.Function("sub", Mat, Mat, Mat)
mat_emul = z3.Function("emul", Mat, Mat, Mat)  # numpy * (element-wise, broadcasting)
mat_zeros = z3.Function("zeros", z3.IntSort(), z3.IntSort(), Mat)
mat_eye = z3.Function("eye", z3.IntSort(), Mat)


class SMat(SV):
    """A 2-d float array.  `term` is a z3 term of sort Mat.  Matrices built
    element by element (loops) carry `cells`, a function (i, j) -> z3 Real, and
    `shape`; for those, el/rows/cols are answered from the closure instead of
    the uninterpreted functions."""

    def __init__(self, term, cells=None, shape=None, ident=None):
        self.term = term
        self.cells = cells
        self.shape_ = shape
        self.ident = ident  # python-level identity token (object identity of the ndarray)

    def rows(self):
        if self.shape_ is not None:
            return self.shape_[0]
        return wrap(mat_rows(self.term))

    def cols(self):
        if self.shape_ is not None:
            return self.shape_[1]
        return wrap(mat_cols(self.term))

    def el(self, i, j):
        iz, jz = to_int(i), to_int(j)
        if self.cells is not None:
            return self.cells(iz, jz)
        return mat_el(self.term, iz, jz)

    def subst(self, pairs):
        cells = self.cells
        shape = None
        if self.shape_ is not None:
            shape = tuple(subst(x, pairs) for x in self.shape_)
        return SMat(
            z3.substitute(self.term, *pairs),
            (lambda i, j: z3.substitute(cells(i, j), *pairs)) if cells else None,
            shape,
            self.ident,
        )

    def __repr__(self):
        return f"SMat({self.term})"


# --------------------------------------------------------------------------
# heap objects


class SObj(SV):
    """Heap object: class tag + mutable fields.  Identity = Python identity."""

    def __init__(self, cls, fields=None, name=None):
        self.cls = cls  # ClassV, or a string tag for opaque classes
        self.fields = dict(fields or {})
        self.name = name

    def cls_name(self):
        return self.cls if isinstance(self.cls, str) else self.cls.name

    def __repr__(self):
        return f"SObj<{self.cls_name()} {self.name or ''}>"


class PyRaise(Exception):
    """A Python exception raised by the interpreted code."""

    def __init__(self, exc_type, detail=None):
        super().__init__(exc_type)
        self.exc_type = exc_type  # class name (string)
        self.detail = detail


# exception hierarchy the interpreter knows about (name -> bases)
EXC_BASES = {
    "BaseException": [],
    "Exception": ["BaseException"],
    "AssertionError": ["Exception"],
    "TypeError": ["Exception"],
    "ValueError": ["Exception"],
    "KeyError": ["LookupError"],
    "IndexError": ["LookupError"],
    "LookupError": ["Exception"],
    "AttributeError": ["Exception"],
    "NotImplementedError": ["RuntimeError"],
    "RuntimeError": ["Exception"],
    "ZeroDivisionError": ["ArithmeticError"],
    "ArithmeticError": ["Exception"],
    "FormakBaseException": ["Exception"],
    "MinimizationFailure": ["FormakBaseException"],
    "ModelDefinitionError": ["FormakBaseException"],
    "ModelConstructionError": ["FormakBaseException"],
    "ModelFitError": ["FormakBaseException"],
    "LinAlgError": ["ValueError"],
}


def exc_is_subclass(name, base):
    if name == base:
        return True
    for b in EXC_BASES.get(name, []):
        if exc_is_subclass(b, base):
            return True
    return False
