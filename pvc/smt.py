"""SMT back ends: z3 (python API) first, cvc5 / z3-4.8 on the SMT-LIB dump as fallbacks."""
from __future__ import annotations

import os
import subprocess
import tempfile
import time

import z3

TIMEOUT_MS = int(os.environ.get("PVC_TIMEOUT_MS", "20000"))


class Result:
    def __init__(self, status, backend, ms, model=None, reason=None, smt2=None):
        self.status = status  # 'unsat' | 'sat' | 'unknown'
        self.backend = backend
        self.ms = ms
        self.model = model
        self.reason = reason
        self.smt2 = smt2
        self.candidate_model = None  # model of the quantifier-free part only (when the full problem is undecided)

    def __repr__(self):
        return f"Result({self.status}, {self.backend}, {self.ms:.0f}ms)"


_feas_cache = {}


def _has_quantifier(e, seen=None):
    seen = seen if seen is not None else set()
    if z3.is_quantifier(e):
        return True
    k = e.get_id()
    if k in seen:
        return False
    seen.add(k)
    return any(_has_quantifier(c, seen) for c in e.children())


def feasible(assumptions, timeout_ms=3000):
    """Quick satisfiability test used for path pruning.  'unknown' counts as feasible.
    The quantifier-free part is tried first (an unsatisfiable subset settles it)."""
    qf = [a for a in assumptions if not _has_quantifier(a)]
    s = z3.Solver()
    s.set("timeout", timeout_ms)
    for a in qf:
        s.add(a)
    if s.check() == z3.unsat:
        return False
    if len(qf) == len(assumptions):
        return True
    s = z3.Solver()
    s.set("timeout", min(timeout_ms, 1500))
    for a in assumptions:
        s.add(a)
    return s.check() != z3.unsat


def to_smt2(hyps, goal):
    s = z3.Solver()
    for h in hyps:
        s.add(h)
    s.add(z3.Not(goal))
    return s.to_smt2()


def _run_external(cmd, smt2, timeout_s):
    with tempfile.NamedTemporaryFile("w", suffix=".smt2", delete=False) as f:
        f.write(smt2)
        path = f.name
    try:
        t0 = time.time()
        out = subprocess.run(cmd + [path], capture_output=True, text=True, timeout=timeout_s + 5)
        txt = (out.stdout or "").strip().splitlines()
        status = txt[0].strip() if txt else "unknown"
        if status not in ("sat", "unsat", "unknown"):
            status = "unknown"
        return status, (time.time() - t0) * 1000
    except subprocess.TimeoutExpired:
        return "unknown", timeout_s * 1000
    finally:
        os.unlink(path)


def _z3_check(hyps, goal, timeout_ms):
    s = z3.Solver()
    s.set("timeout", timeout_ms)
    for h in hyps:
        s.add(h)
    s.add(z3.Not(goal))
    t0 = time.time()
    r = s.check()
    return r, s, (time.time() - t0) * 1000


def prove(hyps, goal, timeout_ms=None, want_model=True, backends=("z3", "ring", "cvc5", "z3old"), ring_first=False):
    """Try to prove hyps |- goal.  unsat = proved, sat = refuted (model attached).

    Strategy: (1) quantifier-free hypotheses only (fast; proving from fewer hypotheses is sound);
    (2) all hypotheses; (3) ring normaliser / cvc5 / z3 4.8 on the full problem.  If (2),(3) stay
    undecided but (1) found a model, that model is returned as a *candidate* refutation
    (Result.candidate = True): it ignores the quantified hypotheses and only counts when it replays natively."""
    timeout_ms = timeout_ms or TIMEOUT_MS
    t0 = time.time()
    if ring_first and "ring" in backends:
        from . import ring

        ok, info = ring.prove_identity(hyps, goal)
        if ok:
            return Result("unsat", "ring-normaliser", (time.time() - t0) * 1000, reason=info)
    qf = [h for h in hyps if not _has_quantifier(h)]
    candidate = None
    if len(qf) != len(hyps):
        r, s, ms = _z3_check(qf, goal, min(timeout_ms, 5000))
        if r == z3.unsat:
            return Result("unsat", "z3-5.1", ms)
        if r == z3.sat:
            candidate = s.model()
    r, s, ms = _z3_check(hyps, goal, timeout_ms if candidate is None else min(timeout_ms, 8000))
    ms = (time.time() - t0) * 1000
    if r == z3.unsat:
        return Result("unsat", "z3-5.1", ms)
    if r == z3.sat:
        return Result("sat", "z3-5.1", ms, model=s.model() if want_model else None)
    reason = s.reason_unknown()
    if "ring" in backends and not ring_first:
        from . import ring

        ok, info = ring.prove_identity(hyps, goal)
        if ok:
            return Result("unsat", "ring-normaliser", (time.time() - t0) * 1000, reason=info)
    smt2 = s.to_smt2()
    if candidate is None:
        # the external back ends are only worth their time when nothing is known yet
        if "cvc5" in backends and os.path.exists("/usr/bin/cvc5"):
            st, ms2 = _run_external(["/usr/bin/cvc5", f"--tlimit={timeout_ms}", "--nl-ext-tplanes"], smt2, timeout_ms / 1000)
            if st == "unsat":
                return Result("unsat", "cvc5-1.0", (time.time() - t0) * 1000)
            if st == "sat":
                return Result("sat", "cvc5-1.0", (time.time() - t0) * 1000, model=None, reason="model not extracted (cvc5 CLI)")
        if "z3old" in backends and os.path.exists("/usr/bin/z3"):
            st, ms3 = _run_external(["/usr/bin/z3", f"-T:{max(1, timeout_ms // 1000)}"], smt2, timeout_ms / 1000)
            if st == "unsat":
                return Result("unsat", "z3-4.8", (time.time() - t0) * 1000)
            if st == "sat":
                return Result("sat", "z3-4.8", (time.time() - t0) * 1000, model=None, reason="model not extracted (z3 4.8 CLI)")
    res = Result("unknown", "z3-5.1", (time.time() - t0) * 1000, reason=reason, smt2=smt2)
    if candidate is not None:
        res.candidate_model = candidate
    return res


def cvc5_recheck(hyps, goal, timeout_ms=None):
    """Independent re-check of a proved obligation with cvc5 on the SMT-LIB dump."""
    timeout_ms = timeout_ms or TIMEOUT_MS
    smt2 = to_smt2(hyps, goal)
    st, ms = _run_external(["/usr/bin/cvc5", f"--tlimit={timeout_ms}"], smt2, timeout_ms / 1000)
    return st, ms


def model_to_dict(model, limit=60):
    """Readable rendering of a z3 model (constants only, functions summarised)."""
    out = {}
    if model is None:
        return out
    for d in model.decls()[:limit]:
        try:
            v = model[d]
            out[d.name()] = str(v)[:200]
        except Exception:  # pragma: no cover
            pass
    return out


def cross_check(hyps, goal, timeout_ms=5000):
    """Second opinions on a proved obligation: {'z3-4.8': status, 'cvc5': status, 'quantifier_free': bool}."""
    out = {}
    try:
        smt2 = to_smt2(hyps, goal)
    except Exception as e:  # dump problems are not verdicts
        return {"error": repr(e)[:100]}
    out["quantifier_free"] = "forall" not in smt2 and "exists" not in smt2
    for name, cmd in (("z3-4.8", ["/usr/bin/z3", f"-T:{max(1, timeout_ms // 1000)}"]), ("cvc5", ["/usr/bin/cvc5", f"--tlimit={timeout_ms}"])):
        try:
            st, ms = _run_external(cmd, smt2, timeout_ms / 1000)
        except Exception:
            st = "unknown"
        out[name] = st
    return out
