"""sympy model (assumed contracts D-diff, D-cse, D-simp, D-lam): Matrix / jacobian / iteration order."""
from __future__ import annotations

import z3

from .interp import Builtin, PyList, as_seq2
from .sym import SInt, SSeq, SV, Unsupported, to_int, wrap
from .symtheory import Expr, ExprV, SymV, diff_f, name_f


class SymMatrix(SV):
    """sympy.Matrix of expressions: rows x cols, cell(r, c) -> z3 Expr term."""

    _count = 0

    def __init__(self, rows, cols, cell):
        self.rows, self.cols, self.cell = rows, cols, cell

    def pvc_getattr(self, I, name):
        if name == "shape":
            return (wrap(self.rows), wrap(self.cols))
        if name == "jacobian":

            def jac(I, args, kw):
                X = as_seq2(args[0]) if not isinstance(args[0], SSeq) else args[0]
                if not (isinstance(self.cols, int) and self.cols == 1) and not z3.eq(z3.simplify(to_int(self.cols)), z3.IntVal(1)):
                    raise Unsupported("jacobian of a non-column matrix")
                cell = self.cell
                # D-diff (weakened): Matrix(F).jacobian(X)[r, c] = jac(F_r, X_c), which is diff(F_r, X_c) WHEN it is in closed form
                jacobian_axioms(I.path)
                return SymMatrix(self.rows, X.len_z(), lambda r, c: jac_f(cell(r, z3.IntVal(0)), X.at(c).z))

            return Builtin("Matrix.jacobian", jac)
        if name == "free_symbols":
            SymMatrix._count += 1
            mfs = z3.Function(f"matrix_free_symbol!{SymMatrix._count}", Sym, z3.BoolSort())
            return FreeSymsV(lambda s: mfs(s))
        if name == "xreplace":
            return Builtin("Matrix.xreplace", lambda I, a, k: xreplace_matrix(I, self, a[0]))
        if name == "has":
            return Builtin("Matrix.has", lambda I, a, k: matrix_has(I, self, a[0]))
        return NotImplemented

    def pvc_getitem(self, I, key):
        if isinstance(key, tuple) and len(key) == 2:
            r, c = (z3.IntVal(k) if isinstance(k, int) else to_int(k) for k in key)
            I.raise_if(z3.Not(z3.And(r >= 0, r < to_int(self.rows), c >= 0, c < to_int(self.cols))), "IndexError")  # (negative indices: not modelled)
            return ExprV(self.cell(r, c))
        raise Unsupported("Matrix[...] with something else than (row, column)")

    def pvc_iter(self, I):
        rm = RowMajor(self)
        I.path.ghost.setdefault("row_major", []).append(rm)
        return rm


class RowMajor(SSeq):
    """Iterating a sympy Matrix is row-major (D-diff).  The flattened sequence is an uninterpreted function with the
    instantiable law  flat(r*cols + c) = M[r, c]  (0 <= r < rows, 0 <= c < cols)."""

    _count = 0

    def __init__(self, m):
        RowMajor._count += 1
        self.m = m
        self.f = z3.Function(f"flat!{RowMajor._count}", z3.IntSort(), Expr)
        n = z3.simplify(to_int(m.rows) * to_int(m.cols))
        super().__init__(wrap(n), lambda q: ExprV(self.f(q)), "row_major")
        self.pvc_type = "list"

    def law(self, r, c):
        m = self.m
        return z3.Implies(z3.And(r >= 0, r < to_int(m.rows), c >= 0, c < to_int(m.cols)), self.f(r * to_int(m.cols) + c) == m.cell(r, c))


def install(M):
    def matrix(I, args, kw):
        v = args[0]
        s = I.iter_seq(v)
        s = as_seq2(s)
        probe = s.at(z3.Int("probe!m"))
        if not isinstance(probe, ExprV):
            raise Unsupported("Matrix of non-expressions")
        return SymMatrix(s.len_z(), 1, lambda r, c: s.at(r).z)

    M.froms[("sympy", "Matrix")] = Builtin("sympy.Matrix", matrix)
    from .models import TypeV

    M.froms[("sympy", "Symbol")] = TypeV("Symbol", lambda I, v: isinstance(v, SymV))
    M.froms[("sympy", "Derivative")] = TypeV("Derivative", lambda I, v: False)

    def dummy(I, args, kw):
        # Dummy(s.name, real=True): a NEW symbol, created for the symbol s whose name it borrows (D-dummy)
        a = args[0] if args else None
        if not (a is not None and hasattr(a, "z") and z3.is_app(a.z) and a.z.decl().eq(name_f)):
            raise Unsupported("Dummy not named after a symbol")
        if set(kw) - {"real"} or (kw.get("real") is not True):
            raise Unsupported("Dummy with other assumptions than real=True")
        dummy_axioms(I.path)
        return SymV(dummy_f(a.z.arg(0)))

    M.froms[("sympy", "Dummy")] = Builtin("sympy.Dummy", dummy)
    for n in ("cse", "simplify", "diff", "ccode"):
        M.froms[("sympy", n)] = Builtin("sympy." + n, lambda I, a, k, n=n: (_ for _ in ()).throw(Unsupported(f"sympy.{n} (dependency contract not modelled here)")))
    M.froms[("sympy.utilities.lambdify", "lambdify")] = Builtin("lambdify", lambda I, a, k: (_ for _ in ()).throw(Unsupported("lambdify")))
    M.froms[("scipy.optimize", "minimize")] = Builtin("minimize", lambda I, a, k: (_ for _ in ()).throw(Unsupported("scipy minimize")))
    M.froms[("sklearn.base", "BaseEstimator")] = "BaseEstimator"
    from .models import ModelModule

    M.modules["sympy"] = ModelModule("sympy", {})


# ------------------------------------------------------------------------------------------------------------------------
# Real-valued differentiation by renaming (python._jacobian): Dummy symbols, xreplace, Matrix.has(Derivative)
#
#   closed_form(e)    e contains no unevaluated binder node (Derivative / Integral / Subs).  D-cse, D-simp and D-lam are assumed for
#                     closed-form expressions ONLY: cse abstracts the operand of a Derivative into a temporary and simplify then
#                     evaluates Derivative(_t0, v) to 0 (defect D12).
#   D-diff (weakened) Matrix(F).jacobian(X)[r, c] = jac(F_r, X_c);  closed_form(jac(e, x)) => jac(e, x) = diff(e, x), where diff(e, x)
#                     is the SPEC: an expression denoting the partial derivative of the real function e.  Nothing is promised about an
#                     entry sympy leaves unevaluated.
#   D-dummy           Dummy(...) returns a symbol distinct from every other symbol (injective in the symbol it is created for, and
#                     different from every symbol of the arguments).
#   D-xr              M.xreplace(rho)[r, c] = xreplace(M[r, c], rho); a renaming neither creates nor removes binder nodes.
#   D-ren             (mathematics) differentiation commutes with an injective renaming of the symbols:
#                     rho_b o rho_a = id on the symbols of e and x  =>  xreplace(diff(xreplace(e, rho_a), rho_a[x]), rho_b) = diff(e, x).

from .symtheory import Sym  # noqa: E402

Ren = z3.ArraySort(Sym, Sym)
xr_f = z3.Function("xreplace", Expr, Ren, Expr)
jac_f = z3.Function("sympy_jacobian_entry", Expr, Sym, Expr)
closed_f = z3.Function("closed_form", Expr, z3.BoolSort())
dummy_f = z3.Function("dummy_for", Sym, Sym)
undummy_f = z3.Function("dummy_origin", Sym, Sym)
real_unknown_f = z3.Function("is_real_is_None", Sym, z3.BoolSort())
is_real_f = z3.Function("is_real", Sym, z3.BoolSort())
dummy_free_f = z3.Function("no_symbol_created_during_the_call", Expr, z3.BoolSort())


def is_dummy(y):
    """y was created by Dummy() during the call under verification"""
    return dummy_f(undummy_f(y)) == y


def once(P, tag, thunk):
    done = P.ghost.setdefault("sympy_axioms", set())
    if tag not in done:
        done.add(tag)
        for f in thunk():
            P.facts.append(f)


def jacobian_axioms(P):
    def mk():
        e, x = z3.Const("jx!e", Expr), z3.Const("jx!x", Sym)
        yield z3.ForAll([e, x], z3.Implies(closed_f(jac_f(e, x)), jac_f(e, x) == diff_f(e, x)), patterns=[jac_f(e, x)])

    once(P, "D-diff", mk)


def dummy_axioms(P):
    def mk():
        s = z3.Const("dm!s", Sym)
        yield z3.ForAll([s], undummy_f(dummy_f(s)) == s, patterns=[dummy_f(s)])

    once(P, "D-dummy", mk)


class SymComp:
    """{... for s in <abstract set of symbols> if <cond>}: bound symbol, membership/filter condition and the element template."""

    def __init__(self, var, dom, elt):
        self.var, self.dom, self.elt = var, dom, elt


class FreeSymsV(SV):
    """M.free_symbols of a symbolic matrix: an abstract set of symbols; only comprehensions over it are modelled."""

    pvc_type = "set"

    def __init__(self, member):
        self.member = member

    def pvc_comprehension(self, I, gen, elt_thunk):
        return comprehend(I, gen, elt_thunk, lambda s0: (SymV(s0), self.member(s0)))


def comprehend(I, gen, elt_thunk, bind):
    from .interp import Frame, wrap_b
    from .sym import to_bool

    s0 = z3.Const(I.path.names.fresh("cs"), Sym)
    target, dom = bind(s0)
    fr = Frame(None, {}, I.frame)
    fr.is_comp = True
    fr.module = None
    I.frames.append(fr)
    try:
        I.assign(gen.target, target)
        conds = [dom]
        for cond in gen.ifs:
            c = I.truth(I.eval(cond))
            conds.append(z3.BoolVal(c) if isinstance(c, bool) else to_bool(wrap_b(c)))
        elt = elt_thunk()
    finally:
        I.frames.pop()
    return SymComp(s0, z3.And(*conds), elt)


class RenMapV(SV):
    """A dict Symbol -> Symbol given by comprehension: has(y), get(y) as z3 terms; as an xreplace argument it is the total renaming
    `array` (identity outside the keys), a fresh array constant with its definition as a fact (so select terms stay matchable)."""

    pvc_type = "dict"
    _count = 0

    def __init__(self, P, has, get):
        RenMapV._count += 1
        self.has, self.get_z = has, get
        self.array = z3.Const(f"renaming!{RenMapV._count}", Ren)
        y = z3.Const(f"rn!y{RenMapV._count}", Sym)
        P.facts.append(z3.ForAll([y], self.array[y] == z3.If(has(y), get(y), y), patterns=[self.array[y]]))

    def pvc_getattr(self, I, name):
        if name == "get":

            def get(I, args, kw):
                k = args[0]
                if not isinstance(k, SymV):
                    raise Unsupported("renaming.get of a non-symbol")
                if len(args) == 2 and isinstance(args[1], SymV) and z3.eq(args[1].z, k.z):
                    return SymV(self.array[k.z])  # d.get(s, s) IS the total renaming
                if len(args) == 2 and isinstance(args[1], SymV):
                    return SymV(z3.If(self.has(k.z), self.get_z(k.z), args[1].z))
                raise Unsupported("renaming.get without a symbol default")

            return Builtin("dict.get", get)
        if name == "items":
            return Builtin("dict.items", lambda I, a, k: RenItemsV(self))
        return NotImplemented

    def pvc_contains(self, I, x):
        if isinstance(x, SymV):
            return wrap(self.has(x.z))
        return False

    def pvc_getitem(self, I, k):
        if not isinstance(k, SymV):
            raise Unsupported("renaming[...] of a non-symbol")
        I.raise_if(z3.Not(self.has(k.z)), "KeyError")
        return SymV(self.get_z(k.z))


class RenItemsV(SV):
    def __init__(self, m):
        self.m = m

    def pvc_comprehension(self, I, gen, elt_thunk):
        m = self.m
        return comprehend(I, gen, elt_thunk, lambda s0: ((SymV(s0), SymV(m.get_z(s0))), m.has(s0)))


def renaming_from_pairs(I, comp):
    """dict(<SymComp of (key, value) pairs>).  Keys: the bound symbol itself, or its Dummy (inverted through D-dummy)."""
    P = I.path
    if not (isinstance(comp.elt, tuple) and len(comp.elt) == 2 and all(isinstance(t, SymV) for t in comp.elt)):
        raise Unsupported("dict comprehension over symbols that is not symbol -> symbol")
    kz, vz, s0, dom = comp.elt[0].z, comp.elt[1].z, comp.var, comp.dom
    if z3.eq(kz, s0):
        return RenMapV(P, lambda y: z3.substitute(dom, (s0, y)), lambda y: z3.substitute(vz, (s0, y)))
    if kz.decl().eq(dummy_f) and z3.eq(kz.arg(0), s0):
        # key Dummy(s): y is a key <=> y = dummy_for(s) for the s it was created for (dummy_origin(y)), and that s is in the domain
        dummy_axioms(P)
        return RenMapV(P, lambda y: z3.And(is_dummy(y), z3.substitute(dom, (s0, undummy_f(y)))), lambda y: z3.substitute(vz, (s0, undummy_f(y))))
    raise Unsupported("dict comprehension whose keys are neither the bound symbols nor their Dummy symbols")


def xreplace_matrix(I, m, ren):
    if not isinstance(ren, RenMapV):
        raise Unsupported("xreplace with something else than a symbol renaming")
    P = I.path
    rho = ren.array
    e = z3.Const("xr!e", Expr)
    once(P, f"D-xr:{rho}", lambda: [z3.ForAll([e], closed_f(xr_f(e, rho)) == closed_f(e), patterns=[xr_f(e, rho)])])
    earlier = P.ghost.setdefault("renamings", [])
    for rho_a in earlier:
        # D-ren for the pair (rho_a, rho): stated with x = rho[y] so that the only trigger is the shape of the term itself
        s, y = z3.Const("rn!s", Sym), z3.Const("rn!v", Sym)
        inv = z3.Const(P.names.fresh("renaming_undone"), z3.BoolSort())
        P.facts.append(inv == z3.ForAll([s], z3.Implies(z3.Not(is_dummy(s)), rho[rho_a[s]] == s), patterns=[rho_a[s]]))
        P.facts.append(
            z3.ForAll(
                [e, y],
                z3.Implies(z3.And(inv, dummy_free_f(e), z3.Not(is_dummy(rho[y])), rho_a[rho[y]] == y), xr_f(diff_f(xr_f(e, rho_a), y), rho) == diff_f(e, rho[y])),
                patterns=[xr_f(diff_f(xr_f(e, rho_a), y), rho)],
            )
        )
    earlier.append(rho)
    cell = m.cell
    return SymMatrix(m.rows, m.cols, lambda r, c: xr_f(cell(r, c), rho))


def matrix_has(I, m, what):
    """M.has(Derivative): False => every entry is in closed form (the only direction the callers rely on)."""
    from .models import TypeV
    from .sym import SBool

    if not (isinstance(what, TypeV) and what.name == "Derivative"):
        raise Unsupported("Matrix.has of something else than Derivative")
    P = I.path
    b = z3.Const(P.names.fresh("has_unevaluated_derivative"), z3.BoolSort())
    r, c = z3.Int("hs!r"), z3.Int("hs!c")
    body = z3.Implies(z3.And(r >= 0, r < to_int(m.rows), c >= 0, c < to_int(m.cols)), closed_f(m.cell(r, c)))
    def concrete(v):
        v = z3.simplify(to_int(v)) if not isinstance(v, int) else z3.IntVal(v)
        return v.as_long() if z3.is_int_value(v) else None

    nr, nc = concrete(m.rows), concrete(m.cols)
    if nr is not None and nc is not None and nr * nc <= 16:
        q = z3.And(*[closed_f(m.cell(z3.IntVal(a), z3.IntVal(bb))) for a in range(nr) for bb in range(nc)]) if nr * nc else z3.BoolVal(True)
    else:
        from z3 import z3util

        names = {str(v) for v in z3util.get_vars(m.cell(r, c))}
        q = z3.ForAll([r, c], body, patterns=[m.cell(r, c)]) if {"hs!r", "hs!c"} <= names else z3.ForAll([r, c], body)
    P.facts.append(z3.Implies(z3.Not(b), q))
    P.ghost.setdefault("no_closed_form", []).append(b)  # (a caller that inlines the helper sees the same refusal condition)
    return SBool(b)
