"""sympy model (assumed contracts D-diff, D-cse, D-simp, D-lam): Matrix / jacobian / iteration order."""
from __future__ import annotations

import z3

from .interp import Builtin, PyList, as_seq2
from .sym import SInt, SSeq, SV, Unsupported, to_int, wrap
from .symtheory import Expr, ExprV, SymV, diff_f


class SymMatrix(SV):
    """sympy.Matrix of expressions: rows x cols, cell(r, c) -> z3 Expr term."""

    def __init__(self, rows, cols, cell):
        self.rows, self.cols, self.cell = rows, cols, cell

    def pvc_getattr(self, I, name):
        if name == "shape":
            return (wrap(self.rows), wrap(self.cols))
        if name == "jacobian":

            def jac(I, args, kw):
                X = as_seq2(args[0]) if not isinstance(args[0], SSeq) else args[0]
                if not (isinstance(self.cols, int) and self.cols == 1) and not z3.eq(z3.simplify(to_int(self.cols)), z3.IntVal(1)):
                    raise Unsupported("jacobian of a non-column matrix")
                cell = self.cell
                # D-diff: Matrix(F).jacobian(X)[r, c] = diff(F_r, X_c)
                return SymMatrix(self.rows, X.len_z(), lambda r, c: diff_f(cell(r, z3.IntVal(0)), X.at(c).z))

            return Builtin("Matrix.jacobian", jac)
        return NotImplemented

    def pvc_iter(self, I):
        rm = RowMajor(self)
        I.path.ghost.setdefault("row_major", []).append(rm)
        return rm


class RowMajor(SSeq):
    """Iterating a sympy Matrix is row-major (D-diff).  The flattened sequence is an uninterpreted function with the
    instantiable law  flat(r*cols + c) = M[r, c]  (0 <= r < rows, 0 <= c < cols)."""

    _count = 0

    def __init__(self, m):
        RowMajor._count += 1
        self.m = m
        self.f = z3.Function(f"flat!{RowMajor._count}", z3.IntSort(), Expr)
        n = z3.simplify(to_int(m.rows) * to_int(m.cols))
        super().__init__(wrap(n), lambda q: ExprV(self.f(q)), "row_major")
        self.pvc_type = "list"

    def law(self, r, c):
        m = self.m
        return z3.Implies(z3.And(r >= 0, r < to_int(m.rows), c >= 0, c < to_int(m.cols)), self.f(r * to_int(m.cols) + c) == m.cell(r, c))


def install(M):
    def matrix(I, args, kw):
        v = args[0]
        s = I.iter_seq(v)
        s = as_seq2(s)
        probe = s.at(z3.Int("probe!m"))
        if not isinstance(probe, ExprV):
            raise Unsupported("Matrix of non-expressions")
        return SymMatrix(s.len_z(), 1, lambda r, c: s.at(r).z)

    M.froms[("sympy", "Matrix")] = Builtin("sympy.Matrix", matrix)
    from .models import TypeV

    M.froms[("sympy", "Symbol")] = TypeV("Symbol", lambda I, v: isinstance(v, SymV))
    for n in ("cse", "simplify", "diff", "ccode"):
        M.froms[("sympy", n)] = Builtin("sympy." + n, lambda I, a, k, n=n: (_ for _ in ()).throw(Unsupported(f"sympy.{n} (dependency contract not modelled here)")))
    M.froms[("sympy.utilities.lambdify", "lambdify")] = Builtin("lambdify", lambda I, a, k: (_ for _ in ()).throw(Unsupported("lambdify")))
    M.froms[("scipy.optimize", "minimize")] = Builtin("minimize", lambda I, a, k: (_ for _ in ()).throw(Unsupported("scipy minimize")))
    M.froms[("sklearn.base", "BaseEstimator")] = "BaseEstimator"
    from .models import ModelModule

    M.modules["sympy"] = ModelModule("sympy", {})
